#!/bin/bash
# Development helper (not used by any registered check). Needs a scratch git worktree of /repo at /tmp/wk with a warm target/ directory:
#   git -C /repo worktree add --detach -f /tmp/wk HEAD   (remove it afterwards: git -C /repo worktree remove --force /tmp/wk)
# re-run every recorded seed against a copy of /verif and a scratch tree (never touches /repo or /verif/evidence)
rm -rf /tmp/verif-reg && cp -r /verif /tmp/verif-reg && rm -rf /tmp/verif-reg/.git
wk=/tmp/wk
cd $wk && git checkout -q -- . && git clean -fdq core && git checkout -q --detach $(git -C /repo rev-parse HEAD)
out=/tmp/seedlogs/regression.txt; : > $out
for d in /verif/seeded/*/; do
  s=$(basename $d); p=${s%%-*}
  cd $wk && git checkout -q -- . && git apply $d/patch.diff 2>/dev/null || { echo "$s patch does not apply" >> $out; continue; }
  cd /tmp/verif-reg && VERIF_REPO=$wk ./check $p --tier quick > /tmp/seedlogs/reg-$s.out 2>&1; rc=$?
  echo "$s rc=$rc $(grep -c '^VIOLATION' /tmp/seedlogs/reg-$s.out) violations; $(grep -E '^VIOLATION' /tmp/seedlogs/reg-$s.out | head -1 | cut -c1-160)" >> $out
done
cd $wk && git checkout -q -- .
echo done >> $out
