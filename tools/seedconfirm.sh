#!/bin/bash
# Development helper (not used by any registered check). Needs a scratch git worktree of /repo at /tmp/wk with a warm target/ directory:
#   git -C /repo worktree add --detach -f /tmp/wk HEAD   (remove it afterwards: git -C /repo worktree remove --force /tmp/wk)
# usage: seedconfirm.sh <seed-id> <agent SEED dir>   (uses /tmp/wk as scratch worktree at /repo HEAD)
id=$1; src=$2; wk=/tmp/wk; log=/tmp/seedlogs/$id.log
exec >$log 2>&1
cd $wk && git checkout -q -- . && git clean -fdq core/tests core/src && git checkout -q --detach $(git -C /repo rev-parse HEAD)
demo=$(ls $src/demo_*.rs | head -1); name=$(basename $demo .rs)
cp $demo core/tests/
echo "== demo on clean HEAD (expect pass)"; (cd core && timeout 900 cargo test --offline $(cat $src/cargo_args 2>/dev/null) --test $name 2>&1 | grep -E "^test |test result|panicked" | head -20)
echo "== apply patch"; git apply $src/patch.diff && echo applied
echo "== demo with change (expect FAIL)"; (cd core && timeout 900 cargo test --offline $(cat $src/cargo_args 2>/dev/null) --test $name 2>&1 | grep -E "^test |test result|panicked" | head -20)
rm core/tests/$name.rs
echo "== suite with change"; timeout 1500 cargo nextest run -p rzmq --offline --no-fail-fast --test-threads 8 --tool-config-file pb:/w/lib/nextest.toml --profile pb -E "not test(test_concurrent_term_and_op)" 2>&1 | grep -E "^\s+(FAIL|Summary|TIMEOUT)" | sort | uniq | head -30
git checkout -q -- . ; git clean -fdq core/tests core/src
echo "== done"
