#[cfg(test)]
mod verif_enum_connect_failed {
  use super::*;
  use crate::socket::core::state::ReconnectState;
  use crate::socket::options::SocketOptions;
  use crate::socket::types::SocketType;
  use std::time::{Duration, Instant};

  // Bounded exhaustive stand-in for obligation handle_connect_failed_event.* (C17), used when unit connfail cannot decide:
  // RECONNECT_IVL in {unset, 100 ms} x error in {fatal, retryable} x the failed endpoint {unknown, already backing off} x other
  // endpoints {none, one with an armed retry, two}: the event of endpoint T must leave every OTHER endpoint's retry state exactly
  // as it was (attempt count and armed time), must not drop or invent entries, and must arm T's own retry iff the failure is retryable.
  #[tokio::test]
  async fn enum_connect_failed_touches_only_its_own_endpoint() {
    let ctx = crate::Context::new().unwrap();
    let mut cases = 0usize;
    for ivl in [None, Some(Duration::from_millis(100))] {
      for fatal in [false, true] {
        for target_known in [false, true] {
          for n_others in 0..=2usize {
            let mut opts = SocketOptions::default();
            opts.reconnect_ivl = ivl;
            let (logic, _mailbox) = SocketCore::create_and_spawn(ctx.inner().next_handle(), ctx.clone(), SocketType::Dealer, opts).unwrap();
            let core = logic.core().clone();
            let target = "tcp://127.0.0.1:1".to_string();
            let armed = Instant::now() + Duration::from_secs(30);
            let mut before: Vec<(String, u32, Option<Instant>)> = Vec::new();
            {
              let mut st = core.core_state.write();
              for k in 0..n_others {
                let uri = format!("tcp://127.0.0.1:{}", 7000 + k);
                st.reconnect_states.insert(uri.clone(), ReconnectState { current_attempts: 3 + k as u32, next_attempt_at: Some(armed) });
                before.push((uri, 3 + k as u32, Some(armed)));
              }
              if target_known {
                st.reconnect_states.insert(target.clone(), ReconnectState { current_attempts: 1, next_attempt_at: None });
              }
            }
            let error = if fatal { ZmqError::DnsResolutionFailed("no such host".into()) } else { ZmqError::ConnectionRefused(target.clone()) };
            let case = format!("reconnect_ivl={:?} fatal={} target_known={} other_endpoints={}", ivl, fatal, target_known, n_others);
            assert_eq!(crate::transport::tcp::is_fatal_connect_error(&error), fatal, "{}: the test's error classification", case);
            handle_connect_failed_event(core.clone(), logic.clone(), target.clone(), error).await;
            let st = core.core_state.read();
            for (uri, attempts, at) in &before {
              let now = st.reconnect_states.get(uri);
              assert!(now.is_some(), "{}: the retry state of the OTHER endpoint {} was dropped", case, uri);
              let now = now.unwrap();
              assert!(now.current_attempts == *attempts && now.next_attempt_at == *at, "{}: the retry state of the OTHER endpoint {} was changed", case, uri);
            }
            let expected_len = n_others + usize::from(target_known || (ivl.is_some() && !fatal));
            assert_eq!(st.reconnect_states.len(), expected_len, "{}: entries were dropped or invented", case);
            if ivl.is_some() && !fatal {
              let t = st.reconnect_states.get(&target).expect("retryable failure: the endpoint's own retry state exists");
              assert!(t.next_attempt_at.is_some() && t.current_attempts == if target_known { 2 } else { 1 }, "{}: the endpoint's own retry is armed and counted", case);
            } else if target_known {
              let t = st.reconnect_states.get(&target).unwrap();
              assert!(t.current_attempts == 1 && t.next_attempt_at.is_none(), "{}: a failure that is not retried changes no retry state", case);
            }
            drop(st);
            let _ = logic.close().await;
            cases += 1;
          }
        }
      }
    }
    assert_eq!(cases, 24);
  }
}
