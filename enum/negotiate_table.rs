#[cfg(test)]
mod verif_enum_negotiate {
  use super::*;
  use crate::protocol::zmtp::greeting::ZmtpGreeting;
  use crate::socket::options::{SocketOptions, ZmtpEngineConfig};

  // Complete enumeration of the decision table of negotiate_security_mechanism (C06; the engine proof ASSUMES this contract):
  // every combination of the configuration flags the table looks at (security_enabled, use_plain and, when compiled in, use_curve /
  // use_noise_xx; credentials set or unset) x every mechanism name a peer can announce (NULL, PLAIN, CURVE, NOISE_XX, unknown text,
  // all zeros, a known name with trailing garbage) x both roles.  A mechanism is returned ONLY if the peer announced exactly its name and
  // the local configuration enables it -- NULL only when no security mechanism is configured -- and never another mechanism than the
  // one announced.
  #[test]
  fn enum_negotiate_returns_only_enabled_mechanisms() {
    fn name20(s: &[u8]) -> [u8; 20] { let mut a = [0u8; 20]; a[..s.len()].copy_from_slice(s); a }
    let names: Vec<(&str, [u8; 20])> = vec![
      ("NULL", name20(b"NULL")), ("PLAIN", name20(b"PLAIN")), ("CURVE", name20(b"CURVE")), ("NOISE_XX", name20(b"NOISE_XX")),
      ("unknown", name20(b"GSSAPI")), ("zeros", [0u8; 20]), ("NULL+garbage", name20(b"NULLx")), ("PLAIN+garbage", name20(b"PLAIN\0x")),
    ];
    let mut cases = 0usize;
    for bits in 0..32u32 {
      let (security_enabled, use_plain, use_curve, use_noise, with_credentials) = (bits & 1 != 0, bits & 2 != 0, bits & 4 != 0, bits & 8 != 0, bits & 16 != 0);
      let mut cfg = ZmtpEngineConfig::from(&SocketOptions::default());
      cfg.security_enabled = security_enabled;
      #[cfg(feature = "plain")]
      {
        cfg.use_plain = use_plain;
        if with_credentials { cfg.plain_username_for_engine = Some("u".to_string()); cfg.plain_password_for_engine = Some("p".to_string()); }
      }
      #[cfg(feature = "curve")]
      { cfg.use_curve = use_curve; }
      #[cfg(feature = "noise_xx")]
      { cfg.use_noise_xx = use_noise; }
      let _ = (use_plain, use_curve, use_noise, with_credentials);
      for (label, mech) in &names {
        for is_server in [false, true] {
          let greeting = ZmtpGreeting { version: (3, 1), mechanism: *mech, as_server: !is_server };
          let case = format!("security_enabled={} use_plain={} use_curve={} use_noise_xx={} credentials={} peer announces {} is_server={}", security_enabled, use_plain, use_curve, use_noise, with_credentials, label, is_server);
          if let Ok(m) = negotiate_security_mechanism(is_server, &cfg, &greeting, 0) {
            let got = m.name();
            assert_eq!(got, *label, "{}: returned mechanism {} although the peer announced something else", case, got);
            let enabled = match got {
              "NULL" => !security_enabled,
              "PLAIN" => cfg!(feature = "plain") && use_plain,
              "CURVE" => cfg!(feature = "curve") && use_curve,
              "NOISE_XX" => cfg!(feature = "noise_xx") && use_noise,
              _ => false,
            };
            assert!(enabled, "{}: returned mechanism {} which the local configuration does not enable", case, got);
          }
          cases += 1;
        }
      }
    }
    assert_eq!(cases, 32 * 8 * 2);
  }
}
