#[cfg(test)]
mod verif_enum_trie_histories {
  use super::*;

  // Bounded exhaustive stand-in for the obligations of unit trie (C12), used when that unit cannot decide: EVERY history of up to 4
  // subscribe / unsubscribe calls over the 7 topics of length <= 2 over {a, b} (the empty topic, nested prefixes, repeats), and after
  // every step every message topic of length <= 3 is matched against the reference semantics of the property text:
  //   matches(t)  <=>  some topic with a positive subscription count is a byte-prefix of t;
  //   subscribe(p) adds one to p's count; unsubscribe(p) removes one iff the count is positive and returns whether it reached zero;
  //   unsubscribing something never subscribed changes nothing.
  fn words(max_len: usize) -> Vec<Vec<u8>> {
    let mut out: Vec<Vec<u8>> = vec![vec![]];
    let mut frontier: Vec<Vec<u8>> = vec![vec![]];
    for _ in 0..max_len {
      let mut next = Vec::new();
      for w in &frontier {
        for c in [b'a', b'b'] {
          let mut v = w.clone();
          v.push(c);
          next.push(v);
        }
      }
      out.extend(next.iter().cloned());
      frontier = next;
    }
    out
  }

  #[test]
  fn enum_trie_all_short_histories() {
    let topics = words(2); // 7 subscription topics
    let probes = words(3); // 15 message topics
    let n_ops = topics.len() * 2;
    let mut histories = 0usize;
    let mut stack: Vec<Vec<usize>> = vec![vec![]];
    while let Some(h) = stack.pop() {
      // replay the history on a fresh trie and on the reference model
      let trie = SubscriptionTrie::new();
      let mut counts = vec![0usize; topics.len()];
      for (step, op) in h.iter().enumerate() {
        let (t, unsub) = (op / 2, op % 2 == 1);
        if unsub {
          let expected = counts[t] == 1;
          if counts[t] > 0 { counts[t] -= 1; }
          let got = trie.unsubscribe(&topics[t]);
          assert_eq!(got, expected, "history {:?} step {}: unsubscribe({:?}) returned {}", describe(&h, &topics), step, topics[t], got);
        } else {
          counts[t] += 1;
          trie.subscribe(&topics[t]);
        }
        for p in &probes {
          let expected = topics.iter().enumerate().any(|(i, s)| counts[i] > 0 && p.starts_with(s));
          let got = trie.matches(p);
          assert_eq!(got, expected, "history {:?} after step {}: matches({:?}) is {} but the active subscriptions {:?} say {}",
            describe(&h, &topics), step, String::from_utf8_lossy(p), got, active(&counts, &topics), expected);
        }
      }
      histories += 1;
      if h.len() < 4 {
        for op in 0..n_ops {
          let mut h2 = h.clone();
          h2.push(op);
          stack.push(h2);
        }
      }
    }
    assert_eq!(histories, 1 + 14 + 14 * 14 + 14 * 14 * 14 + 14 * 14 * 14 * 14);
  }

  fn describe(h: &[usize], topics: &[Vec<u8>]) -> Vec<String> {
    h.iter().map(|op| format!("{}({:?})", if op % 2 == 1 { "unsubscribe" } else { "subscribe" }, String::from_utf8_lossy(&topics[op / 2]))).collect()
  }
  fn active(counts: &[usize], topics: &[Vec<u8>]) -> Vec<String> {
    counts.iter().enumerate().filter(|(_, c)| **c > 0).map(|(i, c)| format!("{:?}x{}", String::from_utf8_lossy(&topics[i]), c)).collect()
  }
}
