#[cfg(test)]
mod verif_enum_push_priority {
  use super::*;

  // Bounded exhaustive stand-in for obligation EgressBuffer::push_priority.* (C01 / C19), used when unit egress cannot decide:
  // every buffer of 0..=3 queued chunks (3, 2, 2 bytes; message counts 0/1 each), every partial write of the head chunk, then
  // push_priority(control frame).  What the socket still has to write must be the queued bytes in their order with the control
  // frame inserted at a chunk boundary: ahead of every queued data chunk, but never inside (= in front of) the partially written
  // head chunk; the counters must follow.
  #[test]
  fn enum_push_priority_all_small_buffers() {
    let payloads: [&'static [u8]; 3] = [&[1, 2, 3], &[4, 5], &[6, 7]];
    let ctrl: &'static [u8] = &[0xf0, 0xf1];
    let mut cases = 0usize;
    for n in 0..=3usize {
      for mc_bits in 0..(1usize << n) {
        let head_len = if n > 0 { payloads[0].len() } else { 1 };
        for off in 0..head_len {
          if n == 0 && off > 0 { continue; }
          let mut buf = EgressBuffer::new();
          let mut msgs = 0usize;
          for i in 0..n {
            let mc = (mc_bits >> i) & 1;
            msgs += mc;
            buf.push(Bytes::from_static(payloads[i]), mc);
          }
          if off > 0 { buf.advance(off); }
          // allowed results: the control frame sits at a chunk boundary p, not inside the partially written head (p >= 1 when
          // off > 0) and ahead of every queued DATA chunk other than that head (control frames queued earlier may stay ahead of it)
          let min_p = if off > 0 { 1 } else { 0 };
          let mut max_p = min_p;
          while max_p < n && (mc_bits >> max_p) & 1 == 0 { max_p += 1; }
          let mut allowed: Vec<Vec<u8>> = Vec::new();
          for p in min_p..=max_p {
            let mut e: Vec<u8> = Vec::new();
            for i in 0..=n {
              if i == p { e.extend_from_slice(ctrl); }
              if i < n { e.extend_from_slice(if i == 0 { &payloads[0][off..] } else { payloads[i] }); }
            }
            allowed.push(e);
          }
          let bytes_before = buf.total_pending_bytes();
          let case = format!("chunks={} message-count-bits={:#b} head-offset={}", n, mc_bits, off);
          buf.push_priority(Bytes::from_static(ctrl));
          assert_eq!(buf.total_pending_bytes(), bytes_before + ctrl.len(), "{}: byte counter", case);
          assert_eq!(buf.pending_messages(), msgs, "{}: a control frame is outside the message accounting", case);
          // write everything out the way the session does: current_slice(), then advance(what was written)
          let mut wire: Vec<u8> = Vec::new();
          let mut guard = 0;
          while let Some(s) = buf.current_slice() {
            let take = s.len().min(2).max(1);
            wire.extend_from_slice(&s[..take]);
            buf.advance(take);
            guard += 1;
            assert!(guard < 64, "{}: the buffer never drains", case);
          }
          assert!(allowed.contains(&wire), "{}: bytes still to be written after push_priority are {:?}, allowed {:?}", case, wire, allowed);
          assert!(buf.is_empty() && buf.total_pending_bytes() == 0 && buf.pending_messages() == 0, "{}: counters after draining", case);
          cases += 1;
        }
      }
    }
    assert!(cases >= 30, "enumeration shrank: {} cases", cases);
  }
}
