#[cfg(test)]
mod verif_enum_v2_compat {
  use super::*;
  use crate::socket::options::{SocketOptions, ZmtpEngineConfig};

  // Complete enumeration of ZmtpEngine::validate_v2_compatibility (C05: the compatibility verdict for a pair of socket types is the
  // same over ZMTP/3.x, ZMTP/2.0 and inproc): every socket type rzmq can be configured as (8) x every value of the peer's ZMTP/2.0
  // socket-type byte (256).  The verdict must be the ZeroMQ pairing table (RFC 15/28/29/30), with XPUB / XSUB peers standing for the PUB /
  // SUB side they extend; an unknown byte is refused.
  fn rfc_pair(own: &str, peer: &str) -> bool {
    let base = |s: &str| -> String { match s { "XPUB" => "PUB".to_string(), "XSUB" => "SUB".to_string(), o => o.to_string() } };
    let (a, b) = (base(own), base(peer));
    matches!(
      (a.as_str(), b.as_str()),
      ("PUSH", "PULL") | ("PULL", "PUSH") | ("PUB", "SUB") | ("SUB", "PUB") | ("REQ", "REP") | ("REP", "REQ") | ("REQ", "ROUTER") | ("ROUTER", "REQ")
        | ("DEALER", "REP") | ("REP", "DEALER") | ("DEALER", "ROUTER") | ("ROUTER", "DEALER") | ("DEALER", "DEALER") | ("ROUTER", "ROUTER")
    )
  }

  #[test]
  fn enum_v2_compatibility_is_the_pairing_table() {
    let names = ["PAIR", "PUB", "SUB", "REQ", "REP", "DEALER", "ROUTER", "PULL", "PUSH", "XPUB", "XSUB"];
    let mut cases = 0usize;
    for own in ["PUB", "SUB", "REQ", "REP", "DEALER", "ROUTER", "PULL", "PUSH"] {
      let mut opts = SocketOptions::default();
      opts.socket_type_name = own.to_string();
      let engine = ZmtpEngine::new(false, std::sync::Arc::new(ZmtpEngineConfig::from(&opts)));
      for byte in 0..=255u8 {
        let verdict = engine.validate_v2_compatibility(byte).is_ok();
        let expected = (byte as usize) < names.len() && rfc_pair(own, names[byte as usize]);
        assert_eq!(verdict, expected, "local {} <-> ZMTP/2.0 peer byte {} ({}): verdict {} but the pairing table says {}",
          own, byte, names.get(byte as usize).copied().unwrap_or("unknown"), verdict, expected);
        cases += 1;
      }
    }
    assert_eq!(cases, 8 * 256);
  }
}
