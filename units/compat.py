"""U-compat: the inproc socket-type compatibility table (transport/inproc/handshake.rs) against the ZeroMQ pairing
table that the ZMTP/2.0 path enforces (C05: one verdict over ZMTP/3.x, ZMTP/2.0 and inproc)."""
from vlib.vx import Fn, Item, Raw
from vlib.runner import Unit

HS = "core/src/transport/inproc/handshake.rs"
TY = "core/src/socket/types.rs"

SPEC = """
// the ZeroMQ pairing table (RFC 28/29/30; the same table validate_v2_compatibility implements, see Kani harness vk_v2_compat_table)
pub open spec fn rfc_compatible(a: SocketType, b: SocketType) -> bool {
  match (a, b) {
    (SocketType::Push, SocketType::Pull) | (SocketType::Pull, SocketType::Push) => true,
    (SocketType::Pub, SocketType::Sub) | (SocketType::Sub, SocketType::Pub) => true,
    (SocketType::Req, SocketType::Rep) | (SocketType::Rep, SocketType::Req) => true,
    (SocketType::Req, SocketType::Router) | (SocketType::Router, SocketType::Req) => true,
    (SocketType::Dealer, SocketType::Rep) | (SocketType::Rep, SocketType::Dealer) => true,
    (SocketType::Dealer, SocketType::Router) | (SocketType::Router, SocketType::Dealer) => true,
    (SocketType::Dealer, SocketType::Dealer) | (SocketType::Router, SocketType::Router) => true,
    _ => false,
  }
}
// KNOWN FINDING (KNOWN_FINDINGS.json): the six pairings inproc refuses although ZMTP/2.0 (and the RFCs) accept them
pub open spec fn inproc_known_gap(a: SocketType, b: SocketType) -> bool {
  match (a, b) {
    (SocketType::Dealer, SocketType::Dealer) | (SocketType::Router, SocketType::Router) => true,
    (SocketType::Req, SocketType::Router) | (SocketType::Router, SocketType::Req) => true,
    (SocketType::Dealer, SocketType::Rep) | (SocketType::Rep, SocketType::Dealer) => true,
    _ => false,
  }
}

pub proof fn lemma_pairing_table_symmetric(a: SocketType, b: SocketType)
  ensures rfc_compatible(a, b) == rfc_compatible(b, a), inproc_known_gap(a, b) == inproc_known_gap(b, a)
{}
"""

parts = [
  Raw("prelude/core.rs"),
  Item(TY, "enum", "SocketType", keep_derive=("Clone", "Copy", "PartialEq", "Eq")),
  Raw(text=SPEC, label="compat-spec", lemmas=True, props=["C05"]),
  Fn(HS, "validate_socket_compatibility",
     ensures=[
       # everything except the recorded gap is an obligation: any other deviation from the pairing table is a violation
       ("C05:inproc_verdict_matches_pairing_table_outside_known_gap", "!inproc_known_gap(connector, binder) ==> (r is Ok <==> rfc_compatible(connector, binder))"),
       # the recorded finding itself (expected to fail until the table is completed; then the KNOWN-FINDING line disappears)
       ("C05:KF_inproc_verdict_matches_pairing_table_on_all_pairs", "r is Ok <==> rfc_compatible(connector, binder)"),
     ]),
]

FNS = {p.name: p for p in parts if isinstance(p, Fn)}
unit = Unit("compat", ["C05"], parts, safety_props=["C05"], notes="inproc compatibility table")
