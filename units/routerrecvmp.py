"""U-routerrecvmp: RouterSocket::recv_multipart (socket/router_socket.rs): mixed receiving styles (the ROUTER twin of unit dealerrecv).

Contract from the property text (C02: "... whether it is read with recv_multipart() or frame by frame with recv()", quantifier: "all
receiving styles (recv only, recv_multipart only, mixed)"): recv() hands out the first frame of a multipart message and keeps the others
in `frame_recv_buffer`; a following recv_multipart() must return exactly those kept frames -- the REST of that message, whole and in
order -- and take nothing from the queue; only when nothing is kept does it return the next message from the queue.
"""
import re
from vlib.vx import Fn, Item, Raw, Region, Scan
from vlib.runner import Unit

DS = "core/src/socket/router_socket.rs"

GLUE = """
use std::collections::VecDeque;
pub assume_specification<T, A: core::alloc::Allocator>[ VecDeque::<T, A>::is_empty ](v: &VecDeque<T, A>) -> (r: bool)
  ensures r == (v@.len() == 0);
#[verifier::external_body]
pub struct CoreRef { x: u8 }
impl CoreRef {
  #[verifier::external_body] pub fn is_running(&self) -> bool { unimplemented!() }
  #[verifier::external_body] pub fn verif_rcvtimeo(&self) -> Option<Duration> { unimplemented!() }
}
// the messages the identity gate will release, in order (ghost; recv_logical_finalized is proved in unit routerrecv)
pub struct Ingress { pub q: Ghost<Seq<Seq<Msg>>> }
#[verifier::external_body]
pub struct Blob { x: u8 }
pub uninterp spec fn stripped(raw: Seq<Msg>) -> Seq<Msg>;     // identity frame ++ payload, as process_incoming_zmtp_message + transform_qitem_to_app_frames present a wire message (units framing / flags)
pub struct RouterSocket {
  pub core: CoreRef, pub ingress_engine: Ingress,
  pub frame_recv_buffer: Option<VecDeque<Msg>>,   // R6: parking_lot::Mutex<Option<VecDeque<Msg>>>, sequential (one task receives)
}
impl RouterSocket {
  #[verifier::external_body]
  pub async fn recv_logical_finalized(&mut self, t: Option<Duration>) -> (r: Result<(usize, FrameBatch), ZmqError>)
    ensures r is Err ==> final(self).ingress_engine.q@ == old(self).ingress_engine.q@, final(self).frame_recv_buffer == old(self).frame_recv_buffer,
      r matches Ok(p) ==> old(self).ingress_engine.q@.len() > 0 && p.1@ == old(self).ingress_engine.q@[0] && final(self).ingress_engine.q@ == old(self).ingress_engine.q@.skip(1)
  { unimplemented!() }
  pub uninterp spec fn presented(id: Blob, payload: Seq<Msg>) -> Seq<Msg>;
  #[verifier::external_body]
  pub fn process_incoming_zmtp_message(&self, pipe_read_id: usize, frames: FrameBatch) -> (r: Result<(Blob, FrameBatch), ZmqError>)
    ensures r matches Ok(p) ==> RouterSocket::presented(p.0, p.1@) == stripped(frames@)
  { unimplemented!() }
  #[verifier::external_body]
  pub fn transform_qitem_to_app_frames(identity: Blob, payload: FrameBatch) -> (r: FrameBatch)
    ensures r@ == RouterSocket::presented(identity, payload@)
  { unimplemented!() }
}
// R8: Vec::from(rest) on a VecDeque
#[verifier::external_body]
pub fn verif_deque_to_vec(d: VecDeque<Msg>) -> (r: Vec<Msg>) ensures r@ == d@ { unimplemented!() }
"""

parts = [
  Raw("prelude/core.rs"),
  Raw("prelude/std.rs"),
  Raw("prelude/bytes.rs"),
  Raw("prelude/msg.rs"),
  Raw("prelude/framebatch.rs"),
  Raw("prelude/time.rs"),
  Raw(text=GLUE, label="dealerrecv-glue"),
  Fn(DS, "recv_multipart", impl=r"impl\s+ISocket\s+for\s+RouterSocket\b", emit_impl="impl RouterSocket", sig_sub=[("&self", "&mut self")],
     # what recv() leaves behind: the rest of ONE message, at most 254 frames (a message has at most 255)
     requires=["old(self).frame_recv_buffer matches Some(b) ==> b@.len() <= 254"],
     ensures=[
       ("C02:the_rest_of_a_message_begun_with_recv_comes_first_whole_and_in_order_and_the_queue_is_not_touched",
        "old(self).frame_recv_buffer matches Some(b) ==> (b@.len() > 0 ==> (r matches Ok(fb) && fb@ == b@ && final(self).frame_recv_buffer is None && final(self).ingress_engine.q@ == old(self).ingress_engine.q@) || (r is Err && final(self).ingress_engine.q@ == old(self).ingress_engine.q@ && final(self).frame_recv_buffer == old(self).frame_recv_buffer))"),
       ("C02:with_nothing_kept_it_returns_the_next_message_of_the_queue",
        "!(old(self).frame_recv_buffer matches Some(b) && b@.len() > 0) ==> (r matches Ok(fb) ==> old(self).ingress_engine.q@.len() > 0 && fb@ == stripped(old(self).ingress_engine.q@[0]) && final(self).ingress_engine.q@ == old(self).ingress_engine.q@.skip(1))"),
       ("C02:a_failed_call_takes_nothing_from_the_queue_unless_the_message_itself_is_malformed",
        "r is Err ==> final(self).ingress_engine.q@ == old(self).ingress_engine.q@ || final(self).ingress_engine.q@ == old(self).ingress_engine.q@.skip(1)"),
     ],
     extra=[("R2", re.compile(r'ZmqError::InvalidState\(\s*"([^"]*)"\.into\(\)\s*,?\s*\)', re.S), r'ZmqError::InvalidState("\1")', "*", "pre"),
            ("R6", "self.frame_recv_buffer.lock().take()", "self.frame_recv_buffer.take()", "*"),
            ("R8", "Vec::from(rest)", "verif_deque_to_vec(rest)", "*"),
            ("R8", "self.core.core_state.read().options.rcvtimeo", "self.core.verif_rcvtimeo()", 1),
            ("R5", "Self::transform_qitem_to_app_frames(", "RouterSocket::transform_qitem_to_app_frames(", "*")]),
]

FNS = {p.name: p for p in parts if isinstance(p, Fn)}
unit = Unit("routerrecvmp", ["C02"], parts, safety_props=["C02"], notes="ROUTER recv_multipart after recv(): the rest of the message first")
