"""U-anon: AnonymousIngressEngine (socket/patterns/anonymous_ingress.rs), the receive side of PULL and SUB: recv() hands a
multipart message out frame by frame through `local_cache`, recv_multipart() whole; plus AddressedIngressEngine::recv_logical_message
(DEALER/ROUTER/REQ/REP) for the RCVTIMEO mapping.

View: stream(self) = unread frames in the cache ++ the frames of the batches the queue will hand out, in pop order.  The queue
(ReadyPipeQueue, lock-free, out of reach: C08) is an abstract stand-in whose `pending()` is the sequence of batches it hands out
from now on (a prophecy of its pop history: producers appending concurrently do not change it).  `local_cache` is a parking_lot
mutex taken in short critical sections by the one task that is receiving: sequential lock model (R6) -- the single-consumer
assumption is stated in the evidence; what OTHER tasks do to the engine meanwhile (a peer detaching: deregister_pipe, run by the
socket core) is verified separately with a frame condition on the cache.
"""
import re
from vlib.vx import Fn, Item, Raw, Scan
from vlib.runner import Unit

AN = "core/src/socket/patterns/anonymous_ingress.rs"
AD = "core/src/socket/patterns/addressed_ingress.rs"
IMPL = r"impl\s+AnonymousIngressEngine\b"
AIMPL = r"impl\s+AddressedIngressEngine\b"

GLUE = """
use std::collections::VecDeque;
pub assume_specification<T, A: core::alloc::Allocator>[ VecDeque::<T, A>::is_empty ](v: &VecDeque<T, A>) -> (r: bool)
  ensures r == (v@.len() == 0);
pub struct Elapsed { pub x: u8 }
// ReadyPipeQueue<FrameBatch>: abstract.  pending() = the batches it will hand out from now on, in order; waits() = ghost log of
// the waits performed on it (None = untimed pop().await, Some(d) = pop() raced against a timer of d that may have elapsed).
// ASSUMED: pop() is cancel safe (a pop() dropped by tokio::time::timeout consumes nothing) -- ReadyPipeQueue's own claim (C08/C09).
#[verifier::external_body]
pub struct ReadyPipeQueue { x: u8 }
impl ReadyPipeQueue {
  pub uninterp spec fn pending(&self) -> Seq<Seq<Msg>>;
  pub uninterp spec fn waits(&self) -> Seq<Option<nat>>;
  pub uninterp spec fn closed(&self) -> bool;
  #[verifier::external_body]
  pub fn try_pop(&mut self) -> (r: Option<(usize, FrameBatch)>)
    ensures final(self).waits() == old(self).waits(), final(self).closed() == old(self).closed(),
      r is None ==> final(self).pending() == old(self).pending(),
      r matches Some(p) ==> old(self).pending().len() > 0 && p.1@ == old(self).pending()[0] && final(self).pending() == old(self).pending().skip(1),
  { unimplemented!() }
  #[verifier::external_body]
  pub async fn pop(&mut self) -> (r: Result<(usize, FrameBatch), ZmqError>)
    ensures final(self).waits() == old(self).waits().push(None), final(self).closed() == old(self).closed(),
      r is Err ==> final(self).pending() == old(self).pending(),
      r matches Err(e) ==> !(e is Timeout) && !(e is ResourceLimitReached),
      r matches Ok(p) ==> old(self).pending().len() > 0 && p.1@ == old(self).pending()[0] && final(self).pending() == old(self).pending().skip(1),
  { unimplemented!() }
  // R8: `tokio::time::timeout(d, self.queue.pop()).await`
  #[verifier::external_body]
  pub async fn verif_timed_pop(&mut self, d: Duration) -> (r: Result<Result<(usize, FrameBatch), ZmqError>, Elapsed>)
    ensures final(self).waits() == old(self).waits().push(Some(d.ns())), final(self).closed() == old(self).closed(),
      !(r matches Ok(Ok(_))) ==> final(self).pending() == old(self).pending(),
      r matches Ok(Err(e)) ==> !(e is Timeout) && !(e is ResourceLimitReached),
      r matches Ok(Ok(p)) ==> old(self).pending().len() > 0 && p.1@ == old(self).pending()[0] && final(self).pending() == old(self).pending().skip(1),
  { unimplemented!() }
  #[verifier::external_body]
  pub fn deregister_pipe(&mut self, pipe_id: usize)
    ensures final(self).waits() == old(self).waits()
  { unimplemented!() }
  #[verifier::external_body]
  pub fn close(&mut self) ensures final(self).closed() { unimplemented!() }
}
// R8: `.map_err(|_| ZmqError::Timeout)` on the result of tokio::time::timeout (std semantics of Result::map_err with a constant closure)
pub fn verif_elapsed_to_timeout<T>(r: Result<T, Elapsed>) -> (o: Result<T, ZmqError>)
  ensures r matches Ok(v) ==> o == Ok::<T, ZmqError>(v), r is Err ==> o matches Err(ZmqError::Timeout)
{ match r { Ok(v) => Ok(v), Err(_) => Err(ZmqError::Timeout) } }
// R8: `batch.into_iter().collect()` into a VecDeque: the frames in index order
#[verifier::external_body]
pub fn verif_collect_deque(batch: FrameBatch) -> (r: VecDeque<Msg>) ensures r@ == batch@ { unimplemented!() }

pub struct AnonymousIngressEngine {
  pub queue: ReadyPipeQueue,
  pub local_cache: Option<VecDeque<Msg>>,   // R6: parking_lot::Mutex<Option<VecDeque<Msg>>>, sequential (single receiving task)
}
pub struct AddressedIngressEngine { pub queue: ReadyPipeQueue }

pub open spec fn cache_view(c: Option<VecDeque<Msg>>) -> Seq<Msg> { match c { Some(d) => d@, None => Seq::<Msg>::empty() } }
pub open spec fn flat(s: Seq<Seq<Msg>>) -> Seq<Msg> decreases s.len() { if s.len() == 0 { Seq::<Msg>::empty() } else { s[0] + flat(s.skip(1)) } }
// a whole message (or the unread rest of one): MORE on every frame but the last
pub open spec fn whole(s: Seq<Msg>) -> bool { s.len() > 0 ==> (!s.last().flags.more && forall|i: int| 0 <= i < s.len() - 1 ==> (#[trigger] s[i]).flags.more) }
impl AnonymousIngressEngine {
  pub open spec fn unread(&self) -> Seq<Msg> { cache_view(self.local_cache) }
  pub open spec fn stream(&self) -> Seq<Msg> { self.unread() + flat(self.queue.pending()) }
  // representation invariant: the cache is the unread rest of ONE message that was dequeued whole
  pub open spec fn inv(&self) -> bool { self.unread().len() <= 255 && whole(self.unread()) }
  // what the connections deliver (proved for tcp/ipc in unit engine: process_data emits only complete messages; assumed for inproc)
  pub open spec fn queue_ok(&self) -> bool { forall|i: int| 0 <= i < self.queue.pending().len() ==> whole(#[trigger] self.queue.pending()[i]) && self.queue.pending()[i].len() <= 255 }
}
"""

SELF_MUT = [("&self", "&mut self")]
SELF_MUT_D = SELF_MUT + [("std::time::Duration", "Duration")]
LOCK_RULES = [
  ("R6", re.compile(r"let mut cache = self\.local_cache\.lock\(\);\s*\n"), "", "*"),
  ("R6", re.compile(r"\*self\.local_cache\.lock\(\)\s*=\s*([^;]*);"), r"self.local_cache = \1;", "*"),
  ("R6", re.compile(r"\*cache\b"), "self.local_cache", "*"),
]
TIMED = ("R8", re.compile(r"tokio::time::timeout\(d, self\.queue\.pop\(\)\)\s*\.await\s*\.map_err\(\|_\| ZmqError::Timeout\)"),
         "verif_elapsed_to_timeout(self.queue.verif_timed_pop(d).await)", "+")
COLLECT = ("R8", "batch.into_iter().collect()", "verif_collect_deque(batch)", 1)
ATTRS = ["#[verifier::loop_isolation(false)]", "#[verifier::allow_complex_invariants]"]

# RCVTIMEO semantics, from the property text (C14), as statements about the result and the ghost wait log of the queue
def timeo(prefix=""):
  return [
    ("C14:zero_rcvtimeo_never_waits", "rcvtimeo_opt matches Some(d) && d.ns() == 0 ==> final(self).queue.waits() == old(self).queue.waits() && !(r matches Err(ZmqError::Timeout))"),
    ("C14:would_block_only_for_zero_rcvtimeo", "r matches Err(ZmqError::ResourceLimitReached) ==> (rcvtimeo_opt matches Some(d) && d.ns() == 0)"),
    ("C14:timeout_only_after_a_timed_wait_of_rcvtimeo",
     "r matches Err(ZmqError::Timeout) ==> (rcvtimeo_opt matches Some(d) && d.ns() > 0 && final(self).queue.waits() == old(self).queue.waits().push(Some(d.ns())))"),
    ("C14:infinite_rcvtimeo_never_times_out", "rcvtimeo_opt is None ==> !(r matches Err(ZmqError::Timeout)) && !(r matches Err(ZmqError::ResourceLimitReached))"),
  ]

parts = [
  Raw("prelude/core.rs"),
  Raw("prelude/std.rs"),
  Raw("prelude/bytes.rs"),
  Raw("prelude/msg.rs"),
  Raw("prelude/framebatch.rs"),
  Raw("prelude/time.rs"),
  Raw(text=GLUE, label="anon-glue"),
  Fn(AN, "deregister_pipe", impl=IMPL, emit_impl="impl AnonymousIngressEngine", sig_sub=SELF_MUT, ret=None,
     ensures=[("C02:peer_detach_keeps_the_unread_frames_of_the_current_message", "final(self).unread() == old(self).unread()")],
     extra=LOCK_RULES),
  Fn(AN, "recv", impl=IMPL, emit_impl="impl AnonymousIngressEngine", sig_sub=SELF_MUT_D, attrs=ATTRS,
     requires=["old(self).inv()", "old(self).queue_ok()"],
     ensures=[
       ("C02:inv_preserved", "final(self).inv()"),
       ("C02:frame_by_frame_returns_the_next_frame_of_the_stream",
        "r matches Ok(m) ==> ((old(self).unread().len() > 0 || (old(self).queue.pending().len() > 0 && old(self).queue.pending()[0].len() > 0)) "
        "==> old(self).stream().len() > 0 && m == old(self).stream()[0] && final(self).stream() =~= old(self).stream().skip(1))"),
       ("C02:unread_frames_served_before_the_queue", "old(self).unread().len() > 0 ==> r is Ok && final(self).queue.pending() == old(self).queue.pending() && final(self).queue.waits() == old(self).queue.waits()"),
       ("C02+C14:failed_recv_loses_nothing", "r is Err ==> final(self).stream() =~= old(self).stream()"),
     ] + timeo(),
     extra=LOCK_RULES + [TIMED, COLLECT]),
  Fn(AN, "recv_multipart", impl=IMPL, emit_impl="impl AnonymousIngressEngine", sig_sub=SELF_MUT_D, attrs=ATTRS,
     requires=["old(self).inv()", "old(self).queue_ok()"],
     ensures=[
       ("C02:inv_preserved", "final(self).inv()"),
       ("C02:rest_of_a_message_begun_frame_by_frame_is_returned_whole",
        "old(self).unread().len() > 0 ==> (r matches Ok(b) && b@ =~= old(self).unread()) && final(self).unread().len() == 0 && final(self).queue.pending() == old(self).queue.pending()"),
       ("C02:recv_multipart_returns_the_next_message_whole", "r matches Ok(b) ==> b@ + final(self).stream() =~= old(self).stream() && (old(self).unread().len() == 0 ==> b@ == old(self).queue.pending()[0])"),
       ("C02+C14:failed_recv_multipart_loses_nothing", "r is Err ==> final(self).stream() =~= old(self).stream()"),
     ] + timeo(),
     loops={0: {"invariant": [
       ("C02:cache_loop", "batch@ + deque@ =~= old(self).unread()"),
     ], "invariant_except_break": [
       ("C02:cache_loop_more", "forall|i: int| 0 <= i < batch@.len() ==> (#[trigger] batch@[i]).flags.more"),
       ("C02:cache_loop_flag", "!completed"),
     ], "ensures": [
       ("C02:cache_loop_done", "completed ==> batch@.len() > 0 && !batch@.last().flags.more"),
       ("C02:cache_loop_exhausted", "!completed ==> deque@.len() == 0 && forall|i: int| 0 <= i < batch@.len() ==> (#[trigger] batch@[i]).flags.more"),
     ], "decreases": "deque@.len()"}},
     hints=[("last", "re:if deque\\.is_empty\\(\\)", 0, "before",
             "proof { if completed { let k = batch@.len() - 1; assert(old(self).unread()[k] == batch@[k]); assert(deque@.len() == 0); } "
             "else { assert(batch@ + deque@ =~= batch@); } }")],
     extra=LOCK_RULES + [TIMED]),
  Fn(AN, "close", impl=IMPL, emit_impl="impl AnonymousIngressEngine", sig_sub=SELF_MUT, ret=None,
     ensures=[("C02:close_closes_the_queue", "final(self).queue.closed()")],
     extra=LOCK_RULES),
  Scan(AN, "recv", r"local_cache", 2, impl=IMPL, why="both critical sections on the cache are inside the extracted function"),
  Fn(AD, "recv_logical_message", impl=AIMPL, emit_impl="impl AddressedIngressEngine", sig_sub=SELF_MUT_D,
     ensures=[
       ("C14:failed_recv_consumes_nothing", "r is Err ==> final(self).queue.pending() == old(self).queue.pending()"),
       ("C02:next_message_whole", "r matches Ok(p) ==> old(self).queue.pending().len() > 0 && p.1@ == old(self).queue.pending()[0] && final(self).queue.pending() == old(self).queue.pending().skip(1)"),
     ] + timeo(),
     extra=[("R8", re.compile(r"tokio::time::timeout\(d, self\.queue\.pop\(\)\)\s*\.await\s*\.map_err\(\|_\| ZmqError::Timeout\)\?"),
             "verif_elapsed_to_timeout(self.queue.verif_timed_pop(d).await)?", 1)]),
]

FNS = {p.name: p for p in parts if isinstance(p, Fn)}
unit = Unit("anon", ["C02", "C14"], parts, safety_props=["C02"], notes="anonymous / addressed ingress engines: frame cache and RCVTIMEO")
