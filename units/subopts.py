"""U-subopts: SubSocket::set_pattern_option (socket/sub_socket.rs): how the SUBSCRIBE / UNSUBSCRIBE options reach the subscription
trie (whose own semantics are proved in unit trie) and the publishers.

Contract from the property text (C12: a topic subscribed N times stays active until unsubscribed N times; unsubscribing something
never subscribed changes nothing): SUBSCRIBE(t) performs exactly one trie.subscribe(t) and announces the subscription to the peers;
UNSUBSCRIBE(t) performs exactly one trie.unsubscribe(t) and announces the cancellation to the peers ONLY when that call reports
that the last subscription to t is gone (so a publisher that filters upstream keeps sending while any subscription to t is left);
any other option is refused and touches neither the trie nor the peers.
"""
import re
from vlib.vx import Fn, Item, Raw
from vlib.runner import Unit

SS = "core/src/socket/sub_socket.rs"
OPT = "core/src/socket/options.rs"

GLUE = """
pub enum TrieOp { Sub { topic: Seq<u8> }, Unsub { topic: Seq<u8>, last: bool } }
pub enum WireOp { Subscribe { topic: Seq<u8> }, Cancel { topic: Seq<u8> } }
// SubscriptionTrie (proved in unit trie): ghost log of the calls made on it
pub struct SubscriptionTrie { pub ops: Ghost<Seq<TrieOp>> }
impl SubscriptionTrie {
  #[verifier::external_body]
  pub fn subscribe(&mut self, topic: &[u8]) ensures final(self).ops@ == old(self).ops@.push(TrieOp::Sub { topic: topic@ }) { unimplemented!() }
  #[verifier::external_body]
  pub fn unsubscribe(&mut self, topic: &[u8]) -> (r: bool) ensures final(self).ops@ == old(self).ops@.push(TrieOp::Unsub { topic: topic@, last: r }) { unimplemented!() }
}
pub struct SubSocket { pub subscriptions: SubscriptionTrie, pub wire: Ghost<Seq<WireOp>> }
impl SubSocket {
  // send_subscription_command_to_all(subscribe, topic): the SUBSCRIBE / CANCEL command to every connected publisher
  #[verifier::external_body]
  pub async fn send_subscription_command_to_all(&mut self, subscribe: bool, topic: &[u8]) -> (r: ())
    ensures final(self).subscriptions == old(self).subscriptions,
      final(self).wire@ == old(self).wire@.push(if subscribe { WireOp::Subscribe { topic: topic@ } } else { WireOp::Cancel { topic: topic@ } })
  { unimplemented!() }
}
"""

parts = [
  Raw("prelude/core.rs"),
  Raw("prelude/std.rs"),
  Item(OPT, "const", "SUBSCRIBE"),
  Item(OPT, "const", "UNSUBSCRIBE"),
  Raw(text=GLUE, label="subopts-glue"),
  Fn(SS, "set_pattern_option", impl=r"impl\s+ISocket\s+for\s+SubSocket\b", emit_impl="impl SubSocket", sig_sub=[("&self", "&mut self")],
     # R5: the common prelude's ZmqError has no UnsupportedOption variant; InvalidOption(i32) has the same shape
     extra=[("R5", "ZmqError::UnsupportedOption(option)", "ZmqError::InvalidOption(option)", 1)],
     ensures=[
       ("C12:subscribe_is_exactly_one_trie_subscribe_and_is_announced_to_the_publishers",
        "option == SUBSCRIBE ==> r is Ok && final(self).subscriptions.ops@ == old(self).subscriptions.ops@.push(TrieOp::Sub { topic: value@ }) && final(self).wire@ == old(self).wire@.push(WireOp::Subscribe { topic: value@ })"),
       ("C12:unsubscribe_is_exactly_one_trie_unsubscribe_and_is_announced_upstream_only_when_the_last_subscription_is_gone",
        "option == UNSUBSCRIBE ==> r is Ok && final(self).subscriptions.ops@.len() == old(self).subscriptions.ops@.len() + 1 && final(self).subscriptions.ops@.drop_last() =~= old(self).subscriptions.ops@ "
        "&& (final(self).subscriptions.ops@.last() matches TrieOp::Unsub { topic, last } && topic == value@ && (final(self).wire@ == (if last { old(self).wire@.push(WireOp::Cancel { topic: value@ }) } else { old(self).wire@ })))"),
       ("C12:any_other_option_is_refused_and_touches_nothing",
        "option != SUBSCRIBE && option != UNSUBSCRIBE ==> r is Err && final(self).subscriptions.ops@ == old(self).subscriptions.ops@ && final(self).wire@ == old(self).wire@"),
     ]),
]

FNS = {p.name: p for p in parts if isinstance(p, Fn)}
unit = Unit("subopts", ["C12"], parts, safety_props=["C12"], notes="SUB: SUBSCRIBE/UNSUBSCRIBE options -> trie calls and upstream announcements")
