"""U-enc: every encoder entry point against the C03 wire-format spec functions.
codec Encoder::encode / encode_header_only, ZmtpFrameEncoder::frame_contiguous / frame_vectored,
NullFramer::write_msg_split."""
from vlib.vx import Fn, Item, Raw
from vlib.runner import Unit

CODEC = "core/src/protocol/zmtp/codec.rs"
CMD = "core/src/protocol/zmtp/command.rs"
ENC = "core/src/security/framer/encoder.rs"
FR = "core/src/security/framer/mod.rs"

FLAGS_HINT = "proof { lemma_bits_or(); }"

# Nested `for group in batch { for msg in group { .. } }` loops are desugared (R9) into indexed while loops
# vx_sK / vx_iK (K = loop ordinal).  At an outer loop head vx_iK groups are done; inside the outer body (and thus in the
# inner loop's invariants and in body hints) the current group is number vx_iK - 1, the current frame vx_i(K+1) - 1.
def outer_inv(K, clauses):
  o = "vx_i%d" % K
  return [c if isinstance(c, str) else (c[0], c[1].replace("IT1", o)) for c in
          [(n, t) if n else t for (n, t) in [((c[0], c[1]) if not isinstance(c, str) else (None, c)) for c in clauses]]] and \
         [((c[0], c[1].replace("IT1", o)) if not isinstance(c, str) else c.replace("IT1", o)) for c in clauses] + \
         ["vx_s%d@ == batch@" % K, "%s <= batch@.len()" % o]

def inner_inv(K, clauses):
  o, i = "(vx_i%d - 1)" % K, "vx_i%d" % (K + 1)
  def sub(t):
    return t.replace("IT1", o).replace("IT2", i)
  return [((c[0], sub(c[1])) if not isinstance(c, str) else sub(c)) for c in clauses] + \
         ["vx_s%d@ == batch@" % K, "vx_s%d@ == group@" % (K + 1), "1 <= vx_i%d <= batch@.len()" % K, "%s <= group@.len()" % i, "*group == batch@[%s]" % o]

def body_hint(K, t):
  return t.replace("IT1", "(vx_i%d - 1)" % K).replace("IT2", "(vx_i%d - 1)" % (K + 1))

fc_loops = {
  # sizing pass
  0: {"desugar": True,
      "invariant": outer_inv(0, [
        ("C03:size_outer", "required_size == wire_batches(batch@.take(IT1 as int))"),
        "wire_batches(batch@) <= usize::MAX", "self.coalesce_buffer@ =~= Seq::<u8>::empty()",
      ])},
  1: {"desugar": True, "iter_sub": ("group", "group.verif_frames()"),
      "invariant": inner_inv(0, [
        ("C03:size_inner", "required_size == wire_batches(batch@.take(IT1 as int)) + wire_all(group@.take(IT2 as int))"),
        "wire_batches(batch@) <= usize::MAX", "self.coalesce_buffer@ =~= Seq::<u8>::empty()",
      ])},
  # encoding pass
  2: {"desugar": True,
      "invariant": outer_inv(2, [
        ("C03:enc_outer", "self.coalesce_buffer@ == enc_batches(batch@.take(IT1 as int))"),
      ])},
  3: {"desugar": True, "iter_sub": ("group", "group.verif_frames()"),
      "invariant": inner_inv(2, [
        ("C03:enc_inner", "self.coalesce_buffer@ == enc_batches(batch@.take(IT1 as int)) + enc_all(group@.take(IT2 as int))"),
      ])},
}

parts = [
  Raw("prelude/core.rs"),
  Raw("prelude/std.rs"),
  Raw("prelude/bytes.rs"),
  Raw("prelude/msg.rs"),
  Raw("prelude/framebatch.rs"),
  Raw("prelude/zmtp_spec.rs"),
  Raw("prelude/enc_glue.rs"),
  Item(CMD, "const", "ZMTP_FLAG_LONG"),
  Item(CMD, "const", "ZMTP_FLAG_MORE"),
  Item(CMD, "const", "ZMTP_FLAG_COMMAND"),
  Item(ENC, "struct", "ZmtpFrameEncoder"),
  Item(CODEC, "struct", "FrameHeader"),
  Item(CODEC, "enum", "DecodingState"),
  Item(CODEC, "struct", "ZmtpCodec"),
  # ---- codec.rs
  Fn(CODEC, "encode_header_only", impl=r"impl\s+ZmtpCodec\b", emit_impl="impl ZmtpCodec",
     ensures=[
       ("C03:ok", "r is Ok"),
       ("C03:header_bytes", "final(dst)@ == old(dst)@ + enc_hdr(item.flags.more, item.flags.command, payload(*item).len())"),
     ],
     hints=[("bits", "@fn_start", 0, "", FLAGS_HINT)]),
  Fn(CODEC, "encode", impl=r"impl\s+Encoder<Msg>\s+for\s+ZmtpCodec\b", emit_impl="impl ZmtpCodec",
     sig_sub=[("Result<(), Self::Error>", "Result<(), ZmqError>")],
     ensures=[
       ("C03:ok", "r is Ok"),
       ("C03:frame_bytes", "final(dst)@ == old(dst)@ + enc_msg(item)"),
     ],
     hints=[("bits", "@fn_start", 0, "", FLAGS_HINT),
            ("ext", "Ok(())", 0, "before", "proof { assert(dst@ =~= old(dst)@ + enc_msg(item)); }")]),
  # ---- encoder.rs
  Fn(ENC, "frame_contiguous", impl=r"impl\s+ZmtpFrameEncoder\b", emit_impl="impl ZmtpFrameEncoder",
     requires=["wire_batches(batch@) <= usize::MAX"],
     ensures=[
       ("C03:ok", "r is Ok"),
       ("C01+C03:bytes_are_enc_of_frames_in_order", "r matches Ok(b) ==> b@ == enc_batches(batch@)"),
     ],
     loops=fc_loops,
     hints=[
       ("size_in_end", "@loop_end:0", 0, "",
        body_hint(0, "      proof { assert(group@.take(group@.len() as int) =~= group@); lemma_wire_batches_snoc(batch@, IT1 as int); }")),
       ("enc_in_end", "@loop_end:2", 0, "",
        body_hint(2, "      proof { assert(group@.take(group@.len() as int) =~= group@); lemma_enc_batches_snoc(batch@, IT1 as int); }")),
       ("size_in", "@loop_start:1", 0, "",
        body_hint(0, "proof { lemma_wire_all_snoc(group@, IT2 as int); lemma_wire_all_prefix(group@, IT2 + 1); lemma_wire_batches_prefix(batch@, IT1 + 1); lemma_wire_batches_snoc(batch@, IT1 as int); }")),
       ("size_out", "self.coalesce_buffer.reserve(required_size);", 0, "before",
        "proof { assert(batch@.take(batch@.len() as int) =~= batch@); }"),
       ("snap", "@loop_start:3", 0, "", body_hint(2, "let ghost b0 = self.coalesce_buffer@; proof { assert(*msg == group@[IT2 as int]); assert(group@.take(IT2 + 1).drop_last() =~= group@.take(IT2 as int)); }")),
       ("bits", "@loop_start:3", 0, "", FLAGS_HINT),
       ("hdr", "re:self\\.coalesce_buffer\\.put_slice\\(", 0, "before",
        "proof { assert(zmtp_flags == flags_byte(flags.more, flags.command, len > 255)); assert(self.coalesce_buffer@ =~= b0 + enc_hdr(flags.more, flags.command, len as nat)); }"),
       ("enc_in", "re:self\\.coalesce_buffer\\.put_slice\\(", 0, "after",
        body_hint(2, "proof { assert(self.coalesce_buffer@ =~= b0 + enc_msg(*msg)); lemma_enc_all_snoc(group@, IT2 as int); "
        "assert(self.coalesce_buffer@ =~= enc_batches(batch@.take(IT1 as int)) + enc_all(group@.take(IT2 + 1))); }")),
       ("done", "Ok(self.coalesce_buffer.split().freeze())", 0, "before",
        "proof { assert(batch@.take(batch@.len() as int) =~= batch@); }"),
     ],
  ),
  Fn(ENC, "new", impl=r"impl\s+ZmtpFrameEncoder\b", emit_impl="impl ZmtpFrameEncoder",
     ensures=[("C03:slabs_empty", "r.header_slab@.len() == 0 && r.coalesce_buffer@.len() == 0")]),
  Fn(ENC, "frame_vectored", impl=r"impl\s+ZmtpFrameEncoder\b", emit_impl="impl ZmtpFrameEncoder",
     requires=["old(self).header_slab@.len() == 0", "total_frames(batch@) * 9 <= usize::MAX",
               # frame_vectored never writes the COMMAND bit: only data frames may be passed (checked at verified callers)
               "no_commands_b(batch@)"],
     ensures=[
       ("C03:ok", "r is Ok"),
       ("C01+C03:chunks_concat_is_enc_of_frames_in_order", "r matches Ok(v) ==> concat_bytes(v@) == enc_batches(batch@)"),
       ("C03:slab_left_empty", "final(self).header_slab@.len() == 0"),
     ],
     extra=[("R8", "batch.iter().map(|g| g.len()).sum()", "verif_sum_lens(batch)", 1),
            ("R8", "msg.data_bytes().unwrap_or_default()", "verif_unwrap_or_default(msg.data_bytes())", 1)],
     loops={
       0: {"desugar": True,
           "invariant": outer_inv(0, [("C03:vec_outer", "concat_bytes(out@) == enc_batches(batch@.take(IT1 as int))"),
                                      "self.header_slab@.len() == 0", "no_commands_b(batch@)"])},
       1: {"desugar": True, "iter_sub": ("group", "group.verif_frames()"),
           "invariant": inner_inv(0, [("C03:vec_inner", "concat_bytes(out@) == enc_batches(batch@.take(IT1 as int)) + enc_all(group@.take(IT2 as int))"),
                                      "self.header_slab@.len() == 0", "no_commands_b(batch@)"])},
     },
     hints=[
       ("in_end", "@loop_end:0", 0, "",
        body_hint(0, "      proof { assert(group@.take(group@.len() as int) =~= group@); lemma_enc_batches_snoc(batch@, IT1 as int); }")),
       ("snap", "@loop_start:1", 0, "", "let ghost o0 = out@;"),
       ("bits", "@loop_start:1", 0, "", "proof { lemma_bits_or(); assert(no_commands(group@)); assert(!msg.flags.command); }"),
       ("hdr", "out.push(self.header_slab.split().freeze());", 0, "before",
        "proof { assert(self.header_slab@ =~= enc_hdr(is_more, false, len as nat)); }"),
       ("hdr2", "out.push(self.header_slab.split().freeze());", 0, "after",
        "proof { lemma_concat_push(o0, out@.last()); assert(out@ =~= o0.push(out@.last())); assert(concat_bytes(out@) == concat_bytes(o0) + enc_hdr(is_more, false, len as nat)); }\nlet ghost o1 = out@;"),
       ("pay", "@loop_end:1", 0, "",
        body_hint(0, "        proof { if len > 0 { lemma_concat_push(o1, payload); assert(out@ =~= o1.push(payload)); } "
        "assert(concat_bytes(out@) =~= concat_bytes(o0) + enc_msg(*msg)); lemma_enc_all_snoc(group@, IT2 as int); "
        "assert(concat_bytes(out@) =~= enc_batches(batch@.take(IT1 as int)) + enc_all(group@.take(IT2 + 1))); }")),
       ("done", "    Ok(out)", 0, "before", "proof { assert(batch@.take(batch@.len() as int) =~= batch@); }"),
     ]),
]

FNS = {p.name: p for p in parts if isinstance(p, Fn)}

unit = Unit("enc", ["C01", "C03"], parts, safety_props=["C03"],
            notes="encoders against enc_frame/enc_all/enc_batches")
