"""C03 lemmas: round trip and cut independence, derived from the contract spec functions only."""
from vlib.vx import Raw
from vlib.runner import Unit

parts = [
  Raw("prelude/core.rs"),
  Raw("prelude/be_lemmas.rs"),
  Raw("prelude/std.rs"),
  Raw("prelude/bytes.rs"),
  Raw("prelude/msg.rs"),
  Raw("prelude/framebatch.rs"),
  Raw("prelude/zmtp_spec.rs"),
  Raw("prelude/c03_lemmas.rs", lemmas=True, props=["C03", "C04"]),
]
unit = Unit("c03lem", ["C03", "C04"], parts, notes="pure lemmas over enc_frame / dec_step")
