"""U-egress: EgressBuffer (sessionx/egress_buffer.rs) against the view `pending(): Seq<u8>`:
push appends, advance(n) drops exactly n bytes, push_priority inserts only at a chunk boundary
(after the partially written head chunk), counters follow the view."""
from vlib.vx import Fn, Item, Raw
from vlib.runner import Unit

EB = "core/src/sessionx/egress_buffer.rs"
IMPL = r"impl\s+EgressBuffer\b"

SPEC = """
impl EgressBuffer {
  // bytes still to be written, in wire order
  spec fn pending(&self) -> Seq<u8> { flat(self.chunks@).skip(self.write_offset as int) }
  spec fn wf(&self) -> bool {
    &&& no_empty_chunk(self.chunks@)
    &&& (self.chunks@.len() == 0 ==> self.write_offset == 0)
    &&& (self.chunks@.len() > 0 ==> self.write_offset < self.chunks@[0].0@.len())
    &&& self.total_bytes == flat(self.chunks@).len() - self.write_offset
    &&& self.message_count == count_sum(self.chunks@)
  }
}
"""

parts = [
  Raw("prelude/core.rs"),
  Raw("prelude/std.rs"),
  Raw("prelude/bytes.rs"),
  Raw("prelude/egress_spec.rs"),
  Item(EB, "struct", "EgressBuffer"),
  Raw(text=SPEC, label="egress-view"),
  Fn(EB, "new", impl=IMPL, emit_impl="impl EgressBuffer",
     ensures=[("C01:empty", "r.wf() && r.pending() =~= Seq::<u8>::empty() && r.message_count == 0")]),
  Fn(EB, "push", impl=IMPL, emit_impl="impl EgressBuffer",
     requires=["old(self).wf()", "old(self).total_bytes + data@.len() <= usize::MAX", "old(self).message_count + msg_count <= usize::MAX"],
     ensures=[
       ("C01:wf", "final(self).wf()"),
       ("C01:appends_at_tail", "final(self).pending() == old(self).pending() + data@"),
       ("C01+C14:count", "final(self).message_count == old(self).message_count + (if data@.len() == 0 { 0 } else { msg_count as int })"),
     ],
     extra=[("R8", "self.peak_messages.max(self.message_count)", "verif_max(self.peak_messages, self.message_count)", 1),
            ("R8", "self.peak_bytes.max(self.total_bytes)", "verif_max(self.peak_bytes, self.total_bytes)", 1)],
     hints=[("flat", "re:self\\.chunks\\.push_back\\(", 0, "before",
             "proof { lemma_flat_push(self.chunks@, (data, msg_count)); lemma_flat_len(self.chunks@); }"),
            ("ext", "re:self\\.chunks\\.push_back\\(", 0, "after",
             "proof { assert(flat(self.chunks@).skip(self.write_offset as int) =~= flat(old(self).chunks@).skip(self.write_offset as int) + data@); }")]),
  Fn(EB, "push_priority", impl=IMPL, emit_impl="impl EgressBuffer",
     requires=["old(self).wf()", "old(self).total_bytes + data@.len() <= usize::MAX"],
     ensures=[
       ("C01:wf", "final(self).wf()"),
       # control frames go in front of queued data but only at a chunk boundary: after the partially written head chunk
       ("C01+C19:priority_lands_on_chunk_boundary",
        "data@.len() > 0 ==> final(self).pending() == (if old(self).write_offset > 0 { old(self).chunks@[0].0@.skip(old(self).write_offset as int) + data@ + flat(old(self).chunks@.skip(1)) } else { data@ + old(self).pending() })"),
       ("C01:empty_priority_is_noop", "data@.len() == 0 ==> final(self).pending() == old(self).pending()"),
       ("C14:control_frames_outside_hwm", "final(self).message_count == old(self).message_count"),
     ],
     hints=[("lem", "re:if\\s+self\\.write_offset\\s*>\\s*0", 0, "before",
             "proof { if self.chunks@.len() > 0 { lemma_flat_insert1(self.chunks@, (data, 0usize)); lemma_flat_cons(self.chunks@); } lemma_flat_front(self.chunks@, (data, 0usize)); lemma_flat_len(self.chunks@); }"),
            ]),
  Fn(EB, "advance", impl=IMPL, emit_impl="impl EgressBuffer",
     requires=["old(self).wf()", "n <= old(self).pending().len()"],
     ensures=[
       ("C01:wf", "final(self).wf()"),
       ("C01:drops_exactly_n_bytes_from_the_front", "final(self).pending() == old(self).pending().skip(n as int)"),
       ("C01+C14:popped_is_count_of_fully_written_chunks", "r == old(self).message_count - final(self).message_count"),
     ],
     loops={0: {
       "invariant": [
         "no_empty_chunk(self.chunks@)", "self.chunks@.len() == 0 ==> self.write_offset == 0",
         "self.chunks@.len() > 0 ==> self.write_offset < self.chunks@[0].0@.len()",
         "self.message_count == count_sum(self.chunks@)",
         "self.total_bytes == old(self).total_bytes - n0", "n0 <= old(self).pending().len()", "old(self).wf()",
         ("C01:loop_count", "popped_messages == old(self).message_count - self.message_count"),
       ],
       "invariant_except_break": [
         "n <= n0", "n <= self.pending().len()",
         ("C01:loop_view", "self.pending() =~= old(self).pending().skip(n0 - n)"),
       ],
       "ensures": [("C01:loop_exit_view", "self.pending() =~= old(self).pending().skip(n0 as int)")],
       "decreases": "n"}},
     hints=[("n0", "@fn_start", 0, "", "let ghost n0 = n;"),
            ("top", "@loop_start:0", 0, "", "proof { lemma_flat_len(self.chunks@); if self.chunks@.len() > 0 { lemma_flat_cons(self.chunks@); } }\nlet ghost p0 = self.pending(); let ghost c0 = self.chunks@; let ghost w0 = self.write_offset;"),
            ("pop", "re:self\\.write_offset\\s*=\\s*0;", 0, "after",
             "proof { assert(self.chunks@ =~= c0.skip(1)); assert(self.pending() =~= p0.skip(c0[0].0@.len() - w0)); assert(p0.skip(c0[0].0@.len() - w0) =~= old(self).pending().skip(n0 - n)); }"),
            ("part", "re:self\\.write_offset\\s*\\+=\\s*n;", 0, "after",
             "proof { assert(self.pending() =~= p0.skip(n as int)); assert(p0.skip(n as int) =~= old(self).pending().skip(n0 as int)); }"),
     ]),
  Fn(EB, "pending_messages", impl=IMPL, emit_impl="impl EgressBuffer", ensures=[("C14:value", "r == self.message_count")]),
  Fn(EB, "total_pending_bytes", impl=IMPL, emit_impl="impl EgressBuffer", ensures=[("C01:value", "r == self.total_bytes")]),
  Fn(EB, "is_empty", impl=IMPL, emit_impl="impl EgressBuffer",
     requires=["self.wf()"],
     ensures=[("C01:empty_iff_nothing_pending", "r == (self.pending().len() == 0)")],
     hints=[("len", "@fn_start", 0, "", "proof { lemma_flat_len(self.chunks@); }")]),
]

FNS = {p.name: p for p in parts if isinstance(p, Fn)}
unit = Unit("egress", ["C01", "C14", "C19"], parts, safety_props=["C01"], notes="EgressBuffer view/wf")
