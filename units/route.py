"""U-route: OutgoingMessageOrchestrator::try_route_sync (socket/patterns/outgoing_orchestrator.rs): one message goes to at
most one peer; a full peer is skipped, not waited on; a full sweep tries every peer of the rotation once; on failure
the caller gets the very batch back.  Same lock model as unit lb (each balancer call is one critical section)."""
import re
from vlib.vx import Fn, Item, Raw, as_contract
from vlib.runner import Unit
from units import lb

OO = "core/src/socket/patterns/outgoing_orchestrator.rs"
IMPL = r"impl\s+OutgoingMessageOrchestrator\b"

GLUE = lb.GLUE.replace("pub trait ISocketConnection {}", """
// connection_iface.rs: ownership of the batch moves into the connection on Ok and comes back on Err.
// ASSUMED for trait objects (proved for the session-backed implementation in unit iface when built):
// a refused batch is returned unchanged.
pub trait ISocketConnection {
  fn try_send_multipart_owned_sync(&self, msgs: FrameBatch) -> (r: Result<(), (FrameBatch, ZmqError)>)
    ensures r matches Err(p) ==> p.0@ == msgs@;
  // blocking variant (async in the real trait; awaited immediately at its only call site here -> R8 `.await` dropped)
  // (proved for ScaConnectionIface in unit iface: a would-block answer hands the batch back unchanged)
  fn send_multipart_owned(&self, msgs: FrameBatch) -> (r: Result<(), (FrameBatch, ZmqError)>)
    ensures r matches Err(p) ==> ((p.1 is ResourceLimitReached) ==> p.0@ == msgs@);
}
// LoadBalancer::wait_for_connection: returns when some peer is registered; while waiting other tasks add/remove peers,
// so the protected state is arbitrary (but well-formed) afterwards
impl LoadBalancer {
  #[verifier::external_body]
  pub fn wait_for_connection(&mut self) -> (r: Result<(), ZmqError>)
    requires old(self).state.wf()
    ensures final(self).state.wf(), r is Ok ==> final(self).state.peers@.len() > 0
  { unimplemented!() }
}
#[verifier::external_body]
pub fn verif_max(a: usize, b: usize) -> (r: usize) ensures r == (if a >= b { a } else { b }) { unimplemented!() }
""")

GLUE += """
pub proof fn lemma_rot_step(c: int, t: int, n: int)
  requires n > 0, c >= 0, t >= 0
  ensures ((c + t) % n + 1) % n == (c + t + 1) % n
{
  vstd::arithmetic::div_mod::lemma_add_mod_noop_right(1, c + t, n);
}
pub proof fn lemma_rot_full(c: int, n: int)
  requires 0 <= c < n
  ensures (c + 0) % n == c, (c + n) % n == c
{
  vstd::arithmetic::div_mod::lemma_small_mod(c as nat, n as nat);
  vstd::arithmetic::div_mod::lemma_mod_add_multiples_vanish(c, n);
}
"""

SIG = [("&self", "&mut self")]

parts = [
  Raw("prelude/core.rs"),
  Raw("prelude/std.rs"),
  Raw("prelude/bytes.rs"),
  Raw("prelude/msg.rs"),
  Raw("prelude/framebatch.rs"),
  Item(lb.LB, "struct", "Peer"),
  Item(lb.LB, "struct", "BalancerState"),
  Item(lb.LB, "struct", "LoadBalancer", extra=[("R6", "state: Mutex<BalancerState>", "state: BalancerState", 1), ("R5", "std::sync::atomic::AtomicBool", "AtomicBool", 1),
                                              ("R5", "notify_waiters: Arc<Notify>", "notify_waiters: Notify, pub epoch: Ghost<nat>, pub checked_at: Ghost<nat>", 1)]),
  Raw(text=GLUE, label="route-glue"),
  as_contract(lb.FNS["get_next_connection"]),
  as_contract(lb.FNS["connection_count"]),
  Item(OO, "struct", "OutgoingMessageOrchestrator"),
  Fn(OO, "try_route_sync", impl=IMPL, emit_impl="impl OutgoingMessageOrchestrator", sig_sub=SIG, mut_params=["msgs"],
     requires=["old(self).load_balancer.state.wf()"],
     ensures=[
       ("C13:wf", "final(self).load_balancer.state.wf()"),
       ("C13+C14:refused_batch_is_returned_intact", "r matches Err(p) ==> p.0@ == msgs@"),
       ("C13:peer_set_untouched", "final(self).load_balancer.state.peers@ == old(self).load_balancer.state.peers@"),
       # all peers full (or none): every peer of the rotation was tried exactly once and the cursor is back where the sweep started
       ("C13:full_sweep_tries_every_peer_once",
        "r matches Err(p) && (p.1 is ResourceLimitReached) && old(self).load_balancer.state.peers@.len() > 0 ==> "
        "final(self).load_balancer.state.next_idx == old(self).load_balancer.state.next_idx"),
     ],
     loops={0: {"ghost_iter": "it",
       "invariant": [
         "self.load_balancer.state.wf()", "old(self).load_balancer.state.wf()", "self.load_balancer.state.peers@ == old(self).load_balancer.state.peers@",
         "count == old(self).load_balancer.state.peers@.len()", "count > 0", "msgs__m@ == msgs@",
         "tried >= 0", "tried == it.index@", "tried <= count",
         ("C13:loop_rotation", "self.load_balancer.state.next_idx == (old(self).load_balancer.state.next_idx + tried) % (count as int)"),
       ]}},
     hints=[("g", "@fn_start", 0, "", "let ghost mut tried: int = 0;"),
            ("z", "re:for _ in (it: )?0\\.\\.count", 0, "before", "proof { lemma_rot_full(self.load_balancer.state.next_idx as int, count as int); }"),
            ("step", "@loop_end:0", 0, "",
             "proof { lemma_rot_step(old(self).load_balancer.state.next_idx as int, tried, count as int); tried = tried + 1; }"),
            ("fin", "re:(?m)^    Err\\(\\(msgs__m, ZmqError::ResourceLimitReached\\)\\)", 0, "before",
             "proof { assert(tried == count); lemma_rot_full(old(self).load_balancer.state.next_idx as int, count as int); }")]),
  Fn(OO, "route_message", impl=IMPL, emit_impl="impl OutgoingMessageOrchestrator", sig_sub=SIG + [("async fn", "fn")], mut_params=["msgs"],
     attrs=["#[verifier::exec_allows_no_decreases_clause]"],
     requires=["old(self).load_balancer.state.wf()"],
     ensures=[
       ("C13:wf", "final(self).load_balancer.state.wf()"),
       ("C13+C14:wouldblock_returns_the_batch_intact", "r matches Err(p) ==> ((p.1 is ResourceLimitReached) ==> p.0@ == msgs@)"),
     ],
     extra=[("R8", "self.load_balancer.connection_count().max(1)", "verif_max(self.load_balancer.connection_count(), 1)", 2),
            ("R8", "self.load_balancer.wait_for_connection().await", "self.load_balancer.wait_for_connection()", 1),
            ("R8", "block_peer.iface.send_multipart_owned(msgs).await", "block_peer.iface.send_multipart_owned(msgs)", 1)],
     loops={0: {
       "invariant": [
         "self.load_balancer.state.wf()", "msgs__m@ == msgs@",
         # the sweep bound always covers the current rotation; `attempts` counts the peers found full since the sweep (re)started
         ("C13:sweep_bound_covers_every_peer", "max_attempts >= self.load_balancer.state.peers@.len() && max_attempts >= 1"),
         "attempts < max_attempts",
       ]}},
     hints=[
       # a sender may block on a peer only after EVERY peer of the rotation was tried and found full in this sweep
       ("C13:blocks_only_after_a_full_sweep", "re:let block_peer = match self\\.load_balancer\\.get_next_connection\\(\\)", 0, "before",
        "proof { assert(attempts >= self.load_balancer.state.peers@.len()); }"),
     ]),
]

FNS = {p.name: p for p in parts if isinstance(p, Fn)}
unit = Unit("route", ["C13", "C14"], parts, safety_props=["C13"], notes="synchronous routing sweep")
