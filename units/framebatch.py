"""U-framebatch: the real FrameBatch (message/mod.rs) against the view Seq<Msg>.
push/insert carry the derived precondition len < 255 (VecU8 panics beyond), with_capacity cap <= 255."""
from vlib.vx import Fn, Item, Raw
from vlib.runner import Unit

MM = "core/src/message/mod.rs"
IMPL = r"impl\s+FrameBatch\b"

SPEC = """
spec fn inner_seq(i: FrameBatchInner) -> Seq<Msg> {
  match i {
    FrameBatchInner::Empty => Seq::<Msg>::empty(),
    FrameBatchInner::Single(m) => seq![m],
    FrameBatchInner::Two(m1, m2) => seq![m1, m2],
    FrameBatchInner::Many(v) => v@,
  }
}
spec fn inner_ok(i: FrameBatchInner) -> bool { !(i matches FrameBatchInner::Many(v) && v@.len() == 0) }
impl FrameBatch {
  spec fn seq(&self) -> Seq<Msg> { inner_seq(self.inner) }
  // representation invariant needed by is_empty(): the spilled variant is never empty.
  // Established by new/push/pop/insert/remove; NOT by with_capacity(n > 2) (is_empty() is wrong on such a fresh batch).
  spec fn rep_ok(&self) -> bool { inner_ok(self.inner) }
}
// R5/R8: assert_eq!(index, 0, ..) / panic!(..) are diverging calls: `verif_panic()` requires false,
// i.e. every panic site must be proved unreachable under the function's precondition.
#[verifier::external_body]
pub fn verif_panic() -> ! requires false { panic!() }
"""

PANIC = [("R8", 'panic!("index out of bounds")', "verif_panic()", "+")]
ASSERT0 = [("R8", 'assert_eq!(index, 0, "index out of bounds");', "if index != 0 { verif_panic() }", 1)]

parts = [
  Raw("prelude/core.rs"),
  Raw("prelude/std.rs"),
  Raw("prelude/bytes.rs"),
  Raw("prelude/msg.rs"),
  Raw("prelude/vecu8.rs"),
  Item(MM, "enum", "FrameBatchInner"),
  Item(MM, "struct", "FrameBatch"),
  Raw(text=SPEC, label="framebatch-view"),
  Fn(MM, "demote", ensures=[("C02:same_frames", "inner_seq(r) =~= vec@"), ("C02:rep_ok", "inner_ok(r)")]),
  Fn(MM, "new", impl=IMPL, emit_impl="impl FrameBatch", ensures=[("C02:empty", "r.seq() =~= Seq::<Msg>::empty()"), ("C02:rep_ok", "r.rep_ok()")]),
  Fn(MM, "with_capacity", impl=IMPL, emit_impl="impl FrameBatch",
     requires=["capacity <= 255"],
     ensures=[("C02:empty", "r.seq() =~= Seq::<Msg>::empty()")]),
  Fn(MM, "push", impl=IMPL, emit_impl="impl FrameBatch",
     requires=["old(self).seq().len() < 255"],
     ensures=[("C02:appends_one_frame", "final(self).seq() =~= old(self).seq().push(msg)"), ("C02:rep_ok", "final(self).rep_ok()")]),
  Fn(MM, "pop", impl=IMPL, emit_impl="impl FrameBatch",
     ensures=[("C02:pop_none", "old(self).seq().len() == 0 ==> r is None && final(self).seq() =~= old(self).seq()"),
              ("C02:pop_last", "old(self).seq().len() > 0 ==> r == Some(old(self).seq().last()) && final(self).seq() =~= old(self).seq().drop_last()"),
              ("C02:rep_ok", "final(self).rep_ok()")]),
  Fn(MM, "len", impl=IMPL, emit_impl="impl FrameBatch", ensures=[("C02:len", "r == self.seq().len()"), ("C02:cap", "r <= 255")]),
  Fn(MM, "is_empty", impl=IMPL, emit_impl="impl FrameBatch",
     requires=["self.rep_ok()"],
     ensures=[("C02:is_empty", "r == (self.seq().len() == 0)")],
     extra=[("R8", "matches!(self.inner, FrameBatchInner::Empty)", "(match self.inner { FrameBatchInner::Empty => true, _ => false })", 1)]),
  Fn(MM, "insert", impl=IMPL, emit_impl="impl FrameBatch",
     requires=["old(self).seq().len() < 255", "index <= old(self).seq().len()"],
     ensures=[("C02:inserts_one_frame", "final(self).seq() =~= old(self).seq().insert(index as int, msg)"), ("C02:rep_ok", "final(self).rep_ok()")],
     extra=PANIC + ASSERT0),
  Fn(MM, "remove", impl=IMPL, emit_impl="impl FrameBatch",
     requires=["index < old(self).seq().len()"],
     ensures=[("C02:removes_one_frame", "r == old(self).seq()[index as int] && final(self).seq() =~= old(self).seq().remove(index as int)"), ("C02:rep_ok", "final(self).rep_ok()")],
     extra=PANIC + ASSERT0),
  Fn(MM, "index", impl=r"impl\s+std::ops::Index<usize>\s+for\s+FrameBatch\b", emit_impl="impl FrameBatch",
     sig_sub=[("&Self::Output", "&Msg")],
     requires=["index < self.seq().len()"],
     ensures=[("C02:index", "*r == self.seq()[index as int]")],
     extra=PANIC),
]

FNS = {p.name: p for p in parts if isinstance(p, Fn)}
unit = Unit("framebatch", ["C02", "C07"], parts, safety_props=["C02", "C07"], notes="FrameBatch view")
