"""U-dec: the four ZmtpManualParser decoders (manual_parser.rs) against the C03 wire-format spec."""
from vlib.vx import Fn, Item, Raw
from vlib.runner import Unit

MP = "core/src/protocol/zmtp/manual_parser.rs"
CMD = "core/src/protocol/zmtp/command.rs"
IMPL = r"impl\s+ZmtpManualParser\b"

# common postconditions of the three "peek at a slice" style decoders, over `s` = the input bytes
def slice_contract(s, with_msg):
  ens = [
    ("C03+C07:err_iff_oversize", "r is Err <==> oversize(%s, self.max_msg_size)" % s),
  ]
  if with_msg:
    ens += [
      ("C03:some_iff_complete", "(r matches Ok(Some(_))) <==> (!oversize(%s, self.max_msg_size) && frame_complete(%s))" % (s, s)),
      ("C03:frame_value", "r matches Ok(Some(p)) ==> frame_of(p.0) == first_frame(%s)" % s),
      ("C03:consumed_len", "r matches Ok(Some(p)) ==> p.1 == frame_len(%s)" % s),
    ]
  return ens


parts = [
  Raw("prelude/core.rs"),
  Raw("prelude/std.rs"),
  Raw("prelude/bytes.rs"),
  Raw("prelude/msg.rs"),
  Raw("prelude/framebatch.rs"),
  Raw("prelude/zmtp_spec.rs"),
  Item(CMD, "const", "ZMTP_FLAG_LONG"),
  Item(CMD, "const", "ZMTP_FLAG_MORE"),
  Item(CMD, "const", "ZMTP_FLAG_COMMAND"),
  Item(MP, "enum", "ManualDecodingState"),
  Item(MP, "struct", "ZmtpManualParser"),
  Fn(MP, "decode_from_buffer", impl=IMPL, emit_impl="impl ZmtpManualParser",
     requires=[
       "old(self).state is ReadHeader",
     ],
     ensures=[
       ("C03+C07:err_iff_oversize", "r is Err <==> oversize(old(src)@, old(self).max_msg_size)"),
       ("C03:some_iff_complete", "(r matches Ok(Some(_))) <==> (!oversize(old(src)@, old(self).max_msg_size) && frame_complete(old(src)@))"),
       ("C03:frame_value", "r matches Ok(Some(m)) ==> frame_of(m) == first_frame(old(src)@)"),
       ("C03:consumes_exactly_one_frame", "r matches Ok(Some(m)) ==> final(src)@ == frame_rest(old(src)@)"),
       ("C03+C04+C07:none_is_nonmutating", "r matches Ok(None) ==> final(src)@ == old(src)@"),
       ("C04:consumes_from_the_front_of_the_buffer_only", "final(src).stream() =~= old(src).stream()"),
       ("C03:state_frame", "final(self).state is ReadHeader && final(self).max_msg_size == old(self).max_msg_size"),
       ("C03:dec_step", "dec_step(old(src)@, old(self).max_msg_size, match r { Ok(None) => 0int, Ok(Some(_)) => 1int, Err(_) => 2int }, "
                        "match r { Ok(Some(m)) => frame_of(m), _ => first_frame(old(src)@) }, final(src)@)"),
     ],
     loops={0: {"invariant": [("C03:loop_state", "self.state is ReadHeader"), ("C03:loop_unchanged", "src@ == old(src)@ && src.taken() == old(src).taken() && self.max_msg_size == old(self).max_msg_size")],
                "decreases": "0int"}},
     hints=[("ext_eq", "return Ok(Some(msg));", 0, "before",
             "proof { assert(payload(msg) =~= frame_body(old(src)@)); assert(src@ =~= frame_rest(old(src)@)); assert(src.taken() + src@ =~= old(src).taken() + old(src)@); }")],
  ),
  Fn(MP, "decode_frame_from_slice", impl=IMPL, emit_impl="impl ZmtpManualParser",
     ensures=slice_contract("src@", True)),
  Fn(MP, "decode_frame_from_bytes", impl=IMPL, emit_impl="impl ZmtpManualParser",
     ensures=slice_contract("src@", True)),
  Fn(MP, "peek_frame_len", impl=IMPL, emit_impl="impl ZmtpManualParser",
     ensures=[
       # a frame whose total length is not representable in usize is refused (it can never be buffered)
       ("C03+C07:err_iff_oversize", "r is Err <==> (oversize(src@, self.max_msg_size) || (hdr_complete(src@) && frame_len(src@) > usize::MAX))"),
       ("C03:some_iff_header", "(r matches Ok(Some(_))) <==> (hdr_complete(src@) && !oversize(src@, self.max_msg_size) && frame_len(src@) <= usize::MAX)"),
       ("C03:len_value", "r matches Ok(Some(n)) ==> n == frame_len(src@)"),
     ]),
]

FNS = {p.name: p for p in parts if isinstance(p, Fn)}

unit = Unit("dec", ["C03", "C04", "C07"], parts, safety_props=["C03", "C07"],
            notes="stateful buffer decoder, slice decoder, zero-copy Bytes decoder, length peek")
