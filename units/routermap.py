"""U-routermap: RouterMap (socket/patterns/router.rs): the forward map identity -> connection (uri) the ROUTER sends by, and the
reverse map pipe -> identity it labels incoming messages with.

Contracts from the property text (C11): once a connection has announced identity I (update_peer_identity) or been attached under I
(add_peer), a message addressed to I goes to THAT connection (forward entry carries the uri of the connection that announced it,
also when I was already in the map: take-over); the pipe is labelled with I from then on; the identity the pipe had before
(its placeholder) no longer routes; every other identity / pipe entry is untouched (frame).
Lock model (R6): add_peer / update_peer_identity take both write locks in their first statements and hold them to the end: one
critical section each, verified as &mut operations on the two maps.  remove_peer_by_read_pipe takes the locks one after the other;
it is verified under the assumption that RouterMap mutations are issued by one task (the socket core's event loop), stated in the evidence.
"""
import re
from vlib.vx import Fn, Item, Raw, Scan
from vlib.runner import Unit

RT = "core/src/socket/patterns/router.rs"
IMPL = r"impl\s+RouterMap\b"

GLUE = """
use std::sync::Arc;
use std::collections::HashMap;
use vstd::std_specs::hash::*;
// message/blob.rs Blob: immutable byte string, #[derive(Clone, PartialEq, Eq, Hash)] over its bytes
#[verifier::external_body]
#[verifier::accept_recursive_types]
pub struct Blob { b: Vec<u8> }
impl View for Blob { type V = Seq<u8>; uninterp spec fn view(&self) -> Seq<u8>; }
// ASSUMED: two Blobs with the same bytes are the same map key and vice versa (derived Eq/Hash on the bytes); Clone copies the bytes
pub broadcast axiom fn axiom_blob_key_model() ensures #[trigger] obeys_key_model::<Blob>();
impl Clone for Blob { #[verifier::external_body] fn clone(&self) -> (r: Blob) ensures r == *self { unimplemented!() } }
impl vstd::std_specs::cmp::PartialEqSpecImpl for Blob {
  open spec fn obeys_eq_spec() -> bool { true }
  open spec fn eq_spec(&self, other: &Blob) -> bool { *self == *other }
}
impl PartialEq for Blob { #[verifier::external_body] fn eq(&self, other: &Blob) -> bool { unimplemented!() } }
impl Eq for Blob {}
impl core::hash::Hash for Blob { #[verifier::external_body] fn hash<H: core::hash::Hasher>(&self, state: &mut H) { unimplemented!() } }

pub trait RouterSendStrategy {}
pub struct ReqPeerStrategy; pub struct DealerPeerStrategy; pub struct RouterPeerStrategy; pub struct DefaultRouterStrategy;
impl RouterSendStrategy for ReqPeerStrategy {} impl RouterSendStrategy for DealerPeerStrategy {}
impl RouterSendStrategy for RouterPeerStrategy {} impl RouterSendStrategy for DefaultRouterStrategy {}
// R8: the `match peer_socket_type { Some("REQ") => .., Some("DEALER") => .., .. }` table (string patterns are outside Verus)
#[verifier::external_body]
pub fn verif_strategy_for(peer_socket_type: Option<&str>) -> Arc<dyn RouterSendStrategy> { unimplemented!() }
// R8: `Arc::new(DefaultRouterStrategy)` where an Arc<dyn RouterSendStrategy> is expected (the unsizing coercion inside a struct literal
// makes this Verus lose the typing facts of the struct value: Map axioms then do not apply to it; the strategy is opaque to every contract here)
#[verifier::external_body]
pub fn verif_default_strategy() -> Arc<dyn RouterSendStrategy> { unimplemented!() }
// R8: `map.values().any(|other| other == identity)`: some pipe is (still) labelled with this identity
#[verifier::external_body]
pub fn verif_any_label_eq(m: &HashMap<usize, Blob>, id: &Blob) -> (r: bool)
  ensures r == (exists|q: usize| m@.contains_key(q) && #[trigger] m@[q] == *id)
{ unimplemented!() }
// R8: `a != b` on String / &str
#[verifier::external_body]
pub fn verif_str_ne(a: &String, b: &String) -> (r: bool) ensures r == (a@ != b@) { unimplemented!() }

pub struct RouterMap {
  pub identity_to_peer_info: HashMap<Blob, PeerInfo>,   // R6: RwLock<HashMap<..>>
  pub read_pipe_to_identity: HashMap<usize, Blob>,      // R6: RwLock<HashMap<..>>
}
impl RouterMap {
  pub open spec fn fwd(&self) -> Map<Blob, PeerInfo> { self.identity_to_peer_info@ }
  pub open spec fn rev(&self) -> Map<usize, Blob> { self.read_pipe_to_identity@ }
  // every identity other than the ones named keeps its route; every pipe other than `p` keeps its label
  pub open spec fn others_untouched(&self, o: &RouterMap, p: usize, a: Blob, b: Option<Blob>) -> bool {
    &&& forall|id: Blob| id != a && Some(id) != b ==> (self.fwd().contains_key(id) == o.fwd().contains_key(id)) && (o.fwd().contains_key(id) ==> self.fwd()[id] == o.fwd()[id])
    &&& forall|q: usize| q != p ==> (self.rev().contains_key(q) == o.rev().contains_key(q)) && (o.rev().contains_key(q) ==> self.rev()[q] == o.rev()[q])
  }
}
pub open spec fn old_label(o: &RouterMap, p: usize) -> Option<Blob> { if o.rev().contains_key(p) { Some(o.rev()[p]) } else { None } }
"""

SIG = [("&self", "&mut self")]
LOCKS = [
  ("R6", re.compile(r"let mut id_to_info_guard = self\.identity_to_peer_info\.write\(\);\s*\n"), "", "*"),
  ("R6", re.compile(r"let mut pipe_to_id_guard = self\.read_pipe_to_identity\.write\(\);\s*\n"), "", "*"),
  ("R6", re.compile(r"\bid_to_info_guard\b"), "self.identity_to_peer_info", "*"),
  ("R6", re.compile(r"\bpipe_to_id_guard\b"), "self.read_pipe_to_identity", "*"),
]
BCAST = ("use", "@fn_start", 0, "", "broadcast use {axiom_blob_key_model, vstd::std_specs::hash::group_hash_axioms}; proof { assert(obeys_key_model::<Blob>()); assert(builds_valid_hashers::<std::hash::RandomState>()); }")

parts = [
  Raw("prelude/core.rs"),
  Raw("prelude/std.rs"),
  Item(RT, "struct", "PeerInfo", keep_derive=()),
  Raw(text=GLUE, label="routermap-glue"),
  Fn(RT, "update_peer_identity", impl=IMPL, emit_impl="impl RouterMap", sig_sub=SIG, ret=None,
     ensures=[
       ("C11:announced_identity_routes_to_the_connection_that_announced_it",
        "final(self).fwd().contains_key(new_identity) && final(self).fwd()[new_identity].uri@ == endpoint_uri@"),
       ("C11:pipe_is_labelled_with_the_announced_identity", "final(self).rev().contains_key(pipe_read_id) && final(self).rev()[pipe_read_id] == new_identity"),
       ("C11:previous_label_of_the_pipe_no_longer_routes", "old_label(old(self), pipe_read_id) matches Some(pl) ==> (pl != new_identity ==> !final(self).fwd().contains_key(pl))"),
       ("C11:other_identities_and_pipes_untouched", "final(self).others_untouched(old(self), pipe_read_id, new_identity, old_label(old(self), pipe_read_id))"),
     ],
     hints=[BCAST],
     extra=LOCKS + [("R8", re.compile(r"match peer_socket_type \{.*?\n    \};", re.S), "verif_strategy_for(peer_socket_type);", 1)]),
  Fn(RT, "add_peer", impl=IMPL, emit_impl="impl RouterMap", sig_sub=SIG, ret=None,
     ensures=[
       ("C11:attached_identity_routes_to_the_attached_connection", "final(self).fwd().contains_key(identity) && final(self).fwd()[identity].uri@ == endpoint_uri@"),
       ("C11:pipe_is_labelled_with_the_attached_identity", "final(self).rev().contains_key(pipe_read_id) && final(self).rev()[pipe_read_id] == identity"),
       ("C11:previous_label_of_the_pipe_no_longer_routes", "old_label(old(self), pipe_read_id) matches Some(pl) ==> (pl != identity ==> !final(self).fwd().contains_key(pl))"),
       ("C11:other_identities_and_pipes_untouched", "final(self).others_untouched(old(self), pipe_read_id, identity, old_label(old(self), pipe_read_id))"),
     ],
     hints=[BCAST],
     extra=LOCKS + [("R8", "old_info.uri != endpoint_uri", "verif_str_ne(&old_info.uri, &endpoint_uri)", 1),
                    ("R8", "Arc::new(DefaultRouterStrategy)", "verif_default_strategy()", 1)]),
  Fn(RT, "remove_peer_by_read_pipe", impl=IMPL, emit_impl="impl RouterMap", sig_sub=SIG, ret=None,
     ensures=[
       ("C11:detached_pipe_loses_its_label", "!final(self).rev().contains_key(pipe_read_id) && forall|q: usize| q != pipe_read_id ==> (final(self).rev().contains_key(q) == old(self).rev().contains_key(q)) && (old(self).rev().contains_key(q) ==> final(self).rev()[q] == old(self).rev()[q])"),
       ("C11:unknown_pipe_changes_nothing", "!old(self).rev().contains_key(pipe_read_id) ==> final(self).fwd() == old(self).fwd() && final(self).rev() == old(self).rev()"),
       # reconnect with the same identity: the new connection took the identity over, then the stale one is detached
       ("C11:identity_taken_over_by_another_connection_keeps_its_route",
        "old_label(old(self), pipe_read_id) matches Some(pl) ==> ((exists|q: usize| q != pipe_read_id && old(self).rev().contains_key(q) && #[trigger] old(self).rev()[q] == pl) ==> final(self).fwd() == old(self).fwd())"),
       ("C11:otherwise_only_the_detached_pipes_identity_stops_routing",
        "old_label(old(self), pipe_read_id) matches Some(pl) ==> (!(exists|q: usize| q != pipe_read_id && old(self).rev().contains_key(q) && #[trigger] old(self).rev()[q] == pl) "
        "==> !final(self).fwd().contains_key(pl) && final(self).others_untouched(old(self), pipe_read_id, pl, None))"),
     ],
     hints=[BCAST, ("frame", "re:identity_to_remove = self\\.read_pipe_to_identity\\.remove\\(&pipe_read_id\\);", 0, "after",
                    "proof { assert(forall|q: usize| q != pipe_read_id && old(self).rev().contains_key(q) ==> self.rev().contains_key(q) && #[trigger] old(self).rev()[q] == self.rev()[q]); }")],
     extra=LOCKS + [("R8", "pipe_to_id_guard.values().any(|other| other == identity)", "verif_any_label_eq(&pipe_to_id_guard, identity)", 1, "pre")]),
]

FNS = {p.name: p for p in parts if isinstance(p, Fn)}
unit = Unit("routermap", ["C11"], parts, safety_props=["C11"], notes="ROUTER identity maps")
