"""U-command: ZMTP command parsing/creation (protocol/zmtp/command.rs): PING/PONG round trip (C19) and
totality of the READY metadata parser for every byte sequence (C07)."""
import re
from vlib.vx import Fn, Item, Raw
from vlib.runner import Unit

CMD = "core/src/protocol/zmtp/command.rs"

SPEC = """
// R8: byte-string literals b"\\x04PING" etc. (Verus has no byte-string literals)
pub fn lit_ping() -> (r: &'static [u8]) ensures r@ == PING_TAG() { let a: &'static [u8; 5] = &[4u8, 0x50, 0x49, 0x4e, 0x47]; assert(a@ =~= PING_TAG()); a }
pub fn lit_pong() -> (r: &'static [u8]) ensures r@ == PONG_TAG() { let a: &'static [u8; 5] = &[4u8, 0x50, 0x4f, 0x4e, 0x47]; assert(a@ =~= PONG_TAG()); a }
#[verifier::external_body]
pub fn lit_ready() -> (r: &'static [u8]) { unimplemented!() }
#[verifier::external_body]
pub fn lit_error() -> (r: &'static [u8]) { unimplemented!() }
"""

parts = [
  Raw("prelude/core.rs"),
  Raw("prelude/std.rs"),
  Raw("prelude/bytes.rs"),
  Raw("prelude/msg.rs"),
  Raw("prelude/command_spec.rs"),
  Raw("prelude/command_env.rs"),
  Raw(text=SPEC, label="command-spec"),
  Item(CMD, "struct", "ZmtpReady"),
  Item(CMD, "enum", "ZmtpCommand"),
  Fn(CMD, "parse_properties", impl=r"impl\s+ZmtpReady\b", emit_impl="impl ZmtpReady",
     ensures=[("C07:total", "r is Ok || r is Err")],
     extra=[("R5", "std::io::Cursor::new(body)", "VCursor::new(body)", 1),
            ("R8", re.compile(r"String::from_utf8\(name_bytes\.to_vec\(\)\)\s*\.map_err\(\|_\| ZmqError::ProtocolViolation\(verif_fmt\(\)\)\)\?", re.S),
             "match verif_string_from_utf8(name_bytes.to_vec()) { Ok(s) => s, Err(_) => { return Err(ZmqError::ProtocolViolation(verif_fmt())); } }", 1)],
     loops={0: {"invariant": ["cursor.data() == body@", "cursor.pos() <= body@.len()"],
                "decreases": "body@.len() - cursor.pos()"}}),
  Fn(CMD, "create_pong", impl=r"impl\s+ZmtpCommand\b", emit_impl="impl ZmtpCommand",
     requires=["context@.len() <= isize::MAX"],
     ensures=[("C19:pong_carries_the_context", "payload(r) == pong_body(context@)"),
              ("C19:pong_is_a_single_command_frame", "r.flags == (MsgFlags { more: false, command: true }) && r.data is Some")],
     hints=[("ext", "re:let mut msg = Msg::from_vec\\(body\\);", 0, "before", "proof { assert(body@ =~= pong_body(context@)); }")]),
  Fn(CMD, "create_ping", impl=r"impl\s+ZmtpCommand\b", emit_impl="impl ZmtpCommand",
     requires=["context@.len() <= isize::MAX"],
     ensures=[("C19:ping_body", "payload(r) == PING_TAG() + to_be16(ttl as nat) + context@"),
              ("C19:ping_is_a_single_command_frame", "r.flags == (MsgFlags { more: false, command: true }) && r.data is Some")],
     extra=[("R3", "&ttl.to_be_bytes()", "verif_u16_to_be(ttl).as_slice()", 1)],
     hints=[("ext", "re:let mut msg = Msg::from_vec\\(body\\);", 0, "before", "proof { assert(body@ =~= PING_TAG() + to_be16(ttl as nat) + context@); }")]),
  Fn(CMD, "parse", impl=r"impl\s+ZmtpCommand\b", emit_impl="impl ZmtpCommand",
     ensures=[("C19:ping_recognised", "is_ping(*msg) <==> (r matches Some(ZmtpCommand::Ping(_)))"),
              ("C19:ping_context_extracted", "r matches Some(ZmtpCommand::Ping(c)) ==> c@ == ping_ctx(*msg)"),
              ("C19:pong_recognised", "is_pong(*msg) <==> (r matches Some(ZmtpCommand::Pong(_)))"),
              ("C07:non_command_is_none", "(!msg.flags.command || msg.flags.more) ==> r is None")],
     extra=[("R8", "let body = msg.data()?;", "let body = match msg.data() { Some(b) => b, None => { return None; } };", 1)]),
]

FNS = {p.name: p for p in parts if isinstance(p, Fn)}
unit = Unit("command", ["C07", "C19"], parts, safety_props=["C07"], notes="command parsers")
