"""U-dealerq: DEALER's two ways of handing a message to a peer (socket/dealer_socket.rs): directly through the orchestrator, or through
`pending_outgoing_queue`, which a background task drains.  Contract from the property text (C01: back-pressure may delay or refuse a
send, but never reorders a message that was accepted): a message is handed to the router path DIRECTLY only when no older accepted
message is still waiting -- the pending queue is empty and the queue processor holds no message in flight (both looked at under the queue
lock, where the processor sets and clears its in-flight flag); otherwise it queues up behind them.  A message that is queued is appended
at the back (FIFO), and only while the queue is below SNDHWM (C14: the pending queue never exceeds the send high-water mark).
"""
import re
from vlib.vx import Fn, Item, Raw, Region, Scan
from vlib.runner import Unit

DS = "core/src/socket/dealer_socket.rs"
IMPL = r"impl\s+DealerSocket\b"

GLUE = """
use std::collections::VecDeque;
pub assume_specification<T, A: core::alloc::Allocator>[ VecDeque::<T, A>::is_empty ](v: &VecDeque<T, A>) -> (r: bool)
  ensures r == (v@.len() == 0);
#[verifier::external_body]
pub struct CoreRef { x: u8 }
impl CoreRef {
  #[verifier::external_body] pub fn is_running(&self) -> bool { unimplemented!() }
  // R8: the block reading core_state: (SNDTIMEO, max(SNDHWM, 1))
  #[verifier::external_body] pub fn verif_send_opts(&self) -> (r: (Option<Duration>, usize)) ensures r.1 >= 1 { unimplemented!() }
}
pub struct AtomicFlag { pub v: bool }    // AtomicBool written only under the queue lock (by the queue processor)
#[verifier::external_body]
pub struct MemOrdering { x: u8 }
impl AtomicFlag { pub fn load(&self, o: MemOrdering) -> (r: bool) ensures r == self.v { self.v } }
#[verifier::external_body]
pub fn verif_acquire() -> MemOrdering { unimplemented!() }
pub struct Orchestrator { pub routed: Ghost<Seq<Seq<Msg>>> }
impl Orchestrator {
  // single-pass synchronous attempt: an accepted batch is on its way to a peer; a refused one comes back whole
  #[verifier::external_body]
  pub fn try_route_sync(&mut self, fb: FrameBatch) -> (r: Result<(), (FrameBatch, ZmqError)>)
    ensures r is Ok ==> final(self).routed@ == old(self).routed@.push(fb@),
            r matches Err(p) ==> p.0@ == fb@ && final(self).routed@ == old(self).routed@
  { unimplemented!() }
  #[verifier::external_body]
  pub async fn route_message(&mut self, fb: FrameBatch, wait_for_peer: bool) -> (r: Result<(), (FrameBatch, ZmqError)>)
    // (what unit route PROVES of route_message: the batch comes back intact only with would-block; for timeout / closed the
    //  callee hands back an EMPTY batch -- the message is gone inside the dropped pipe-send future)
    ensures r is Ok ==> final(self).routed@ == old(self).routed@.push(fb@),
            r is Err ==> final(self).routed@ == old(self).routed@,
            r matches Err(p) ==> ((p.1 is ResourceLimitReached) ==> p.0@ == fb@)
  { unimplemented!() }
}
// #[derive(Default)] of Msg: the empty message
impl Default for Msg { #[verifier::external_body] fn default() -> (r: Msg) ensures r.data is None { unimplemented!() } }
pub enum DealerSendTransaction { Idle, Buffering { x: u8 } }
pub struct TryLockError { pub x: u8 }
// R6t: tokio::sync::Mutex::try_lock -- either the protected value as it is now, or "somebody else holds it"
#[verifier::external_body]
pub fn verif_try_lock<T>(m: &T) -> (r: Result<&T, TryLockError>) ensures r matches Ok(g) ==> *g == *m { unimplemented!() }
pub struct Notifier { pub x: u8 }
impl Notifier { #[verifier::external_body] pub fn notify_one(&self) { unimplemented!() } }
pub struct DealerSocket {
  pub core: CoreRef, pub outgoing_orchestrator: Orchestrator,
  pub current_send_transaction: DealerSendTransaction,  // R6t: TokioMutex<DealerSendTransaction>
  pub pending_outgoing_queue: VecDeque<FrameBatch>,     // R6t: Arc<TokioMutex<VecDeque<FrameBatch>>>
  pub queued_message_in_flight: AtomicFlag,
  pub outgoing_queue_activity_notifier: Notifier,
  pub queued_log: Ghost<Seq<Seq<Msg>>>,                 // ghost: everything handed to queue_message_or_error, in order
}
impl DealerSocket {
  // verified in unit flags (empty delimiter first, MORE flags normalised)
  #[verifier::external_body]
  pub fn prepare_full_multipart_send_sequence(&self, fb: FrameBatch) -> (r: FrameBatch) ensures r@.len() == fb@.len() + 1 { unimplemented!() }
  // queue_message_or_error (loop around select!: its queueing step is verified below as a region)
  #[verifier::external_body]
  pub async fn queue_message_or_error(&mut self, full_message_parts: FrameBatch, global_sndhwm: usize, global_sndtimeo: Option<Duration>) -> (r: Result<(), ZmqError>)
    ensures final(self).queued_log@ == old(self).queued_log@.push(full_message_parts@), final(self).outgoing_orchestrator == old(self).outgoing_orchestrator
  { unimplemented!() }
}
pub open spec fn views(q: Seq<FrameBatch>) -> Seq<Seq<Msg>> { q.map_values(|b: FrameBatch| b@) }
"""

INVALID = ("R2", re.compile(r'ZmqError::InvalidState\(\s*"([^"]*)"\.into\(\)\s*,?\s*\)', re.S), r'ZmqError::InvalidState("\1")', "*", "pre")

parts = [
  Raw("prelude/core.rs"),
  Raw("prelude/std.rs"),
  Raw("prelude/bytes.rs"),
  Raw("prelude/msg.rs"),
  Raw("prelude/framebatch.rs"),
  Raw("prelude/time.rs"),
  Raw(text=GLUE, label="dealerq-glue"),
  Fn(DS, "send_logical_message", impl=IMPL, emit_impl="impl DealerSocket", sig_sub=[("&self", "&mut self")],
     ensures=[
       ("C01:a_message_is_routed_directly_only_when_no_older_accepted_message_is_pending",
        "final(self).outgoing_orchestrator.routed@.len() > old(self).outgoing_orchestrator.routed@.len() ==> old(self).pending_outgoing_queue@.len() == 0 && !old(self).queued_message_in_flight.v"),
       ("C01+C14:only_the_callers_message_is_ever_queued_never_a_substitute",
        "final(self).queued_log@ == old(self).queued_log@ || final(self).queued_log@ == old(self).queued_log@.push(zmtp_wire_frames@)"),
       ("C01:the_message_goes_to_exactly_one_of_the_two_paths_or_back_to_the_queue_when_refused",
        "r is Ok ==> (final(self).outgoing_orchestrator.routed@ == old(self).outgoing_orchestrator.routed@.push(zmtp_wire_frames@) || final(self).queued_log@ == old(self).queued_log@.push(zmtp_wire_frames@))"),
     ],
     extra=[INVALID,
            ("R8", re.compile(r"let \(global_sndtimeo, global_sndhwm\) = \{.*?\n    \};", re.S), "let (global_sndtimeo, global_sndhwm) = self.core.verif_send_opts();", 1),
            ("R6t", re.compile(r"let queue_guard = self\.pending_outgoing_queue\.lock\(\)\.await;\s*\n"), "", 1),
            ("R6t", "!queue_guard.is_empty()", "!self.pending_outgoing_queue.is_empty()", 1),
            ("R8", ".load(std::sync::atomic::Ordering::Acquire)", ".load(verif_acquire())", 1)]),
  # the synchronous fast path: it, too, may hand a message to a peer only when nothing older is pending
  Fn(DS, "try_send_sync", impl=r"impl\s+ISocket\s+for\s+DealerSocket\b", emit_impl="impl DealerSocket", sig_sub=[("&self", "&mut self")],
     ensures=[
       ("C01:the_fast_path_routes_only_when_no_older_accepted_message_is_pending",
        "final(self).outgoing_orchestrator.routed@.len() > old(self).outgoing_orchestrator.routed@.len() ==> old(self).pending_outgoing_queue@.len() == 0 && !old(self).queued_message_in_flight.v"),
       ("C01:a_refused_message_is_handed_back_and_nothing_was_routed",
        "r is Err ==> final(self).outgoing_orchestrator.routed@ == old(self).outgoing_orchestrator.routed@"),
       ("C01:the_fast_path_never_touches_the_queue", "final(self).pending_outgoing_queue@ == old(self).pending_outgoing_queue@ && final(self).queued_log@ == old(self).queued_log@"),
     ],
     extra=[INVALID,
            ("R6t", "self.current_send_transaction.try_lock()", "verif_try_lock(&self.current_send_transaction)", 1),
            ("R6t", re.compile(r"\n\s*drop\(guard\);"), "", 1),
            ("R6t", "self.pending_outgoing_queue.try_lock()", "verif_try_lock(&self.pending_outgoing_queue)", "*"),
            ("R8", ".load(std::sync::atomic::Ordering::Acquire)", ".load(verif_acquire())", "*")]),
  # the queueing step of queue_message_or_error: FIFO append, bounded by SNDHWM
  Region(DS, "queue_step", "queue_message_or_error", r"\{\s*\n\s*let mut queue_guard = self\.pending_outgoing_queue\.lock\(\)\.await;", r"match global_sndtimeo \{",
         sig="async fn queue_step(&mut self, full_message_parts: FrameBatch, global_sndhwm: usize) -> (r: Result<(), ZmqError>)",
         tail="Err(ZmqError::ResourceLimitReached)", impl=IMPL, emit_impl="impl DealerSocket",
         ensures=[("C01:queued_at_the_back", "r is Ok ==> views(final(self).pending_outgoing_queue@) =~= views(old(self).pending_outgoing_queue@).push(full_message_parts@)"),
                  ("C14:pending_queue_never_exceeds_sndhwm", "old(self).pending_outgoing_queue@.len() <= global_sndhwm ==> final(self).pending_outgoing_queue@.len() <= global_sndhwm"),
                  ("C14:a_full_queue_takes_nothing", "r is Err ==> final(self).pending_outgoing_queue@ == old(self).pending_outgoing_queue@")],
         extra=[("R6t", re.compile(r"let mut queue_guard = self\.pending_outgoing_queue\.lock\(\)\.await;\s*\n"), "", 1),
                ("R6t", re.compile(r"\bqueue_guard\."), "self.pending_outgoing_queue.", "*")]),
]

FNS = {p.name: p for p in parts if isinstance(p, Fn)}
unit = Unit("dealerq", ["C01", "C14"], parts, safety_props=["C01"], notes="DEALER: direct route vs pending queue (no overtaking), queue bound")
