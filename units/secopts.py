"""U-secopts: the security-option arms of `apply_core_option_value` (socket/options.rs), each extracted as a region: PLAIN_SERVER,
PLAIN_USERNAME, PLAIN_PASSWORD, CURVE_SERVER, CURVE_SECRET_KEY, CURVE_SERVER_KEY.

Contract from the property text (C06: a configured security mechanism cannot be bypassed or downgraded): setting any option of a
mechanism SELECTS that mechanism and never switches it off -- whatever the value, whatever was set before, in whatever order: after a
successful call `enabled` is true (so ZmtpEngineConfig::from reports use_<mech> and security_enabled, which is what closes the NULL
entry of the negotiation table and the ZMTP/2.0 downgrade); an unparsable value changes nothing.  The mapping
`ZmtpEngineConfig::from` itself (use_plain = plain_options.enabled, security_enabled = the disjunction) is read but not extracted: its
body is interleaved with #[cfg(feature)] blocks (listed as an assumption).
"""
import re
from vlib.vx import Fn, Item, Raw, Region, Scan
from vlib.runner import Unit

OPT = "core/src/socket/options.rs"

GLUE = """
pub struct PlainOptions { pub enabled: bool, pub server_role: Option<bool>, pub username: Option<String>, pub password: Option<String> }
pub struct CurveOptions { pub enabled: bool, pub server_role: bool, pub secret_key: Option<[u8; 32]>, pub server_public_key: Option<[u8; 32]> }
pub struct SocketOptions { pub plain_options: PlainOptions, pub curve_options: CurveOptions }
// the value parsers: any outcome (proved total elsewhere or plain std parsing); only their signatures matter here
#[verifier::external_body] pub fn parse_bool_option(value: &[u8]) -> Result<bool, ZmqError> { unimplemented!() }
#[verifier::external_body] pub fn parse_string_option(value: &[u8], option_id: i32) -> Result<String, ZmqError> { unimplemented!() }
#[verifier::external_body] pub fn verif_parse_key32(value: &[u8], option_id: i32) -> Result<[u8; 32], ZmqError> { unimplemented!() }
pub open spec fn other_mechanisms_untouched_by_plain(a: SocketOptions, b: SocketOptions) -> bool { a.curve_options == b.curve_options }
pub open spec fn other_mechanisms_untouched_by_curve(a: SocketOptions, b: SocketOptions) -> bool { a.plain_options == b.plain_options }
"""

KEY = ("R8", "parse_key_option::<32>(value, option_id)", "verif_parse_key32(value, option_id)", "*")
SIG = "fn %s(options: &mut SocketOptions, value: &[u8], option_id: i32) -> (r: Result<(), ZmqError>)"


def arm(name, start, end, mech):
  en = "final(options).%s_options.enabled" % mech
  return Region(OPT, name, "apply_core_option_value", start, end, sig=SIG % name, expr=True, tail="Ok(())",
                ensures=[("C06:setting_an_option_of_a_mechanism_selects_it_and_never_switches_it_off", "r is Ok ==> " + en),
                         ("C06:an_unparsable_value_changes_nothing", "r is Err ==> *final(options) == *old(options)"),
                         ("C06:other_mechanisms_are_untouched", "other_mechanisms_untouched_by_%s(*old(options), *final(options))" % mech)],
                extra=[KEY])


parts = [
  Raw("prelude/core.rs"),
  Raw("prelude/std.rs"),
  Raw(text=GLUE, label="secopts-glue"),
  arm("opt_plain_server", r"PLAIN_SERVER => \{", r"\}\s*\n\s*#\[cfg\(feature = \"plain\"\)\]\s*\n\s*PLAIN_USERNAME => \{", "plain"),
  arm("opt_plain_username", r"PLAIN_USERNAME => \{", r"\}\s*\n\s*#\[cfg\(feature = \"plain\"\)\]\s*\n\s*PLAIN_PASSWORD => \{", "plain"),
  arm("opt_plain_password", r"PLAIN_PASSWORD => \{", r"\}\s*\n\s*\n?\s*#\[cfg\(feature = \"curve\"\)\]\s*\n\s*CURVE_SERVER => \{", "plain"),
  arm("opt_curve_server", r"CURVE_SERVER => \{", r"\}\s*\n\s*#\[cfg\(feature = \"curve\"\)\]\s*\n\s*CURVE_SECRET_KEY => \{", "curve"),
  arm("opt_curve_secret_key", r"CURVE_SECRET_KEY => \{", r"\}\s*\n\s*#\[cfg\(feature = \"curve\"\)\]\s*\n\s*CURVE_SERVER_KEY => \{", "curve"),
  arm("opt_curve_server_key", r"CURVE_SERVER_KEY => \{", r"\}\s*\n\s*\n?\s*#\[cfg\(feature = \"noise_xx\"\)\]", "curve"),
]

FNS = {p.name: p for p in parts if isinstance(p, Fn)}
unit = Unit("secopts", ["C06"], parts, safety_props=["C06"], notes="socket options: a security option selects its mechanism and never switches it off")
