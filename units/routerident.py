"""U-routerident: RouterSocket::update_peer_identity (socket/router_socket.rs, impl ISocket), whole: what the end of a handshake does to
ROUTER's identity label of the pipe and to the identity gate.

Contract from the property text (C11: a ROUTER labels each message with the identity its sender announced -- the placeholder only
for a peer that announced none / an empty one -- and never with a stale placeholder once an identity has been announced):
  * when the pipe's endpoint is known, the pipe's label afterwards is the announced identity if it is non-empty, the placeholder of
    THAT pipe otherwise; the routing map is told the same identity for the same pipe; no other pipe's label is touched;
  * the label is written BEFORE the pipe passes the identity gate: at the moment finalize_pipe runs the label is already the final
    one (ghost snapshot taken by the finalize stand-in), so a receiver released by the gate never sees the old placeholder;
  * the pipe is finalized on EVERY path (also when the endpoint is unknown: the code's documented choice, no stuck gate), exactly
    once, and no other pipe is finalized;
  * the pair invariant of unit routerfrag ("no finalized pipe without a label") is preserved whenever the endpoint is known.

Stand-ins: the core_state lookup block (R8: arbitrary result), RouterMap::update_peer_identity (proved in unit routermap; here a
ghost log of its calls), finalize_pipe (proved in unit routerhold; restated: finalized set + exactly this pipe, labels untouched).
"""
import re
from vlib.vx import Fn, Raw
from vlib.runner import Unit

RS = "core/src/socket/router_socket.rs"

GLUE = """
pub struct Blob { b: Vec<u8> }
impl View for Blob { type V = Seq<u8>; uninterp spec fn view(&self) -> Seq<u8>; }
impl Blob {
  #[verifier::external_body]
  pub fn is_empty(&self) -> (r: bool) ensures r == (self@.len() == 0) { unimplemented!() }
}
impl Clone for Blob { #[verifier::external_body] fn clone(&self) -> (r: Blob) ensures r@ == self@ { unimplemented!() } }
pub uninterp spec fn placeholder(pid: usize) -> Seq<u8>;
// DashMap<usize, Blob>: pipe -> identity label
#[verifier::external_body]
pub struct LabelMap { x: u8 }
impl LabelMap {
  pub uninterp spec fn view(&self) -> Map<usize, Seq<u8>>;
  #[verifier::external_body]
  pub fn insert(&mut self, k: usize, v: Blob) -> (r: Option<Blob>) ensures final(self)@ == old(self)@.insert(k, v@) { unimplemented!() }
}
// RouterMap (unit routermap): ghost log of update_peer_identity calls (pipe, identity)
pub struct RouterMap { pub calls: Ghost<Seq<(usize, Seq<u8>)>> }
impl RouterMap {
  #[verifier::external_body]
  pub async fn update_peer_identity(&mut self, pipe_read_id: usize, identity: Blob, uri: &String, peer_type: Option<&str>) -> (r: ())
    ensures final(self).calls@ == old(self).calls@.push((pipe_read_id, identity@))
  { unimplemented!() }
}
pub struct RouterSocket {
  pub router_map_for_send: RouterMap,
  pub pipe_to_identity_shared_map: LabelMap,
  pub finalized: Ghost<Set<usize>>,                              // pipe_finalized (DashMap<usize, ()>)
  pub finalize_log: Ghost<Seq<(usize, Map<usize, Seq<u8>>)>>,   // ghost: every finalize_pipe call with the label map it ran under
}
impl RouterSocket {
  pub open spec fn gate_inv(&self) -> bool { forall|p: usize| self.finalized@.contains(p) ==> #[trigger] self.pipe_to_identity_shared_map@.contains_key(p) }
  // proved in unit routerhold
  #[verifier::external_body]
  pub fn finalize_pipe(&mut self, pipe_read_id: usize)
    ensures final(self).finalized@ == old(self).finalized@.insert(pipe_read_id),
      final(self).finalize_log@ == old(self).finalize_log@.push((pipe_read_id, old(self).pipe_to_identity_shared_map@)),
      final(self).pipe_to_identity_shared_map == old(self).pipe_to_identity_shared_map, final(self).router_map_for_send == old(self).router_map_for_send,
  { unimplemented!() }
  #[verifier::external_body]
  pub fn pipe_id_to_placeholder_identity(pipe_read_id: usize) -> (r: Blob) ensures r@ == placeholder(pipe_read_id) { unimplemented!() }
  // R8: the block that reads core_state (endpoint uri of the pipe, the peer's socket type): arbitrary result
  #[verifier::external_body]
  pub fn verif_lookup_endpoint(&self, pipe_read_id: usize) -> (Option<String>, Option<String>) { unimplemented!() }
}
// R8: Option<String>::as_deref
#[verifier::external_body]
pub fn verif_as_deref(o: &Option<String>) -> Option<&str> { unimplemented!() }
pub open spec fn expected_label(pid: usize, id: Option<Blob>) -> Seq<u8> { match id { Some(b) => if b@.len() != 0 { b@ } else { placeholder(pid) }, None => placeholder(pid) } }
"""

parts = [
  Raw("prelude/core.rs"),
  Raw("prelude/std.rs"),
  Raw(text=GLUE, label="routerident-glue"),
  Fn(RS, "update_peer_identity", impl=r"impl\s+ISocket\s+for\s+RouterSocket\b", emit_impl="impl RouterSocket", sig_sub=[("&self", "&mut self")], ret=None,
     extra=[
       ("R8", re.compile(r"let \(endpoint_uri_opt, peer_socket_type_opt\) = \{.*?\n    \};", re.S), "let (endpoint_uri_opt, peer_socket_type_opt) = self.verif_lookup_endpoint(pipe_read_id);", 1),
       ("R8", "peer_socket_type_opt.as_deref()", "verif_as_deref(&peer_socket_type_opt)", 1),
     ],
     ensures=[
       ("C11:the_pipe_is_finalized_exactly_once_on_every_path_and_no_other_pipe_is",
        "final(self).finalized@ == old(self).finalized@.insert(pipe_read_id) && final(self).finalize_log@.len() == old(self).finalize_log@.len() + 1 "
        "&& final(self).finalize_log@.drop_last() =~= old(self).finalize_log@ && final(self).finalize_log@.last().0 == pipe_read_id"),
       ("C11:the_label_was_already_final_when_the_pipe_passed_the_identity_gate",
        "final(self).finalize_log@.len() > 0 && final(self).finalize_log@.last().1 == final(self).pipe_to_identity_shared_map@"),
       ("C11:the_label_is_the_announced_identity_or_this_pipes_placeholder_and_no_other_label_is_touched",
        "final(self).pipe_to_identity_shared_map@ == old(self).pipe_to_identity_shared_map@ "
        "|| final(self).pipe_to_identity_shared_map@ == old(self).pipe_to_identity_shared_map@.insert(pipe_read_id, expected_label(pipe_read_id, new_identity_opt))"),
       ("C11:the_routing_map_is_told_the_same_identity_for_the_same_pipe_iff_the_label_is_written",
        "(final(self).router_map_for_send.calls@ == old(self).router_map_for_send.calls@ && final(self).pipe_to_identity_shared_map@ == old(self).pipe_to_identity_shared_map@) "
        "|| (final(self).router_map_for_send.calls@ == old(self).router_map_for_send.calls@.push((pipe_read_id, expected_label(pipe_read_id, new_identity_opt))) "
        "    && final(self).pipe_to_identity_shared_map@ == old(self).pipe_to_identity_shared_map@.insert(pipe_read_id, expected_label(pipe_read_id, new_identity_opt)))"),
       ("C11:gate_invariant_preserved_when_the_pipe_has_a_label",
        "old(self).gate_inv() && final(self).pipe_to_identity_shared_map@.contains_key(pipe_read_id) ==> final(self).gate_inv()"),
     ]),
]

FNS = {p.name: p for p in parts if isinstance(p, Fn)}
unit = Unit("routerident", ["C11"], parts, safety_props=["C11"], notes="ROUTER update_peer_identity: label before gate, announced identity or own placeholder")
