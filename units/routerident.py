"""U-routerident: RouterSocket::update_peer_identity (socket/router_socket.rs, impl ISocket), whole: what the end of a handshake does to
ROUTER's identity label of the pipe and to the identity gate.

Contract from the property text (C11: a ROUTER labels each message with the identity its sender announced -- the placeholder only
for a peer that announced none / an empty one -- and never with a stale placeholder once an identity has been announced):
  * when the pipe's endpoint is known, the pipe's label afterwards is the announced identity if it is non-empty, the placeholder of
    THAT pipe otherwise; the routing map is told the same identity for the same pipe; no other pipe's label is touched;
  * the label is written BEFORE the pipe passes the identity gate: at the moment finalize_pipe runs the label is already the final
    one (ghost snapshot taken by the finalize stand-in), so a receiver released by the gate never sees the old placeholder;
  * the pipe is finalized on EVERY path (also when the endpoint is unknown: the code's documented choice, no stuck gate), exactly
    once, and no other pipe is finalized;
  * the pair invariant of unit routerfrag ("no finalized pipe without a label") is preserved whenever the endpoint is known.

Stand-ins: the core_state lookup block (R8: arbitrary result), RouterMap::update_peer_identity (proved in unit routermap; here a
ghost log of its calls), finalize_pipe (proved in unit routerhold; restated: finalized set + exactly this pipe, labels untouched).
"""
import re
from vlib.vx import Fn, Raw
from vlib.runner import Unit

RS = "core/src/socket/router_socket.rs"

GLUE = """
pub struct Blob { b: Vec<u8> }
impl View for Blob { type V = Seq<u8>; uninterp spec fn view(&self) -> Seq<u8>; }
impl Blob {
  #[verifier::external_body]
  pub fn is_empty(&self) -> (r: bool) ensures r == (self@.len() == 0) { unimplemented!() }
  // Deref<Target = [u8]>::len
  #[verifier::external_body]
  pub fn len(&self) -> (r: usize) ensures r == self@.len() { unimplemented!() }
}
impl Clone for Blob { #[verifier::external_body] fn clone(&self) -> (r: Blob) ensures r@ == self@ { unimplemented!() } }
pub uninterp spec fn placeholder(pid: usize) -> Seq<u8>;
// DashMap<usize, Blob>: pipe -> identity label
#[verifier::external_body]
pub struct LabelMap { x: u8 }
impl LabelMap {
  pub uninterp spec fn view(&self) -> Map<usize, Seq<u8>>;
  #[verifier::external_body]
  pub fn insert(&mut self, k: usize, v: Blob) -> (r: Option<Blob>) ensures final(self)@ == old(self)@.insert(k, v@) { unimplemented!() }
}
// RouterMap (unit routermap): ghost log of update_peer_identity calls (pipe, identity)
pub struct RouterMap { pub calls: Ghost<Seq<(usize, Seq<u8>)>> }
impl RouterMap {
  #[verifier::external_body]
  pub async fn add_peer(&mut self, identity: Blob, pipe_read_id: usize, uri: String) -> (r: ())
    ensures final(self).calls@ == old(self).calls@.push((pipe_read_id, identity@))
  { unimplemented!() }
  #[verifier::external_body]
  pub async fn update_peer_identity(&mut self, pipe_read_id: usize, identity: Blob, uri: &String, peer_type: Option<&str>) -> (r: ())
    ensures final(self).calls@ == old(self).calls@.push((pipe_read_id, identity@))
  { unimplemented!() }
}
pub struct RouterSocket {
  pub router_map_for_send: RouterMap,
  pub pipe_to_identity_shared_map: LabelMap,
  pub finalized: Ghost<Set<usize>>,                              // pipe_finalized (DashMap<usize, ()>)
  pub finalize_log: Ghost<Seq<(usize, Map<usize, Seq<u8>>)>>,   // ghost: every finalize_pipe call with the label map it ran under
}
impl RouterSocket {
  pub open spec fn gate_inv(&self) -> bool { forall|p: usize| self.finalized@.contains(p) ==> #[trigger] self.pipe_to_identity_shared_map@.contains_key(p) }
  // proved in unit routerhold
  #[verifier::external_body]
  pub fn finalize_pipe(&mut self, pipe_read_id: usize)
    ensures final(self).finalized@ == old(self).finalized@.insert(pipe_read_id),
      final(self).finalize_log@ == old(self).finalize_log@.push((pipe_read_id, old(self).pipe_to_identity_shared_map@)),
      final(self).pipe_to_identity_shared_map == old(self).pipe_to_identity_shared_map, final(self).router_map_for_send == old(self).router_map_for_send,
  { unimplemented!() }
  #[verifier::external_body]
  pub fn pipe_id_to_placeholder_identity(pipe_read_id: usize) -> (r: Blob) ensures r@ == placeholder(pipe_read_id) { unimplemented!() }
  // R8: the block that reads core_state (endpoint uri of the pipe, the peer's socket type): arbitrary result
  #[verifier::external_body]
  pub fn verif_lookup_endpoint(&self, pipe_read_id: usize) -> (Option<String>, Option<String>) { unimplemented!() }
  // R8 (pipe_attached): the block that reads core_state (endpoint uri of the pipe, connection id): arbitrary result
  #[verifier::external_body]
  pub fn verif_lookup_conn(&self, pipe_read_id: usize) -> (r: (Option<String>, Option<usize>))
    ensures (match r.0 { Some(u) => endpoint_of(pipe_read_id) == Some(u@), None => endpoint_of(pipe_read_id) is None })
  { unimplemented!() }
  // R8 (pipe_attached): coordinator / ingress-channel registration of the new pipe (units lb, anon): no access to labels or gate
  #[verifier::external_body]
  pub async fn verif_register_channels(&self, pipe_read_id: usize) -> (r: ()) { unimplemented!() }
}
// R8: Blob::from_bytes(Bytes::copy_from_slice(s))
#[verifier::external_body]
pub fn verif_blob_from_slice(s: &[u8]) -> (r: Blob) ensures r@ == s@ { unimplemented!() }
pub uninterp spec fn is_inproc_uri(u: Seq<char>) -> bool;
// the endpoint uri core_state records for the pipe at the one time pipe_attached reads it
pub uninterp spec fn endpoint_of(pid: usize) -> Option<Seq<char>>;
// R8: String::starts_with("inproc://")
#[verifier::external_body]
pub fn verif_is_inproc(u: &String) -> (r: bool) ensures r == is_inproc_uri(u@) { unimplemented!() }
pub open spec fn attach_label(pid: usize, id: Option<&[u8]>) -> Seq<u8> { match id { Some(b) => if b@.len() != 0 { b@ } else { placeholder(pid) }, None => placeholder(pid) } }
pub open spec fn real_identity(id: Option<&[u8]>) -> bool { id matches Some(b) && b@.len() != 0 }
// R8: Option<String>::as_deref
#[verifier::external_body]
pub fn verif_as_deref(o: &Option<String>) -> Option<&str> { unimplemented!() }
pub open spec fn expected_label(pid: usize, id: Option<Blob>) -> Seq<u8> { match id { Some(b) => if b@.len() != 0 { b@ } else { placeholder(pid) }, None => placeholder(pid) } }
"""

parts = [
  Raw("prelude/core.rs"),
  Raw("prelude/std.rs"),
  Raw(text=GLUE, label="routerident-glue"),
  Fn(RS, "update_peer_identity", impl=r"impl\s+ISocket\s+for\s+RouterSocket\b", emit_impl="impl RouterSocket", sig_sub=[("&self", "&mut self")], ret=None,
     extra=[
       ("R8", re.compile(r"let \(endpoint_uri_opt, peer_socket_type_opt\) = \{.*?\n    \};", re.S), "let (endpoint_uri_opt, peer_socket_type_opt) = self.verif_lookup_endpoint(pipe_read_id);", 1),
       ("R8", "peer_socket_type_opt.as_deref()", "verif_as_deref(&peer_socket_type_opt)", 1),
     ],
     ensures=[
       ("C11:the_pipe_is_finalized_exactly_once_on_every_path_and_no_other_pipe_is",
        "final(self).finalized@ == old(self).finalized@.insert(pipe_read_id) && final(self).finalize_log@.len() == old(self).finalize_log@.len() + 1 "
        "&& final(self).finalize_log@.drop_last() =~= old(self).finalize_log@ && final(self).finalize_log@.last().0 == pipe_read_id"),
       ("C11:the_label_was_already_final_when_the_pipe_passed_the_identity_gate",
        "final(self).finalize_log@.len() > 0 && final(self).finalize_log@.last().1 == final(self).pipe_to_identity_shared_map@"),
       ("C11:the_label_is_the_announced_identity_or_this_pipes_placeholder_and_no_other_label_is_touched",
        "final(self).pipe_to_identity_shared_map@ == old(self).pipe_to_identity_shared_map@ "
        "|| final(self).pipe_to_identity_shared_map@ == old(self).pipe_to_identity_shared_map@.insert(pipe_read_id, expected_label(pipe_read_id, new_identity_opt))"),
       ("C11:the_routing_map_is_told_the_same_identity_for_the_same_pipe_iff_the_label_is_written",
        "(final(self).router_map_for_send.calls@ == old(self).router_map_for_send.calls@ && final(self).pipe_to_identity_shared_map@ == old(self).pipe_to_identity_shared_map@) "
        "|| (final(self).router_map_for_send.calls@ == old(self).router_map_for_send.calls@.push((pipe_read_id, expected_label(pipe_read_id, new_identity_opt))) "
        "    && final(self).pipe_to_identity_shared_map@ == old(self).pipe_to_identity_shared_map@.insert(pipe_read_id, expected_label(pipe_read_id, new_identity_opt)))"),
       ("C11:gate_invariant_preserved_when_the_pipe_has_a_label",
        "old(self).gate_inv() && final(self).pipe_to_identity_shared_map@.contains_key(pipe_read_id) ==> final(self).gate_inv()"),
     ]),
]

parts.append(
  Fn(RS, "pipe_attached", impl=r"impl\s+ISocket\s+for\s+RouterSocket\b", emit_impl="impl RouterSocket", sig_sub=[("&self", "&mut self")], ret=None,
     extra=[
       ("R8", re.compile(r"let \(endpoint_uri_opt, connection_id_opt\) = \{.*?\n    \};", re.S), "let (endpoint_uri_opt, connection_id_opt) = self.verif_lookup_conn(pipe_read_id);", 1),
       ("R8", "Blob::from_bytes(Bytes::copy_from_slice(id_bytes))", "verif_blob_from_slice(id_bytes)", 1),
       ("R8", 'endpoint_uri.starts_with("inproc://")', "verif_is_inproc(&endpoint_uri)", 1),
       ("R8", re.compile(r"self\.pipe_send_coordinator\.add_pipe\(pipe_read_id\)\.await;.*?self\.pending_pipe_senders\.lock\(\)\.insert\(pipe_read_id, sender\);", re.S), "self.verif_register_channels(pipe_read_id).await;", 1),
       ("R8", "matches!(peer_identity_opt, Some(id) if !id.is_empty())", "(match peer_identity_opt { Some(id) => !id.is_empty(), None => false })", 1),
     ],
     ensures=[
       ("C11:at_attach_a_pipe_passes_the_identity_gate_only_with_a_real_identity_or_on_inproc_and_no_other_pipe_does",
        "final(self).finalized@ == old(self).finalized@ || (final(self).finalized@ == old(self).finalized@.insert(pipe_read_id) "
        "&& final(self).finalize_log@.len() == old(self).finalize_log@.len() + 1 && final(self).finalize_log@.last().0 == pipe_read_id "
        "&& final(self).finalize_log@.last().1 == final(self).pipe_to_identity_shared_map@ && final(self).pipe_to_identity_shared_map@.contains_key(pipe_read_id) "
        "&& (real_identity(peer_identity_opt) || (endpoint_of(pipe_read_id) matches Some(u) && is_inproc_uri(u))))"),
       ("C11:a_real_identity_known_at_attach_is_never_left_waiting_behind_the_gate",
        "real_identity(peer_identity_opt) && final(self).pipe_to_identity_shared_map@ != old(self).pipe_to_identity_shared_map@ ==> final(self).finalized@.contains(pipe_read_id)"),
       ("C11:the_label_is_the_announced_identity_or_this_pipes_placeholder_and_no_other_label_is_touched",
        "(final(self).router_map_for_send.calls@ == old(self).router_map_for_send.calls@ && final(self).pipe_to_identity_shared_map@ == old(self).pipe_to_identity_shared_map@ && final(self).finalized@ == old(self).finalized@) "
        "|| (final(self).router_map_for_send.calls@ == old(self).router_map_for_send.calls@.push((pipe_read_id, attach_label(pipe_read_id, peer_identity_opt))) "
        "    && final(self).pipe_to_identity_shared_map@ == old(self).pipe_to_identity_shared_map@.insert(pipe_read_id, attach_label(pipe_read_id, peer_identity_opt)))"),
       ("C11:gate_invariant_preserved_no_finalized_pipe_without_identity_label", "old(self).gate_inv() ==> final(self).gate_inv()"),
     ]))

FNS = {p.name: p for p in parts if isinstance(p, Fn)}
unit = Unit("routerident", ["C11"], parts, safety_props=["C11"], notes="ROUTER pipe_attached / update_peer_identity: label before gate, announced identity or own placeholder")
