"""U-plain: the PLAIN mechanism (security/plain.rs): the server reaches ServerSendWelcome / Ready only through a
HELLO whose username AND password equal the configured ones; every token (any length, any content) is handled
without panic.  Discharges, for PLAIN, the abstract Mechanism contract the engine unit relies on (is_complete)."""
import re
from vlib.vx import Fn, Item, Raw, Region
from vlib.runner import Unit

PL = "core/src/security/plain.rs"
ME = "core/src/security/mechanism.rs"
IMPL = r"impl\s+PlainMechanism\b"
TIMPL = r"impl\s+Mechanism\s+for\s+PlainMechanism\b"

GLUE = """
#[verifier::external_body]
pub struct Metadata { x: u8 }
// R6: `cursor.copy_to_slice(&mut v)` with v: Vec<u8> (Buf::copy_to_slice panics if fewer bytes remain than v.len())
impl<'a> VCursor<'a> {
  #[verifier::external_body]
  pub fn verif_copy_to_vec(&mut self, dst: &mut Vec<u8>)
    requires old(self).pos() + old(dst)@.len() <= old(self).data().len()
    ensures final(self).data() == old(self).data(), final(self).pos() == old(self).pos() + old(dst)@.len(),
      final(dst)@ == old(self).data().subrange(old(self).pos() as int, (old(self).pos() + old(dst)@.len()) as int)
  { unimplemented!() }
}
// R8: vec![0u8; n]
#[verifier::external_body]
pub fn verif_vec_zeroed(n: usize) -> (r: Vec<u8>) ensures r@.len() == n { unimplemented!() }
// R8: `a == b` on byte slices / `opt.as_ref().map_or(false, |u| u == &v)` on Option<Vec<u8>>
#[verifier::external_body]
pub fn verif_slice_eq(a: &[u8], b: &[u8]) -> (r: bool) ensures r == (a@ == b@) { unimplemented!() }
#[verifier::external_body]
pub fn verif_opt_vec_eq(a: &Option<Vec<u8>>, b: &Vec<u8>) -> (r: bool) ensures r == (a matches Some(x) && x@ == b@) { unimplemented!() }

#[verifier::external_body]
pub fn verif_min_usize(a: usize, b: usize) -> (r: usize) ensures r == (if a <= b { a } else { b }) { unimplemented!() }
#[verifier::external_body]
pub fn verif_slice_prefix(s: &[u8], n: usize) -> (r: &[u8]) requires n <= s@.len() ensures r@ == s@.subrange(0, n as int) { unimplemented!() }
#[verifier::external_body]
pub fn verif_opt_as_slice(o: &Option<Vec<u8>>) -> (r: &[u8]) ensures (o matches Some(v) ==> r@ == v@), (o is None ==> r@.len() == 0), r@.len() <= isize::MAX { unimplemented!() }
impl BytesMut {
  #[verifier::external_body]
  pub fn verif_to_vec(&self) -> (r: Vec<u8>) ensures r@ == self@ { unimplemented!() }
}
// ---- HELLO body grammar (RFC 27): <ulen:1><username><plen:1><password>
pub open spec fn hello_ok(b: Seq<u8>) -> bool {
  b.len() >= 2 && b.len() >= 1 + b[0] as nat + 1 && b.len() >= 1 + b[0] as nat + 1 + b[1 + b[0] as int] as nat
}
pub open spec fn hello_user(b: Seq<u8>) -> Seq<u8> { b.subrange(1, 1 + b[0] as int) }
pub open spec fn hello_pass(b: Seq<u8>) -> Seq<u8> { b.subrange(2 + b[0] as int, 2 + b[0] as int + b[1 + b[0] as int] as int) }

impl PlainMechanism {
  // the authentication invariant of the server side
  pub open spec fn inv(&self) -> bool {
    self.is_server && (self.state is ServerSendWelcome || self.state is Ready) ==>
      (self.expected_username matches Some(eu) && self.username matches Some(u) && u@ == eu@)
      && (self.expected_password matches Some(ep) && self.password matches Some(p) && p@ == ep@)
  }
}
"""

INIT_GLUE = """
// the two fields of ZmtpEngineConfig that initialize_plain reads
pub struct PlainConfig { pub plain_username_for_engine: Option<String>, pub plain_password_for_engine: Option<String> }
pub uninterp spec fn str_bytes(s: String) -> Seq<u8>;
// R8: `opt.as_ref().map(|s| s.as_bytes().to_vec())` (std semantics of Option::map: None stays None)
#[verifier::external_body]
pub fn verif_opt_bytes(o: &Option<String>) -> (r: Option<Vec<u8>>)
  ensures (r is None) == (*o is None), r matches Some(v) ==> v@ == str_bytes(o->0)
{ unimplemented!() }
impl PlainMechanism {
  // client side of initialize_plain: not the subject here
  #[verifier::external_body]
  pub fn set_client_credentials(&mut self, username: Option<Vec<u8>>, password: Option<Vec<u8>>)
    ensures final(self).is_server == old(self).is_server, final(self).state == old(self).state, final(self).expected_username == old(self).expected_username, final(self).expected_password == old(self).expected_password
  { unimplemented!() }
}
"""
SELFC = [("R5", "Self::CMD_HELLO", "CMD_HELLO", "+")]

parts = [
  Raw("prelude/core.rs"),
  Raw("prelude/std.rs"),
  Raw("prelude/bytes.rs"),
  Raw("prelude/command_env.rs"),
  Item(ME, "enum", "MechanismStatus", keep_derive=("Clone", "Copy", "PartialEq", "Eq")),
  Item(ME, "enum", "ProcessTokenAction", keep_derive=("Clone", "Copy", "PartialEq", "Eq")),
  Item(PL, "enum", "PlainState", keep_derive=("Clone", "Copy", "PartialEq", "Eq")),
  Raw(text="#[verifier::external_body]\npub struct Metadata { x: u8 }\n", label="plain-types"),
  Item(PL, "struct", "PlainMechanism", extra=[("R2", "error_reason: Option<String>", "error_reason: Option<VString>", 1)]),
  Item(PL, "const", "CMD_HELLO", within=IMPL),
  Item(PL, "const", "CMD_WELCOME", within=IMPL),
  Item(PL, "const", "CMD_ERROR", within=IMPL),
  Raw(text=GLUE.replace("#[verifier::external_body]\npub struct Metadata { x: u8 }\n", ""), label="plain-glue"),
  Raw(text=INIT_GLUE, label="plain-init-glue"),
  Fn(PL, "new", impl=IMPL, emit_impl="impl PlainMechanism",
     ensures=[("C06:starts_unauthenticated", "r.inv() && !(r.state is Ready) && !(r.state is ServerSendWelcome) && r.is_server == is_server && r.expected_username is None && r.expected_password is None")]),
  Fn(PL, "set_server_expected_credentials", impl=IMPL, emit_impl="impl PlainMechanism",
     requires=["!(old(self).state is ServerSendWelcome) && !(old(self).state is Ready)"],
     ensures=[("C06:inv", "final(self).inv()"), ("C06:state_frame", "final(self).state == old(self).state && final(self).is_server == old(self).is_server"),
              ("C06:a_server_expects_exactly_the_credentials_given", "old(self).is_server ==> final(self).expected_username == username && final(self).expected_password == password")]),
  # security/mod.rs initialize_plain (region: everything before the boxing): a listener's expected credentials are exactly the configured ones --
  # an option that was never set stays "no valid value" (None), it is NOT the empty string
  Region("core/src/security/mod.rs", "initialize_plain_mech", "initialize_plain", r"let ", r"Ok\(Box::new\(plain_mech\)\)",
         sig="fn initialize_plain_mech(is_server: bool, local_config: &PlainConfig) -> (r: PlainMechanism)", tail="plain_mech",
         ensures=[("C06:the_mechanism_plays_the_role_it_was_asked_to_play", "r.is_server == is_server"),
                  ("C06:a_listener_expects_exactly_the_configured_credentials_unset_stays_unset",
                   "is_server ==> (r.expected_username is None) == (local_config.plain_username_for_engine is None) && (r.expected_password is None) == (local_config.plain_password_for_engine is None) "
                   "&& (r.expected_username matches Some(u) ==> u@ == str_bytes(local_config.plain_username_for_engine->0)) && (r.expected_password matches Some(pw) ==> pw@ == str_bytes(local_config.plain_password_for_engine->0))"),
                  ("C06:starts_unauthenticated", "!(r.state is Ready) && !(r.state is ServerSendWelcome)")],
         extra=[("R8", re.compile(r"local_config\s*\.plain_username_for_engine\s*\.as_ref\(\)\s*\.map\(\|s\| s\.as_bytes\(\)\.to_vec\(\)\)", re.S), "verif_opt_bytes(&local_config.plain_username_for_engine)", 1),
                ("R8", re.compile(r"local_config\s*\.plain_password_for_engine\s*\.as_ref\(\)\s*\.map\(\|s\| s\.as_bytes\(\)\.to_vec\(\)\)", re.S), "verif_opt_bytes(&local_config.plain_password_for_engine)", 1)]),
  Fn(PL, "parse_hello_body", impl=IMPL, emit_impl="impl PlainMechanism",
     ensures=[("C06+C07:ok_iff_wellformed", "r is Ok <==> hello_ok(body@)"),
              ("C06:fields", "r matches Ok(p) ==> p.0@ == hello_user(body@) && p.1@ == hello_pass(body@)")],
     extra=[("R5", "std::io::Cursor::new(body)", "VCursor::new(body)", 1),
            ("R8", "vec![0u8; user_len]", "verif_vec_zeroed(user_len)", 1),
            ("R8", "vec![0u8; pass_len]", "verif_vec_zeroed(pass_len)", 1),
            ("R6", "cursor.copy_to_slice(&mut username)", "cursor.verif_copy_to_vec(&mut username)", 1),
            ("R6", "cursor.copy_to_slice(&mut password)", "cursor.verif_copy_to_vec(&mut password)", 1)]),
  Fn(PL, "set_error_internal", impl=IMPL, emit_impl="impl PlainMechanism",
     sig_sub=[("reason: String", "reason: VString")],
     ensures=[("C06:error_state", "final(self).state is Error"),
              ("C06:frame", "final(self).is_server == old(self).is_server && final(self).username == old(self).username && final(self).password == old(self).password "
                            "&& final(self).expected_username == old(self).expected_username && final(self).expected_password == old(self).expected_password")]),
  Fn(PL, "process_token", impl=TIMPL, emit_impl="impl PlainMechanism", safety_props=["C06", "C07"],
     requires=["old(self).inv()"],
     ensures=[
       ("C06:inv", "final(self).inv()"),
       ("C06:config_frame", "final(self).is_server == old(self).is_server && final(self).expected_username == old(self).expected_username && final(self).expected_password == old(self).expected_password"),
       # the only way a server leaves ServerExpectHello towards success is a HELLO carrying exactly the configured credentials
       ("C05+C06:server_accepts_only_configured_credentials",
        "old(self).is_server && r is Ok ==> old(self).state is ServerExpectHello && final(self).state is ServerSendWelcome "
        "&& (old(self).expected_username matches Some(eu) && final(self).username matches Some(u) && u@ == eu@) "
        "&& (old(self).expected_password matches Some(ep) && final(self).password matches Some(p) && p@ == ep@)"),
       ("C05+C06:no_expected_credentials_means_reject", "old(self).is_server && (old(self).expected_username is None || old(self).expected_password is None) ==> r is Err"),
       ("C06:error_is_terminal", "r is Err ==> final(self).state is Error"),
       ("C06:never_ready_by_token_on_server", "old(self).is_server ==> !(final(self).state is Ready) || old(self).state is Ready"),
       ("C06:client_ready_only_on_welcome", "!old(self).is_server && r is Ok ==> old(self).state is ClientExpectWelcome && final(self).state is Ready"),
     ],
     extra=SELFC + [("R5", "Self::CMD_WELCOME", "CMD_WELCOME", 1), ("R5", "Self::CMD_ERROR", "CMD_ERROR", 1),
            ("R5", "Self::parse_hello_body(body)", "PlainMechanism::parse_hello_body(body)", 1),
            ("R8", "command_name == CMD_HELLO", "verif_slice_eq(command_name, CMD_HELLO)", 1),
            ("R8", "command_name == CMD_WELCOME", "verif_slice_eq(command_name, CMD_WELCOME)", 1),
            ("R8", "command_name == CMD_ERROR", "verif_slice_eq(command_name, CMD_ERROR)", 1),
            ("R8", re.compile(r"self\s*\.expected_username\s*\.as_ref\(\)\s*\.map_or\(false, \|u\| u == &username\)", re.S), "verif_opt_vec_eq(&self.expected_username, &username)", 1),
            ("R8", re.compile(r"self\s*\.expected_password\s*\.as_ref\(\)\s*\.map_or\(false, \|p\| p == &password\)", re.S), "verif_opt_vec_eq(&self.expected_password, &password)", 1),
            ("R2", 'let msg = "Invalid username or password";', "let msg = 0u8;", 1),
            ("R2", "self.set_error_internal(msg.into());", "self.set_error_internal(verif_fmt());", 1),
            ("R2", "Err(ZmqError::AuthenticationFailure(msg.into()))", "Err(ZmqError::AuthenticationFailure(verif_fmt()))", 1),
            ("R2", "let reason = String::from_utf8_lossy(body).to_string();", "let reason = verif_fmt();", 1),
            ("R2", "Err(ZmqError::AuthenticationFailure(reason))", "Err(ZmqError::AuthenticationFailure(verif_fmt()))", 1)]),
  Fn(PL, "create_hello_body", impl=IMPL, emit_impl="impl PlainMechanism",
     ensures=[("C05+C07:hello_body_wellformed", "hello_ok(r@)"),
              ("C05:hello_carries_credentials", "username@.len() <= 255 && password@.len() <= 255 ==> hello_user(r@) == username@ && hello_pass(r@) == password@")],
     extra=[("R8", "username.len().min(255)", "verif_min_usize(username.len(), 255)", 1),
            ("R8", "password.len().min(255)", "verif_min_usize(password.len(), 255)", 1),
            ("R6", "&username[..user_len as usize]", "verif_slice_prefix(username, user_len as usize)", 1),
            ("R6", "&password[..pass_len as usize]", "verif_slice_prefix(password, pass_len as usize)", 1),
            ("R6", "body.to_vec()", "body.verif_to_vec()", 1)],
     hints=[("ext", "re:body\\.verif_to_vec\\(\\)", 0, "before",
             "proof { let b = body@; assert(b[0] == user_len); assert(b.subrange(1, 1 + user_len as int) =~= username@.subrange(0, user_len as int)); "
             "assert(b[1 + user_len as int] == pass_len); assert(b.subrange(2 + user_len as int, 2 + user_len as int + pass_len as int) =~= password@.subrange(0, pass_len as int)); "
             "if username@.len() <= 255 { assert(username@.subrange(0, user_len as int) =~= username@); } if password@.len() <= 255 { assert(password@.subrange(0, pass_len as int) =~= password@); } }")]),
  Fn(PL, "produce_token", impl=TIMPL, emit_impl="impl PlainMechanism", safety_props=["C06", "C07"],
     requires=["old(self).inv()"],
     ensures=[
       ("C06:inv", "final(self).inv()"),
       ("C06:config_frame", "final(self).is_server == old(self).is_server && final(self).expected_username == old(self).expected_username && final(self).expected_password == old(self).expected_password"),
       # on the server, Ready (= is_complete) is reachable only from ServerSendWelcome, i.e. after an accepted HELLO
       ("C06:server_ready_only_after_accepted_hello", "final(self).is_server && (final(self).state is Ready) ==> (old(self).state is ServerSendWelcome) || (old(self).state is Ready)"),
       ("C07:ok", "r is Ok"),
     ],
     extra=SELFC + [("R5", "Self::CMD_WELCOME", "CMD_WELCOME", 1),
            ("R8", 'self.username.as_deref().unwrap_or(&[0u8; 0])', "verif_opt_as_slice(&self.username)", 1),
            ("R8", 'self.password.as_deref().unwrap_or(&[0u8; 0])', "verif_opt_as_slice(&self.password)", 1),
            ("R5", "Self::create_hello_body(", "PlainMechanism::create_hello_body(", 1),
            ("R6", "frame.put_slice(&body);", "frame.put_slice(body.as_slice());", 1),
            ("R6", "frame.to_vec()", "frame.verif_to_vec()", 2)]),
  Fn(PL, "status", impl=TIMPL, emit_impl="impl PlainMechanism",
     ensures=[("C06:ready_iff_state_ready", "(r is Ready) <==> (self.state is Ready)"), ("C06:error_iff_state_error", "(r is Error) <==> (self.state is Error)")]),
  Fn(ME, "is_complete", impl=r"trait\s+Mechanism\b", emit_impl="impl PlainMechanism",
     ensures=[("C06:complete_iff_ready", "r == (self.state is Ready)")]),
]

FNS = {p.name: p for p in parts if isinstance(p, Fn)}
unit = Unit("plain", ["C05", "C06", "C07"], parts, safety_props=["C07"], notes="PLAIN mechanism")
