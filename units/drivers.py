"""U-drivers: the two hand-written futures of the session actor, EgressDriver::poll (sessionx/egress_driver.rs) and
IngressDriver::poll (sessionx/ingress_future.rs).  Both are polled inside tokio::select! and dropped whenever another arm
wins, so every exit of poll() -- Ready AND Pending -- is a cancellation point (C09) and must leave the durable state consistent (C01):

  EgressDriver: bytes written to the socket so far ++ bytes still pending in the EgressBuffer is the same byte string at every exit
     (a partial write advances the buffer by exactly the number of bytes the socket took: nothing lost, nothing sent twice);
     Ready(Ok) only when the buffer is empty (and flushed).
  IngressDriver: batches handed to the socket's pipe so far ++ batches still in ingress_buffer is the same sequence at every exit,
     except that a batch whose asynchronous send is IN FLIGHT is still in the buffer (it is popped only when that send completes), so
     dropping the driver at Pending neither loses nor duplicates it.

Pin / Context / Poll plumbing is rewritten to plain calls on stand-ins (declared R8 rules); the control flow -- loop, early returns,
the order of advance / pop_front relative to the polls -- is the verbatim text.
"""
import re
from vlib.vx import Fn, Item, Raw, Region, Scan
from vlib.runner import Unit

ED = "core/src/sessionx/egress_driver.rs"
IF = "core/src/sessionx/ingress_future.rs"

GLUE = """
use std::collections::VecDeque;
pub assume_specification<T, A: core::alloc::Allocator>[ VecDeque::<T, A>::front ](v: &VecDeque<T, A>) -> (r: Option<&T>)
  ensures v@.len() == 0 ==> r is None, v@.len() > 0 ==> r == Some(&v@[0]);
pub enum Poll<T> { Ready(T), Pending }
pub struct Context { pub x: u8 }     // std::task::Context: only handed on
pub struct IoErr { pub x: u8 }
impl ZmqError { #[verifier::external_body] pub fn from_io_endpoint(e: IoErr, what: &str) -> ZmqError { unimplemented!() } }
// ---------------------------------------------------------------- egress
// std::io::IoSlice: the bytes it points at
#[derive(Clone, Copy)]
pub struct IoSlice { pub b: Ghost<Seq<u8>> }
impl IoSlice { #[verifier::external_body] pub fn new(d: &[u8]) -> (r: IoSlice) ensures r.b@ == d@ { unimplemented!() } }
pub open spec fn concat(s: Seq<IoSlice>, k: int) -> Seq<u8> decreases k { if k <= 0 { Seq::<u8>::empty() } else { concat(s, k - 1) + s[k - 1].b@ } }
// EgressBuffer (proved in unit egress: advance drops exactly n bytes from the front, is_empty <=> nothing pending)
pub struct EgressBuffer { pub pending: Ghost<Seq<u8>> }
impl EgressBuffer {
  #[verifier::external_body] pub fn is_empty(&self) -> (r: bool) ensures r == (self.pending@.len() == 0) { unimplemented!() }
  #[verifier::external_body]
  pub fn advance(&mut self, n: usize) -> (r: usize)
    requires n <= old(self).pending@.len()
    ensures final(self).pending@ == old(self).pending@.skip(n as int)
  { unimplemented!() }
  // R8: `fill_slices(&mut slices[..max])`: up to `max` slices that, concatenated, are a prefix of the pending bytes (assumed contract of fill_slices)
  #[verifier::external_body]
  pub fn verif_fill(&self, out: &mut [IoSlice; 64], max: usize) -> (r: usize)
    requires max <= 64
    ensures r <= max, concat(final(out)@, r as int).len() <= self.pending@.len(), concat(final(out)@, r as int) =~= self.pending@.subrange(0, concat(final(out)@, r as int).len() as int),
  { unimplemented!() }
  #[verifier::external_body] pub fn pending_messages(&self) -> usize { unimplemented!() }
  #[verifier::external_body] pub fn peak_messages(&self) -> usize { unimplemented!() }
  #[verifier::external_body] pub fn peak_bytes(&self) -> usize { unimplemented!() }
}
// the transport's write half: ghost `written` = every byte the socket has accepted, in order
pub struct WriteHalf { pub written: Ghost<Seq<u8>> }
impl WriteHalf {
  // R8: Pin::new(&mut *w).poll_write_vectored(cx, &slices[..count]) -- AsyncWrite: Ok(n) means the first n bytes of the slices were taken
  #[verifier::external_body]
  pub fn verif_poll_write_vectored(&mut self, cx: &mut Context, slices: &[IoSlice; 64], count: usize) -> (r: Poll<Result<usize, IoErr>>)
    requires count <= 64
    ensures r matches Poll::Ready(Ok(n)) ==> n <= concat(slices@, count as int).len() && final(self).written@ == old(self).written@ + concat(slices@, count as int).subrange(0, n as int),
      !(r matches Poll::Ready(Ok(_))) ==> final(self).written@ == old(self).written@,
  { unimplemented!() }
  #[verifier::external_body]
  pub fn verif_poll_flush(&mut self, cx: &mut Context) -> (r: Poll<Result<(), IoErr>>)
    ensures final(self).written@ == old(self).written@
  { unimplemented!() }
}
pub struct EgressDriver<'a> { pub write_half: &'a mut WriteHalf, pub egress_buffer: &'a mut EgressBuffer, pub max_iovecs: usize, pub actor_handle: usize }
pub open spec fn wire(d: &EgressDriver) -> Seq<u8> { d.write_half.written@ + d.egress_buffer.pending@ }
// ---------------------------------------------------------------- ingress
// the asynchronous send of ONE batch into the socket's pipe (PipeMessageSender::send(..), boxed and polled by hand): `item` = the batch it carries
pub struct SendFut { pub item: Ghost<Seq<Msg>> }
impl SendFut {
  pub fn as_mut(&mut self) -> (r: &mut SendFut) ensures *r == *old(self), *final(self) == *final(r) { self }
  #[verifier::external_body]
  pub fn poll(&mut self, cx: &mut Context) -> (r: Poll<Result<(), ZmqError>>) ensures final(self).item == old(self).item { unimplemented!() }
}
#[verifier::external_body]
pub struct PipeMessageSender { x: u8 }
impl PipeMessageSender {
  // coalesced push (proved shape in the plan's U-ingress-batch: the k oldest batches leave the front, in order, exactly those that were delivered)
  #[verifier::external_body]
  pub fn try_send_batch(&self, buf: &mut VecDeque<FrameBatch>) -> (r: usize)
    ensures is_suffix(final(buf)@, old(buf)@), r <= 0xFFFF_FFFF_FFFF
  { unimplemented!() }
  #[verifier::external_body]
  pub fn send(&self, item: FrameBatch) -> (r: SendFut) ensures r.item@ == item@ { unimplemented!() }
}
// R8: `this.fut.as_mut().unwrap().as_mut().poll(cx)`: poll the boxed in-flight future in place (Option / Pin plumbing)
pub fn verif_poll_in_flight(f: &mut Option<SendFut>, cx: &mut Context) -> (r: Poll<Result<(), ZmqError>>)
  requires *old(f) is Some
  ensures *final(f) is Some, final(f)->0.item == old(f)->0.item
{
  match f { Some(x) => x.poll(cx), None => Poll::Pending }
}
// R8: `for batch in this.ingress_buffer.drain(..) { total_sent += batch.len(); }` (send-only sockets discard what they receive)
#[verifier::external_body]
pub fn verif_drain_count(buf: &mut VecDeque<FrameBatch>) -> (r: usize) ensures final(buf)@.len() == 0, r <= 0xFFFF_FFFF_FFFF { unimplemented!() }
pub open spec fn is_suffix(a: Seq<FrameBatch>, b: Seq<FrameBatch>) -> bool { exists|k: int| 0 <= k <= b.len() && a =~= #[trigger] b.skip(k) }
pub proof fn lemma_suffix_refl(a: Seq<FrameBatch>) ensures is_suffix(a, a) { assert(a =~= a.skip(0)); }
pub proof fn lemma_suffix_trans(a: Seq<FrameBatch>, b: Seq<FrameBatch>, c: Seq<FrameBatch>)
  requires is_suffix(a, b), is_suffix(b, c) ensures is_suffix(a, c)
{
  let k1 = choose|k: int| 0 <= k <= b.len() && a =~= #[trigger] b.skip(k);
  let k2 = choose|k: int| 0 <= k <= c.len() && b =~= #[trigger] c.skip(k);
  assert(a =~= c.skip(k1 + k2));
}
pub proof fn lemma_suffix_pop(a: Seq<FrameBatch>) requires a.len() > 0 ensures is_suffix(a.skip(1), a) { }
pub struct IngressDriver<'a> { pub sender_opt: Option<&'a PipeMessageSender>, pub ingress_buffer: &'a mut VecDeque<FrameBatch>, pub fut: Option<SendFut> }
impl<'a> IngressDriver<'a> {
  // invariant of the driver between polls (and what a dropped driver leaves behind): an in-flight send carries the batch that is STILL at the front
  pub open spec fn inv(&self) -> bool { self.fut matches Some(f) ==> self.ingress_buffer@.len() > 0 && self.ingress_buffer@[0]@ == f.item@ }
}
pub fn verif_min(a: usize, b: usize) -> (r: usize) ensures r == (if a <= b { a } else { b }) { if a <= b { a } else { b } }
"""

E_RULES = [
  ("R5", "let this = self.get_mut();", "let this = self;", 1),
  ("R8", "Pin::new(&mut *this.write_half).poll_flush(cx)", "this.write_half.verif_poll_flush(cx)", 1),
  ("R8", "let dummy = &[];", "let dummy: &[u8] = verif_empty();", 1),
  ("R8", "[std::io::IoSlice::new(dummy); 64]", "[IoSlice::new(dummy); 64]", 1),
  ("R8", "this.max_iovecs.min(64)", "verif_min(this.max_iovecs, 64)", 1),
  ("R8", "this.egress_buffer.fill_slices(&mut slices[..max_slices])", "this.egress_buffer.verif_fill(&mut slices, max_slices)", 1),
  ("R8", "Pin::new(&mut *this.write_half).poll_write_vectored(cx, &slices[..count])", "this.write_half.verif_poll_write_vectored(cx, &slices, count)", 1),
]

parts = [
  Raw("prelude/core.rs"),
  Raw("prelude/std.rs"),
  Raw("prelude/bytes.rs"),
  Raw("prelude/msg.rs"),
  Raw("prelude/framebatch.rs"),
  Raw(text=GLUE + "\n#[verifier::external_body]\npub fn verif_empty() -> (r: &'static [u8]) ensures r@.len() == 0 { unimplemented!() }\n", label="drivers-glue"),
  Fn(ED, "poll", impl=r"impl<'a, W: ZmtpWriteHalf> Future for EgressDriver<'a, W>", emit_impl="impl<'a> EgressDriver<'a>",
     sig_sub=[("self: Pin<&mut Self>", "&mut self"), ("cx: &mut Context<'_>", "cx: &mut Context"), ("Poll<Self::Output>", "Poll<Result<(), ZmqError>>")],
     attrs=["#[verifier::loop_isolation(false)]"], rename="EgressDriver::poll",
     ensures=[
       ("C01+C09:written_plus_pending_is_unchanged_at_every_exit_including_Pending", "wire(final(self)) =~= wire(old(self))"),
       ("C01:ready_ok_only_when_everything_is_written", "r matches Poll::Ready(Ok(_)) ==> final(self).egress_buffer.pending@.len() == 0"),
     ],
     loops={0: {"invariant": [("C01:loop", "this.write_half.written@ + this.egress_buffer.pending@ =~= wire(old(self))")],
                "decreases": "this.egress_buffer.pending@.len()"}},
     hints=[("adv", "re:let popped_msgs = this\\.egress_buffer\\.advance\\(n\\);", 0, "after",
             "proof { assert(this.egress_buffer.pending@.len() < pend0.len()); assert(this.write_half.written@ + this.egress_buffer.pending@ =~= wr0 + pend0); }"),
            ("snap", "@loop_start:0", 0, "", "let ghost pend0 = this.egress_buffer.pending@; let ghost wr0 = this.write_half.written@;")],
     extra=E_RULES),
  Fn(IF, "poll", impl=r"impl<'a> Future for IngressDriver<'a>", emit_impl="impl<'a> IngressDriver<'a>",
     sig_sub=[("self: Pin<&mut Self>", "&mut self"), ("cx: &mut Context<'_>", "cx: &mut Context"), ("Poll<Self::Output>", "Poll<Result<usize, ZmqError>>")],
     rename="IngressDriver::poll",
     requires=["old(self).inv()"],
     ensures=[
       ("C01+C09:an_in_flight_send_always_carries_the_batch_still_at_the_front_at_every_exit", "final(self).inv()"),
       ("C01:batches_leave_the_buffer_only_from_the_front_in_order", "is_suffix(final(self).ingress_buffer@, old(self).ingress_buffer@)"),
     ],
     hints=[("k0", "@fn_start", 0, "", "proof { lemma_suffix_refl(self.ingress_buffer@); }"),
            ("pop1", "re:let batch = this\\.ingress_buffer\\.pop_front\\(\\)\\.unwrap\\(\\);", 0, "after", "proof { lemma_suffix_pop(old(self).ingress_buffer@); assert(this.ingress_buffer@ =~= old(self).ingress_buffer@.skip(1)); }"),
            ("b1", "re:match this\\.sender_opt \\{", 0, "before", "let ghost b1 = this.ingress_buffer@; proof { assert(is_suffix(b1, old(self).ingress_buffer@)); assert(this.fut is None); }"),
            ("b2", "re:if let Some\\(blocked\\) = this\\.ingress_buffer\\.front\\(\\) \\{", 0, "before", "let ghost b2 = this.ingress_buffer@; proof { lemma_suffix_trans(b2, b1, old(self).ingress_buffer@); }"),
            ("pop2", "re:let sent = this\\.ingress_buffer\\.pop_front\\(\\)\\.unwrap\\(\\);", 0, "after", "proof { lemma_suffix_pop(b2); assert(this.ingress_buffer@ =~= b2.skip(1)); lemma_suffix_trans(this.ingress_buffer@, b2, old(self).ingress_buffer@); }"),
            ("dr", "re:total_sent \\+= verif_drain_count", 0, "after", "proof { assert(this.ingress_buffer@ =~= old(self).ingress_buffer@.skip(old(self).ingress_buffer@.len() as int)); }")],
     extra=[("R5", "let this = self.get_mut();", "let this = self;", 1),
            ("R8", "Some(Box::pin(fut))", "Some(fut)", 1),
            ("R8", "this.fut.as_mut().unwrap().as_mut().poll(cx)", "verif_poll_in_flight(&mut this.fut, cx)", 1),
            ("R8", re.compile(r"for batch in this\.ingress_buffer\.drain\(\.\.\) \{\s*total_sent \+= batch\.len\(\);\s*\}", re.S), "total_sent += verif_drain_count(this.ingress_buffer);", 1)]),
]

FNS = {p.name: p for p in parts if isinstance(p, Fn)}
unit = Unit("drivers", ["C01", "C09"], parts, safety_props=["C01"], notes="EgressDriver::poll / IngressDriver::poll: consistent at every exit")
