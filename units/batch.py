"""U-batch (R7 regions): the two batch-assembly regions of SessionConnectionActorX::run_loop (sessionx/actor.rs) and the
select! guard of the core-pipe arm.  State: `core_carryover` (messages already taken from the core pipe but not yet framed),
the core pipe itself (ghost queue), and the batch being assembled.  FIFO obligation for every region:

    batch' ++ carryover' ++ pipe'  ==  carryover ++ pipe          (carry-over arm)
    batch' ++ carryover' ++ pipe'  ==  [first] ++ pipe            (pipe arm, entered only when carryover is empty)

so what is framed next is always the oldest accepted messages, in order, and nothing is dropped or duplicated."""
import re
from vlib.vx import Fn, Item, Raw, Region
from vlib.runner import Unit

ACT = "core/src/sessionx/actor.rs"
TYPES = "core/src/sessionx/types.rs"
IMPL = r"impl<S>\s+SessionConnectionActorX<S>"

ENV = """
use std::collections::VecDeque;

// opaque: batch assembly moves FrameBatch values around and never looks inside them
#[verifier::external_body]
pub struct FrameBatch { _p: u8 }

// the four fields of ZmtpEngineConfig read by the regions (stand-in; field names as in socket/options.rs)
pub struct ZmtpEngineConfig { pub sndhwm: usize, pub sndbatch_count: usize, pub sndbatch_bytes: usize, pub sndbatch_bytes_physical: usize }
pub struct ZmtpEngine { pub config: ZmtpEngineConfig }
impl ZmtpEngine { pub fn config(&self) -> (r: &ZmtpEngineConfig) ensures *r == self.config { &self.config } }

// CorePipeManagerX: the receiving end of the core->session pipe, modelled by the ghost sequence of messages queued in it.
// ASSUMED contract of try_recv_batch_from_core (fibre::mpsc::AsyncReceiver::try_recv_batch_mut): moves the r <= max oldest
// queued messages, in order, to the back of `out`.
pub struct PipeState { pub is_attached: bool }
pub struct CorePipeManagerX { pub state: PipeState, pub queue: Ghost<Seq<FrameBatch>> }
impl CorePipeManagerX {
  #[verifier::external_body]
  pub fn try_recv_batch_from_core(&mut self, out: &mut Vec<FrameBatch>, max: usize) -> (r: usize)
    ensures r <= max, r <= old(self).queue@.len(),
      final(out)@ =~= old(out)@ + old(self).queue@.subrange(0, r as int),
      final(self).queue@ =~= old(self).queue@.subrange(r as int, old(self).queue@.len() as int),
      final(self).state == old(self).state,
  { unimplemented!() }
}

// EgressBuffer::pending_messages is proved in unit `egress` (value == message_count)
pub struct EgressBuffer { pub message_count: usize }
impl EgressBuffer { pub fn pending_messages(&self) -> (r: usize) ensures r == self.message_count { self.message_count } }

pub struct SessionConnectionActorX { pub zmtp_engine: ZmtpEngine, pub core_pipe_manager: CorePipeManagerX, pub current_phase: ConnectionPhaseX }

// R8: the closure `|msgs: &FrameBatch| msgs.iter().map(|m| m.size() + 9).sum::<usize>()` (iterator adapters).  Its value is
// left uninterpreted; ASSUMED: the wire size of one in-memory message is below 2^48 bytes.
#[verifier::external_body]
pub fn verif_wire_size(msgs: &FrameBatch) -> (r: usize) ensures r < 0x1_0000_0000_0000 { unimplemented!() }

pub fn verif_max(a: usize, b: usize) -> (r: usize) ensures r == (if a >= b { a } else { b }) { if a >= b { a } else { b } }
pub fn verif_min_usize(a: usize, b: usize) -> (r: usize) ensures r == (if a <= b { a } else { b }) { if a <= b { a } else { b } }

// R8: `dq.extend(v.drain(i..))` -- std semantics: the elements v[i..] leave v and are appended to dq in order
#[verifier::external_body]
pub fn verif_extend_drain(dq: &mut VecDeque<FrameBatch>, v: &mut Vec<FrameBatch>, i: usize)
  requires i <= old(v)@.len(),
  ensures final(v)@ =~= old(v)@.subrange(0, i as int), final(dq)@ =~= old(dq)@ + old(v)@.subrange(i as int, old(v)@.len() as int),
{ unimplemented!() }

pub assume_specification<T, A: core::alloc::Allocator>[ VecDeque::<T, A>::is_empty ](v: &VecDeque<T, A>) -> (r: bool)
  ensures r == (v@.len() == 0);

pub open spec fn cap48() -> int { 0x1_0000_0000_0000 }
pub open spec fn lim(max_bytes: usize) -> int { if max_bytes as int >= cap48() { max_bytes as int } else { cap48() } }
"""

WIRE = [
  ("R8", re.compile(r"let wire_size = \|msgs: &FrameBatch\|[^;]*;"), "", 1),
  ("R8", re.compile(r"(?<![A-Za-z0-9_])wire_size\("), "verif_wire_size(", 2),
  ("R8", "core_carryover.extend(outgoing_batch.drain(i..));", "verif_extend_drain(&mut core_carryover, &mut outgoing_batch, i);", 1),
  ("R8", re.compile(r"\(max_count - start_len\)\.min\(needed_by_bytes\)"), "verif_min_usize(max_count - start_len, needed_by_bytes)", 1),
]

CFG_REQ = ["old(self).zmtp_engine.config.sndbatch_bytes_physical <= 0x4000_0000_0000_0000"]

TOPUP_LOOP = {
  "invariant": [
    "start_len <= i <= outgoing_batch@.len()",
    "i == 0 ==> total_bytes == 0", "total_bytes <= lim(max_bytes)", "max_bytes <= 0x4000_0000_0000_0000",
  ],
  "invariant_except_break": [
    ("C01:topup_only_when_carryover_empty", "core_carryover@.len() == 0"),
    ("C01:topup_keeps_fifo", "outgoing_batch@ + self.core_pipe_manager.queue@ =~= all"),
  ],
  "ensures": [("C01:overflow_goes_to_carryover_in_order", "outgoing_batch@ + core_carryover@ + self.core_pipe_manager.queue@ =~= all")],
  "decreases": "outgoing_batch@.len() - i",
}

parts = [
  Item(TYPES, "enum", "ConnectionPhaseX", keep_derive=("Clone", "Copy", "PartialEq", "Eq")),
  Raw(text=ENV, label="batch-env"),
  # ---- carry-over arm: from `outgoing_batch.clear()` to just before the counter/throttle/framing tail
  Region(ACT, "batch_from_carryover", "run_loop", r"outgoing_batch\.clear\(\);", r"if !outgoing_batch\.is_empty\(\) \{",
         sig="fn batch_from_carryover(&mut self, outgoing_batch0: Vec<FrameBatch>, core_carryover0: VecDeque<FrameBatch>, egress_buffer: &EgressBuffer, sndhwm: usize) -> (r: (Vec<FrameBatch>, VecDeque<FrameBatch>))",
         head="let mut outgoing_batch = outgoing_batch0; let mut core_carryover = core_carryover0;\nlet ghost all = core_carryover0@ + self.core_pipe_manager.queue@; let ghost q0 = self.core_pipe_manager.queue@;",
         tail="(outgoing_batch, core_carryover)",
         start_occ=0, impl=IMPL, emit_impl="impl SessionConnectionActorX",
         requires=CFG_REQ,
         ensures=[
           ("C01:fifo_preserved", "r.0@ + r.1@ + final(self).core_pipe_manager.queue@ =~= core_carryover0@ + old(self).core_pipe_manager.queue@"),
           ("C01:progress", "core_carryover0@.len() > 0 && old(self).zmtp_engine.config.sndbatch_count > 0 ==> r.0@.len() > 0"),
           ("C14:batch_count_bounded", "r.0@.len() <= old(self).zmtp_engine.config.sndbatch_count"),
           ("C01:frame", "final(self).zmtp_engine == old(self).zmtp_engine && final(self).current_phase == old(self).current_phase"),
         ],
         extra=WIRE + [
           ("R8", re.compile(r"sndhwm\s*\.saturating_sub\(egress_buffer\.pending_messages\(\)\)\s*\.max\(1\)"), "verif_max(sndhwm.saturating_sub(egress_buffer.pending_messages()), 1)", 1),
           ("R8", "self.zmtp_engine.config().sndbatch_count.min(hwm_budget)", "verif_min_usize(self.zmtp_engine.config().sndbatch_count, hwm_budget)", 1),
         ],
         loops={
           0: {"invariant": [
                 ("C01:drain_keeps_fifo", "outgoing_batch@ + core_carryover@ =~= core_carryover0@"),
                 "self.core_pipe_manager.queue@ == q0", "self.zmtp_engine == old(self).zmtp_engine", "self.current_phase == old(self).current_phase",
                 "outgoing_batch@.len() == 0 ==> total_bytes == 0", "total_bytes <= lim(max_bytes)", "max_bytes <= 0x4000_0000_0000_0000",
                 "outgoing_batch@.len() <= max_count",
                 "core_carryover0@.len() > 0 && max_count > 0 && outgoing_batch@.len() == 0 ==> core_carryover@.len() > 0",
               ],
               "ensures": [("C01:drain_makes_progress", "core_carryover0@.len() > 0 && max_count > 0 ==> outgoing_batch@.len() > 0")],
               "decreases": "core_carryover@.len()"},
           1: dict(TOPUP_LOOP, invariant=TOPUP_LOOP["invariant"] + ["self.zmtp_engine == old(self).zmtp_engine", "self.current_phase == old(self).current_phase", "outgoing_batch@.len() <= max_count", "start_len > 0 ==> outgoing_batch@.len() > 0"]),
         }),
  # ---- core-pipe arm: guard of the select! branch
  Region(ACT, "pipe_arm_guard", "run_loop", r"maybe_msgs_from_core = async \{ self\.core_pipe_manager\.recv_from_core\(\)\.await \},\s*if ", r"=> \{",
         sig="fn pipe_arm_guard(&self, core_carryover: &VecDeque<FrameBatch>, use_owned_write: bool, pending_vectored: &VecDeque<Vec<u8>>, egress_buffer: &EgressBuffer, sndhwm: usize) -> (r: bool)",
         expr=True, impl=IMPL, emit_impl="impl SessionConnectionActorX",
         ensures=[
           ("C01:pipe_read_only_when_carryover_empty", "r ==> core_carryover@.len() == 0"),
           ("C14:pipe_read_only_below_sndhwm", "r && !use_owned_write ==> egress_buffer.message_count < sndhwm"),
           ("C14:pipe_read_only_when_previous_batch_written", "r && use_owned_write ==> pending_vectored@.len() == 0"),
         ],
         extra=[("R8", "self.core_pipe_manager.is_attached()", "self.core_pipe_manager.state.is_attached", 1)]),
  # ---- core-pipe arm: batch assembly
  Region(ACT, "batch_from_pipe", "run_loop", r"outgoing_batch\.clear\(\);", r"if !outgoing_batch\.is_empty\(\) \{",
         sig="fn batch_from_pipe(&mut self, first_msgs: FrameBatch, outgoing_batch0: Vec<FrameBatch>, core_carryover0: VecDeque<FrameBatch>, egress_buffer: &EgressBuffer, sndhwm: usize) -> (r: (Vec<FrameBatch>, VecDeque<FrameBatch>))",
         head="let mut outgoing_batch = outgoing_batch0; let mut core_carryover = core_carryover0;\nlet ghost all = seq![first_msgs] + self.core_pipe_manager.queue@;",
         tail="(outgoing_batch, core_carryover)",
         start_occ=1, impl=IMPL, emit_impl="impl SessionConnectionActorX",
         requires=CFG_REQ + ["core_carryover0@.len() == 0"],
         ensures=[
           ("C01:fifo_preserved", "r.0@ + r.1@ + final(self).core_pipe_manager.queue@ =~= seq![first_msgs] + old(self).core_pipe_manager.queue@"),
           ("C01:progress", "r.0@.len() > 0 && r.0@[0] == first_msgs"),
         ],
         extra=WIRE + [
           ("R8", re.compile(r"self\s*\.zmtp_engine\s*\.config\(\)\s*\.sndbatch_count\s*\.min\(hwm_budget\.max\(1\)\)"),
            "verif_min_usize(self.zmtp_engine.config().sndbatch_count, verif_max(hwm_budget, 1))", 1),
         ],
         loops={0: dict(TOPUP_LOOP, invariant=TOPUP_LOOP["invariant"] + ["start_len == 1", "outgoing_batch@.len() > 0 && outgoing_batch@[0] == first_msgs"])}),
]

unit = Unit("batch", ["C01", "C14"], parts, safety_props=["C01"],
            notes="batch assembly regions of run_loop: FIFO over carry-over + core pipe",
            trusted_note="contract of try_recv_batch_from_core (fibre channel: oldest r<=max messages, in order); std drain/extend; per-message wire size < 2^48 and sndbatch_bytes_physical <= 2^62 (machine arithmetic); the select!/loop structure around the regions and the hand-over of the region results to the same locals are not verified")
