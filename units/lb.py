"""U-lb: LoadBalancer (socket/patterns/load_balancer.rs): exact round-robin reference, cursor repair on removal,
no duplicates -- for every history of add/remove/get (representation invariant induction).
Lock model (R6): every method takes `self.state.lock()` once at its start and holds the guard to its end, so each
method is one critical section; it is verified as a `&mut` operation on the protected BalancerState."""
import re
from vlib.vx import Fn, Item, Raw
from vlib.runner import Unit

LB = "core/src/socket/patterns/load_balancer.rs"
IMPL = r"impl\s+LoadBalancer\b"

GLUE = """
use std::sync::Arc;
// connection interface: opaque here (sending is U-route's business)
pub trait ISocketConnection {}
// tokio::sync::Notify with a ghost count of the two kinds of wake-up: notify_waiters() wakes EVERY task parked in notified(),
// notify_one() at most one.  (R5: the field is Arc<Notify>; the stand-in is held by value so that the ghost counters can be updated.)
pub struct Notify { pub woke_all: Ghost<nat>, pub woke_one: Ghost<nat> }
impl Notify {
  pub fn notify_waiters(&mut self) ensures final(self).woke_all@ == old(self).woke_all@ + 1, final(self).woke_one@ == old(self).woke_one@
  { proof { self.woke_all = Ghost((self.woke_all@ + 1) as nat); } }
  pub fn notify_one(&mut self) ensures final(self).woke_one@ == old(self).woke_one@ + 1, final(self).woke_all@ == old(self).woke_all@
  { proof { self.woke_one = Ghost((self.woke_one@ + 1) as nat); } }
}
#[verifier::external_body]
pub struct AtomicBool { x: u8 }
#[verifier::external_body]
pub struct MemOrdering { x: u8 }
impl AtomicBool { #[verifier::external_body] pub fn load(&self, o: MemOrdering) -> bool { unimplemented!() } }
#[verifier::external_body]
pub fn verif_acquire() -> MemOrdering { unimplemented!() }
// ---- no-lost-wake-up model for wait_for_connection (as in unit routerrecv): `epoch` counts the peers added so far (other tasks bump it
// at any time), a subscription remembers the epoch at which it was made, the emptiness check remembers the epoch at which it looked.
// Parking is safe only on a subscription made (and enabled) no later than the check that found no peer: notify_waiters() stores no permit.
pub struct Notified { pub since: Ghost<nat>, pub enabled: Ghost<bool> }
impl Notified {
  // R8: notified.as_mut().enable()
  pub fn verif_enable(&mut self) ensures final(self).since == old(self).since, final(self).enabled@ { proof { self.enabled = Ghost(true); } }
}
#[verifier::external_body]
pub async fn verif_wait_notified(n: &mut Notified, lb: &LoadBalancer) -> (r: ())
  requires old(n).since@ <= lb.checked_at@     // subscribed no later than the check (tokio: a Notified receives notify_waiters() from its creation on)
{ unimplemented!() }

pub open spec fn uris(ps: Seq<Arc<Peer>>) -> Seq<Seq<char>> { ps.map_values(|p: Arc<Peer>| p.uri@) }
pub open spec fn no_dup(s: Seq<Seq<char>>) -> bool { forall|i: int, j: int| 0 <= i < j < s.len() ==> s[i] != s[j] }

// R8: `peers.iter().any(|p| p.uri == u)` / `peers.iter().position(|p| p.uri == u)`
#[verifier::external_body]
pub fn verif_any_uri(ps: &Vec<Arc<Peer>>, u: &String) -> (r: bool)
  ensures r == uris(ps@).contains(u@)
{ unimplemented!() }
#[verifier::external_body]
pub fn verif_position_uri(ps: &Vec<Arc<Peer>>, u: &str) -> (r: Option<usize>)
  ensures
    r matches Some(i) ==> i < ps@.len() && uris(ps@)[i as int] == u@ && (forall|j: int| 0 <= j < i ==> uris(ps@)[j] != u@),
    r is None ==> !uris(ps@).contains(u@),
{ unimplemented!() }

impl LoadBalancer {
  // R8: `notify.notified()`
  #[verifier::external_body]
  pub fn verif_notified(&mut self) -> (n: Notified)
    ensures n.since@ == final(self).epoch@, !n.enabled@, final(self).epoch@ >= old(self).epoch@, final(self).state == old(self).state, final(self).checked_at == old(self).checked_at
  { unimplemented!() }
  // R6/R8: `self.state.lock().peers.is_empty()` -- one critical section; remembers when it looked (peers may be added at any time: epoch moves on)
  #[verifier::external_body]
  pub fn verif_peers_empty(&mut self) -> (r: bool)
    ensures r == (final(self).state.peers@.len() == 0), final(self).epoch@ >= old(self).epoch@, final(self).checked_at@ == final(self).epoch@
  { unimplemented!() }
}
impl BalancerState {
  pub open spec fn wf(&self) -> bool {
    &&& no_dup(uris(self.peers@))
    &&& (self.peers@.len() == 0 ==> self.next_idx == 0)
    &&& (self.peers@.len() > 0 ==> self.next_idx < self.peers@.len())
  }
}
"""

# R6 lock model, applied to every method
LOCK = [("R6", "let mut state = self.state.lock();", "", 1), ("R6", re.compile(r"\bstate\."), "self.state.", "+")]
SIG = [("&self", "&mut self")]

parts = [
  Raw("prelude/core.rs"),
  Raw("prelude/std.rs"),
  Item(LB, "struct", "Peer"),
  Item(LB, "struct", "BalancerState"),
  Item(LB, "struct", "LoadBalancer", extra=[("R6", "state: Mutex<BalancerState>", "state: BalancerState", 1), ("R5", "std::sync::atomic::AtomicBool", "AtomicBool", 1),
                                           ("R5", "notify_waiters: Arc<Notify>", "notify_waiters: Notify, pub epoch: Ghost<nat>, pub checked_at: Ghost<nat>", 1)]),
  Raw(text=GLUE, label="lb-glue"),
  Fn(LB, "add_connection", impl=IMPL, emit_impl="impl LoadBalancer", sig_sub=SIG,
     requires=["old(self).state.wf()"],
     ensures=[
       ("C13:wf", "final(self).state.wf()"),
       ("C13:joins_at_the_end_once", "!uris(old(self).state.peers@).contains(endpoint_uri@) ==> uris(final(self).state.peers@) == uris(old(self).state.peers@).push(endpoint_uri@)"),
       ("C13:duplicate_add_is_noop", "uris(old(self).state.peers@).contains(endpoint_uri@) ==> final(self).state.peers@ == old(self).state.peers@"),
       ("C13:cursor_untouched", "final(self).state.next_idx == old(self).state.next_idx || old(self).state.peers@.len() == 0"),
       # property text: "a send that is waiting for a first peer proceeds as soon as one has connected" -- for sends from 1..m tasks, so EVERY parked sender
       ("C13:a_joining_peer_wakes_every_waiting_sender", "!uris(old(self).state.peers@).contains(endpoint_uri@) ==> final(self).notify_waiters.woke_all@ > old(self).notify_waiters.woke_all@"),
     ],
     extra=LOCK + [("R8", "!self.state.peers.iter().any(|p| p.uri == endpoint_uri)", "!verif_any_uri(&self.state.peers, &endpoint_uri)", 1)],
     hints=[("ext", "re:self\\.state\\.peers\\.push\\(Arc::new\\(Peer \\{[^;]*\\}\\)\\);", 0, "after",
             "proof { assert(uris(self.state.peers@) =~= uris(old(self).state.peers@).push(endpoint_uri@)); "
             "assert forall|i: int, j: int| 0 <= i < j < uris(self.state.peers@).len() implies uris(self.state.peers@)[i] != uris(self.state.peers@)[j] by { "
             "if j == uris(self.state.peers@).len() - 1 { assert(uris(old(self).state.peers@)[i] != endpoint_uri@) by { assert(uris(old(self).state.peers@).contains(uris(old(self).state.peers@)[i])); } } "
             "else { assert(uris(old(self).state.peers@)[i] != uris(old(self).state.peers@)[j]); } } }")]),
  Fn(LB, "get_next_connection", impl=IMPL, emit_impl="impl LoadBalancer", sig_sub=SIG,
     requires=["old(self).state.wf()"],
     ensures=[
       ("C13:wf", "final(self).state.wf()"),
       ("C13:none_iff_no_peers", "r is None <==> old(self).state.peers@.len() == 0"),
       ("C13:serves_the_peer_under_the_cursor", "r matches Some(p) ==> p == old(self).state.peers@[old(self).state.next_idx as int]"),
       ("C13:cursor_advances_round_robin", "old(self).state.peers@.len() > 0 ==> final(self).state.next_idx == (old(self).state.next_idx + 1) % (old(self).state.peers@.len() as int)"),
       ("C13:peer_set_untouched", "final(self).state.peers@ == old(self).state.peers@"),
     ],
     extra=LOCK),
  Fn(LB, "remove_connection", impl=IMPL, emit_impl="impl LoadBalancer", sig_sub=SIG,
     requires=["old(self).state.wf()"],
     ensures=[
       ("C13:wf", "final(self).state.wf()"),
       ("C13:unknown_uri_is_noop", "!uris(old(self).state.peers@).contains(endpoint_uri@) ==> final(self).state.peers@ == old(self).state.peers@ && final(self).state.next_idx == old(self).state.next_idx"),
       ("C13:only_that_peer_leaves_order_kept",
        "uris(old(self).state.peers@).contains(endpoint_uri@) ==> exists|pos: int| 0 <= pos < old(self).state.peers@.len() && #[trigger] uris(old(self).state.peers@)[pos] == endpoint_uri@ "
        "&& final(self).state.peers@ == old(self).state.peers@.remove(pos) "
        # the peer that would have been served next is still next; if it was the removed one, its successor (wrapping) is
        "&& (final(self).state.peers@.len() > 0 ==> final(self).state.peers@[final(self).state.next_idx as int] == "
        "     (if pos != old(self).state.next_idx { old(self).state.peers@[old(self).state.next_idx as int] } "
        "      else { old(self).state.peers@[((old(self).state.next_idx + 1) % (old(self).state.peers@.len() as int)) as int] }))"),
     ],
     extra=LOCK + [("R8", "self.state.peers.iter().position(|p| p.uri == endpoint_uri)", "verif_position_uri(&self.state.peers, endpoint_uri)", 1)],
     hints=[("rm", "re:self\\.state\\.peers\\.remove\\(pos\\);", 0, "after",
             "proof { assert(uris(self.state.peers@) =~= uris(old(self).state.peers@).remove(pos as int)); "
             "assert forall|i: int, j: int| 0 <= i < j < uris(self.state.peers@).len() implies uris(self.state.peers@)[i] != uris(self.state.peers@)[j] by { "
             "let a = if i < pos { i } else { i + 1 }; let b = if j < pos { j } else { j + 1 }; assert(uris(old(self).state.peers@)[a] != uris(old(self).state.peers@)[b]); } }"),
            ("wit", "re:self\\.state\\.next_idx = 0;\\s*\\}", 0, "post",
             "\n      proof { let p = pos as int; let o = old(self).state; let n = o.peers@.len() as int; let c = o.next_idx as int; "
             "assert(uris(o.peers@)[p] == endpoint_uri@); assert(self.state.peers@ == o.peers@.remove(p)); "
             "if self.state.peers@.len() > 0 { if p != c { if p < c { assert(self.state.peers@[(c - 1) as int] == o.peers@[c]); } else { assert(self.state.peers@[c] == o.peers@[c]); } } "
             "else { if c < n - 1 { assert((c + 1) % n == c + 1) by (nonlinear_arith) requires 0 <= c + 1 < n; assert(self.state.peers@[c] == o.peers@[c + 1]); } else { assert(c + 1 == n); assert((c + 1) % n == 0) by (nonlinear_arith) requires c + 1 == n, n > 0; assert(self.state.peers@[0] == o.peers@[0]); } } } }")]),
  Fn(LB, "has_connections", impl=IMPL, emit_impl="impl LoadBalancer",
     ensures=[("C13:value", "r == (self.state.peers@.len() > 0)")],
     extra=[("R6", "self.state.lock().peers", "self.state.peers", 1)]),
  Fn(LB, "connection_count", impl=IMPL, emit_impl="impl LoadBalancer",
     ensures=[("C13:value", "r == self.state.peers@.len()")],
     extra=[("R6", "self.state.lock().peers", "self.state.peers", 1)]),
  Fn(LB, "wait_for_connection", impl=IMPL, emit_impl="impl LoadBalancer", sig_sub=SIG, attrs=["#[verifier::exec_allows_no_decreases_clause]"], safety_props=["C13"],
     ensures=[("C13:returns_ok_only_when_a_peer_is_there", "r is Ok ==> final(self).state.peers@.len() > 0")],
     extra=[("R2", re.compile(r'ZmqError::InvalidState\(\s*"([^"]*)"\.into\(\)\s*\)'), r'ZmqError::InvalidState("\1")', "*", "pre"),
            ("R8", re.compile(r"let notify = self\.notify_waiters\.clone\(\);\s*\n"), "", 1),
            # subscription-first form (after the repair) ...
            ("R8", "let notified = notify.notified();", "let mut notified = self.verif_notified();", "*"),
            ("R8", "tokio::pin!(notified);", "", "*"),
            ("R8", "notified.as_mut().enable();", "notified.verif_enable();", "*"),
            ("R8", re.compile(r"(?m)^(\s*)notified\.await;"), r"\1verif_wait_notified(&mut notified, &*self).await;", "*"),
            # ... and the check-then-subscribe form: the subscription is made at the await itself
            ("R8", "notify.notified().await;", "{ let mut vx_n = self.verif_notified(); verif_wait_notified(&mut vx_n, &*self).await; }", "*"),
            ("R8", "self.deactivated.load(std::sync::atomic::Ordering::Acquire)", "self.deactivated.load(verif_acquire())", 1),
            ("R6", "!self.state.lock().peers.is_empty()", "!self.verif_peers_empty()", 1)]),
]

FNS = {p.name: p for p in parts if isinstance(p, Fn)}
unit = Unit("lb", ["C13"], parts, safety_props=["C13"], notes="round-robin load balancer")
