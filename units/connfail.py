"""U-connfail: `handle_connect_failed_event` (socket/core/command_processor.rs), whole: what the socket core does with a
ConnectionAttemptFailed event.

Contract from the property text (C17: failures stay local -- one connection's failure never disturbs another endpoint; a failed
outbound connection is retried with the back-off law): the event of endpoint T touches the reconnect bookkeeping of T ONLY -- every
other endpoint's entry (attempt count, armed next-attempt time) is exactly what it was, entries are neither dropped nor invented;
T's own entry advances by `ReconnectState::on_connection_failure` (contract proved in unit backoff) iff reconnecting is enabled and
the error is not fatal, and is left alone otherwise.

Stand-ins: the reconnect map is a ghost-viewed map keyed by the endpoint string (entry(k).or_default() as one operation, R8), the
core-state RwLock is sequential (R6: the event loop is the only writer of reconnect_states), the monitor event and
`is_fatal_connect_error` are abstract.
"""
import re
from vlib.vx import Fn, Item, Raw, Region, Scan, as_contract
from vlib.runner import Unit
from units import backoff

CP = "core/src/socket/core/command_processor.rs"
ST = "core/src/socket/core/state.rs"

GLUE = """
pub struct SocketEventStub { pub x: u8 }
pub struct Options { pub reconnect_ivl: Option<Duration>, pub reconnect_ivl_max: Option<Duration> }
impl Clone for Options { #[verifier::external_body] fn clone(&self) -> (r: Options) ensures r == *self { unimplemented!() } }
// HashMap<String, ReconnectState>: view = map from the endpoint string to its back-off state
#[verifier::external_body]
pub struct ReconnMap { x: u8 }
impl ReconnMap {
  pub uninterp spec fn view(&self) -> Map<Seq<char>, ReconnectState>;
  // R8: `.entry(k).or_default()` -- the entry of k, created with the default state (no attempts, nothing armed) if absent; whatever the
  // caller writes through the returned reference is the entry's value afterwards, every other entry is untouched
  #[verifier::external_body]
  pub fn verif_entry_or_default(&mut self, k: String) -> (r: &mut ReconnectState)
    ensures
      *r == (if old(self)@.contains_key(k@) { old(self)@[k@] } else { ReconnectState { current_attempts: 0, next_attempt_at: None } }),
      final(self)@ == old(self)@.insert(k@, *final(r)),
  { unimplemented!() }
}
pub struct CoreState { pub options: Options, pub reconnect_states: ReconnMap }
impl CoreState { #[verifier::external_body] pub fn send_monitor_event(&self, e: SocketEventStub) { unimplemented!() } }
pub struct SocketCore { pub handle: usize, pub core_state: CoreState }   // R6: parking_lot::RwLock<CoreState>, sequential
pub uninterp spec fn fatal(e: ZmqError) -> bool;
#[verifier::external_body]
pub fn verif_is_fatal_connect_error(e: &ZmqError) -> (r: bool) ensures r == fatal(*e) { unimplemented!() }
// R8: the monitor event (endpoint + formatted error text)
#[verifier::external_body]
pub fn verif_connect_failed_event(uri: &String, e: &ZmqError) -> SocketEventStub { unimplemented!() }
// R8: `.map_or(false, |d| d != Duration::ZERO)` on Option<Duration>
pub open spec fn verif_positive(d: Option<Duration>) -> bool { d matches Some(x) && x.ns() != 0 }
#[verifier::external_body]
pub fn verif_is_positive(d: Option<Duration>) -> (r: bool) ensures r == verif_positive(d) { unimplemented!() }
#[verifier::external_body]
pub fn verif_or_millis(d: Option<Duration>, ms: u64) -> (r: Duration) ensures r.ns() == (if d is Some { d->0.ns() } else { ms as nat * 1_000_000 }) { unimplemented!() }
#[verifier::external_body]
pub fn verif_or_secs(d: Option<Duration>, s: u64) -> (r: Duration) ensures r.ns() == (if d is Some { d->0.ns() } else { s as nat * 1_000_000_000 }) { unimplemented!() }
pub open spec fn others_untouched(a: Map<Seq<char>, ReconnectState>, b: Map<Seq<char>, ReconnectState>, t: Seq<char>) -> bool {
  forall|u: Seq<char>| u != t ==> (a.contains_key(u) == b.contains_key(u)) && (a.contains_key(u) ==> #[trigger] a[u] == b[u])
}
"""

parts = [
  Raw("prelude/core.rs"),
  Raw("prelude/std.rs"),
  Raw("prelude/time.rs"),
  Raw(text=backoff.SPEC, label="backoff-spec"),
  Item(ST, "struct", "ReconnectState", keep_derive=()),
  as_contract(backoff.FNS["on_connection_failure"]),
  Raw(text=GLUE, label="connfail-glue"),
  Fn(CP, "handle_connect_failed_event",
     sig_sub=[("core_arc: Arc<SocketCore>", "core_arc: &mut SocketCore"), (re.compile(r"_socket_logic: Arc<dyn ISocket \+ 'static>,[^\n]*\n"), "")],
     # what the option parsers can produce (unit backoff: parse_reconnect_ivl_option / _max_option)
     requires=["old(core_arc).core_state.options.reconnect_ivl matches Some(d) ==> d.ns() <= 2_147_483_647nat * 1_000_000",
               "old(core_arc).core_state.options.reconnect_ivl_max matches Some(d) ==> d.ns() <= 2_147_483_647nat * 1_000_000"],
     ensures=[
       ("C17:the_failure_of_one_endpoint_leaves_every_other_endpoints_retry_state_untouched",
        "others_untouched(old(core_arc).core_state.reconnect_states@, final(core_arc).core_state.reconnect_states@, target_uri@)"),
       ("C17:a_retryable_failure_advances_the_endpoints_own_back_off",
        "verif_positive(old(core_arc).core_state.options.reconnect_ivl) && !fatal(error) ==> final(core_arc).core_state.reconnect_states@.contains_key(target_uri@) "
        "&& final(core_arc).core_state.reconnect_states@[target_uri@].next_attempt_at is Some"),
       ("C17:a_fatal_failure_or_disabled_reconnect_changes_no_retry_state",
        "!(verif_positive(old(core_arc).core_state.options.reconnect_ivl) && !fatal(error)) ==> final(core_arc).core_state.reconnect_states@ == old(core_arc).core_state.reconnect_states@"),
       ("C17:options_untouched", "final(core_arc).core_state.options == old(core_arc).core_state.options"),
     ],
     extra=[
       ("R6", "core_arc.core_state.read().send_monitor_event(monitor_event);", "core_arc.core_state.send_monitor_event(monitor_event);", 1),
       ("R6", re.compile(r"let core_s_read = core_arc\.core_state\.read\(\);\s*\n"), "", 1),

       ("R6", re.compile(r"let mut state = core_arc\.core_state\.write\(\);\s*\n"), "", 1),
       ("R6", re.compile(r"\bstate\.options\b"), "core_arc.core_state.options", "*"),
       ("R8", re.compile(r"state\s*\.reconnect_states\s*\.entry\(target_uri\.clone\(\)\)\s*\.or_default\(\)", re.S), "core_arc.core_state.reconnect_states.verif_entry_or_default(target_uri.clone())", 1),
       ("R6", re.compile(r"\bstate\s*\n?\s*\.reconnect_states\b"), "core_arc.core_state.reconnect_states", "*"),
       ("R8", re.compile(r"SocketEvent::ConnectFailed \{\s*endpoint: target_uri\.clone\(\),\s*error_msg: format!\(\"\{\}\", error\),\s*\}", re.S), "verif_connect_failed_event(&target_uri, &error)", 1, "pre"),
       ("R8", re.compile(r"core_s_read\s*\.options\s*\.reconnect_ivl\s*\.map_or\(false, \|d\| d != Duration::ZERO\)", re.S), "verif_is_positive(core_arc.core_state.options.reconnect_ivl)", 1, "pre"),
       ("R8", "crate::transport::tcp::is_fatal_connect_error(&error)", "verif_is_fatal_connect_error(&error)", 1),
       ("R8", re.compile(r"options\s*\.reconnect_ivl\s*\.unwrap_or\(std::time::Duration::from_millis\(100\)\)", re.S), "verif_or_millis(options.reconnect_ivl, 100)", 1, "pre"),
       ("R8", re.compile(r"options\s*\.reconnect_ivl_max\s*\.unwrap_or\(std::time::Duration::from_secs\(60\)\)", re.S), "verif_or_secs(options.reconnect_ivl_max, 60)", 1, "pre"),
     ]),
]

FNS = {p.name: p for p in parts if isinstance(p, Fn)}
unit = Unit("connfail", ["C17"], parts, safety_props=["C17"], notes="socket core: ConnectionAttemptFailed touches only the failed endpoint's retry state")
