"""U-inprocrd: the body of the direct-inproc reader task (socket/core/inproc_reader.rs `spawn`, the async block handed to tokio::spawn):
it takes batches off the inproc channel, reassembles logical messages (a message sent frame by frame arrives as one batch per frame)
and forwards whole messages to the socket's ingress pipe.

Contracts from the property texts:
  C01/C02  nothing is lost, duplicated, reordered or truncated: at every point
                 frames forwarded ++ frames waiting in `out` ++ frames in the accumulator  ==  frames taken off the channel
           (as flat frame sequences, in order), whichever way the frames of a message are spread over wake-ups of the task;
  C02      a batch is forwarded only when it ends with a frame without MORE (message boundaries are the sender's), and no complete
           message is withheld in the accumulator;
  C02/C07  the reassembly never overruns the 255-frame capacity of a FrameBatch (precondition of FrameBatch::extend): a message of
           more frames must be refused, not panic the task.
Region: [after `tokio::spawn(async move {`, before the exit log line).  The channel and the ingress pipe are ghost logs.
"""
import re
from vlib.vx import Fn, Item, Raw, Region, Scan, Src, VxError
from vlib.runner import Unit

IR = "core/src/socket/core/inproc_reader.rs"


def _carried_over():
  """Declared rule of this unit: the outer loop's invariant speaks about the frames that are carried from one wake-up of the task to
  the next.  If a `let mut accumulator` is declared BEFORE the `'outer: loop`, that variable carries them (term `accumulator@`);
  if it is declared inside the loop (or not at all), nothing is carried over and the term is the empty sequence -- the conservation
  invariant is then checked in that form (and fails when frames are in fact dropped at the end of a wake-up)."""
  try:
    t = Src.get(IR).mask
  except VxError:
    return True
  i, j = t.find("'outer: loop"), t.find("let mut accumulator")
  return j >= 0 and (i < 0 or j < i)


OUTSIDE = _carried_over()
ACC = "accumulator@" if OUTSIDE else "Seq::<Msg>::empty()"
NOT_ENDS = "!ends_message(accumulator)" if OUTSIDE else "true"

GLUE = """
use std::collections::VecDeque;
pub open spec fn flat(s: Seq<FrameBatch>) -> Seq<Msg>
  decreases s.len()
{ if s.len() == 0 { seq![] } else { flat(s.drop_last()) + s.last()@ } }
pub proof fn lemma_flat_push(s: Seq<FrameBatch>, b: FrameBatch)
  ensures flat(s.push(b)) =~= flat(s) + b@
{ assert(s.push(b).drop_last() =~= s); assert(s.push(b).last() == b); }
pub proof fn lemma_flat_concat(a: Seq<FrameBatch>, b: Seq<FrameBatch>)
  ensures flat(a + b) =~= flat(a) + flat(b)
  decreases b.len()
{
  if b.len() == 0 { assert(a + b =~= a); }
  else {
    assert((a + b).drop_last() =~= a + b.drop_last());
    assert((a + b).last() == b.last());
    lemma_flat_concat(a, b.drop_last());
  }
}
pub proof fn lemma_flat_skip(s: Seq<FrameBatch>, i: int)
  requires 0 <= i < s.len()
  ensures flat(s.subrange(0, i + 1)) =~= flat(s.subrange(0, i)) + s[i]@
{ assert(s.subrange(0, i + 1).drop_last() =~= s.subrange(0, i)); assert(s.subrange(0, i + 1).last() == s[i]); }
pub proof fn lemma_flat_front(s: Seq<FrameBatch>)
  requires s.len() > 0
  ensures flat(s) =~= s[0]@ + flat(s.skip(1))
  decreases s.len()
{
  if s.len() == 1 { assert(s.drop_last() =~= Seq::<FrameBatch>::empty()); assert(s.skip(1) =~= Seq::<FrameBatch>::empty()); }
  else { assert(s.skip(1).drop_last() =~= s.drop_last().skip(1)); assert(s.skip(1).last() == s.last()); lemma_flat_front(s.drop_last()); assert(s.drop_last()[0] == s[0]); }
}
// the conservation statement, opaque in the function body (the step lemmas below are the only way to move it)
#[verifier::opaque]
pub open spec fn conserved(sent: Seq<FrameBatch>, out: Seq<FrameBatch>, acc: Seq<Msg>, rest: Seq<FrameBatch>, got: Seq<FrameBatch>) -> bool {
  flat(sent) + flat(out) + acc + flat(rest) =~= flat(got)
}
pub proof fn lemma_cons_init() ensures conserved(seq![], seq![], seq![], seq![], seq![]) { reveal(conserved); }
// more batches arrive on the channel: they are the new rest
pub proof fn lemma_cons_recv(s: Seq<FrameBatch>, o: Seq<FrameBatch>, a: Seq<Msg>, g: Seq<FrameBatch>, d: Seq<FrameBatch>)
  requires conserved(s, o, a, seq![], g) ensures conserved(s, o, a, d, g + d)
{ reveal(conserved); lemma_flat_concat(g, d); assert(flat(Seq::<FrameBatch>::empty()) =~= Seq::<Msg>::empty()); }
// the next batch of the rest is appended to the accumulator
pub proof fn lemma_cons_take(s: Seq<FrameBatch>, o: Seq<FrameBatch>, a: Seq<Msg>, full: Seq<FrameBatch>, g: Seq<FrameBatch>)
  requires conserved(s, o, a, full, g), full.len() > 0 ensures conserved(s, o, a + full[0]@, full.skip(1), g)
{ reveal(conserved); lemma_flat_front(full); assert(flat(s) + flat(o) + (a + full[0]@) + flat(full.skip(1)) =~= flat(s) + flat(o) + a + (full[0]@ + flat(full.skip(1)))); }
// the accumulator becomes the last batch waiting in `out`
pub proof fn lemma_cons_queue(s: Seq<FrameBatch>, o: Seq<FrameBatch>, ab: FrameBatch, r: Seq<FrameBatch>, g: Seq<FrameBatch>)
  requires conserved(s, o, ab@, r, g) ensures conserved(s, o.push(ab), seq![], r, g)
{ reveal(conserved); lemma_flat_push(o, ab); assert(flat(s) + flat(o.push(ab)) + Seq::<Msg>::empty() + flat(r) =~= flat(s) + flat(o) + ab@ + flat(r)); }
// a prefix of `out` moves into the pipe
pub proof fn lemma_cons_forward(s: Seq<FrameBatch>, o: Seq<FrameBatch>, a: Seq<Msg>, r: Seq<FrameBatch>, g: Seq<FrameBatch>, k: int)
  requires conserved(s, o, a, r, g), 0 <= k <= o.len() ensures conserved(s + o.subrange(0, k), o.skip(k), a, r, g)
{
  reveal(conserved); assert(o =~= o.subrange(0, k) + o.skip(k)); lemma_flat_concat(s, o.subrange(0, k)); lemma_flat_concat(o.subrange(0, k), o.skip(k));
  assert(flat(s + o.subrange(0, k)) + flat(o.skip(k)) =~= flat(s) + flat(o));
}
pub proof fn lemma_cons_send(s: Seq<FrameBatch>, f: FrameBatch, o: Seq<FrameBatch>, a: Seq<Msg>, r: Seq<FrameBatch>, g: Seq<FrameBatch>)
  requires conserved(s, seq![f] + o, a, r, g) ensures conserved(s.push(f), o, a, r, g)
{
  reveal(conserved); let o2 = seq![f] + o; assert(o2.skip(1) =~= o); assert(o2[0] == f); lemma_flat_front(o2); lemma_flat_push(s, f);
  assert(flat(s.push(f)) + flat(o) =~= flat(s) + flat(o2));
}
// what reached the pipe is a prefix of what came off the channel (also when the pipe closes and the frames in hand are dropped with it)
pub proof fn lemma_cons_prefix(s: Seq<FrameBatch>, o: Seq<FrameBatch>, a: Seq<Msg>, r: Seq<FrameBatch>, g: Seq<FrameBatch>)
  requires conserved(s, o, a, r, g) ensures flat(s).len() <= flat(g).len(), flat(s) =~= flat(g).subrange(0, flat(s).len() as int)
{ reveal(conserved); }
pub struct RecvError { pub x: u8 }
// fibre BoundedAsyncReceiver<FrameBatch>: ghost log of every batch taken off the channel, in order
pub struct Rx { pub got: Ghost<Seq<FrameBatch>> }
impl Rx {
  #[verifier::external_body]
  pub async fn recv(&mut self) -> (r: Result<FrameBatch, RecvError>)
    ensures r matches Ok(b) ==> final(self).got@ == old(self).got@.push(b), r is Err ==> final(self).got@ == old(self).got@
  { unimplemented!() }
  // appends up to `max` further batches to `out`, in channel order
  #[verifier::external_body]
  pub fn try_recv_batch_mut(&mut self, out: &mut Vec<FrameBatch>, max: usize) -> (r: Result<usize, RecvError>)
    ensures exists|more: Seq<FrameBatch>| final(out)@ == old(out)@ + more && final(self).got@ == old(self).got@ + more
  { unimplemented!() }
}
// PipeMessageSender (ready_pipe_queue.rs): ghost log of every batch handed to the socket's ingress pipe, in order
pub struct PipeMessageSender { pub sent: Ghost<Seq<FrameBatch>> }
impl PipeMessageSender {
  // moves a prefix of `items` into the pipe (what fits), the rest stays at the front in FIFO order
  #[verifier::external_body]
  pub fn try_send_batch(&mut self, items: &mut VecDeque<FrameBatch>) -> (r: usize)
    ensures exists|k: int| 0 <= k <= old(items)@.len() && final(self).sent@ == old(self).sent@ + old(items)@.subrange(0, k) && final(items)@ == old(items)@.skip(k)
  { unimplemented!() }
  #[verifier::external_body]
  pub async fn send(&mut self, batch: FrameBatch) -> (r: Result<(), ZmqError>)
    ensures r is Ok ==> final(self).sent@ == old(self).sent@.push(batch), r is Err ==> final(self).sent@ == old(self).sent@
  { unimplemented!() }
}
// R8: `drain_buf.drain(..)` consumed by a for loop: all elements, in order; the vector is left empty
#[verifier::external_body]
pub fn verif_drain_all(v: &mut Vec<FrameBatch>) -> (r: Vec<FrameBatch>) ensures r@ == old(v)@, final(v)@.len() == 0 { unimplemented!() }
// R8: `accumulator.last_mut().map(|m| !m.is_more()).unwrap_or(false)`: the accumulated frames end with a frame without MORE
#[verifier::external_body]
pub fn verif_ends_message(b: &FrameBatch) -> (r: bool) ensures r == (b@.len() > 0 && !b@.last().flags.more) { unimplemented!() }
pub open spec fn ends_message(b: FrameBatch) -> bool { b@.len() > 0 && !b@.last().flags.more }
pub open spec fn all_end_message(s: Seq<FrameBatch>) -> bool { forall|i: int| 0 <= i < s.len() ==> ends_message(#[trigger] s[i]) }
"""

# conservation: what reached the pipe ++ what waits in `out` ++ the accumulator ++ what is still in the drained vector == what was taken off the channel
WHOLE = "all_end_message(sender.sent@) && all_end_message(out@)"
PREFIX = "flat(sender.sent@).len() <= flat(rx.got@).len() && flat(sender.sent@) =~= flat(rx.got@).subrange(0, flat(sender.sent@).len() as int)"
OUTER_INV = [
  ("C01+C02:no_frame_lost_duplicated_or_reordered_between_channel_and_pipe", "has_sender ==> conserved(sender.sent@, out@, %s, seq![], rx.got@)" % ACC),
  ("C02:only_whole_messages_are_forwarded", "has_sender ==> " + WHOLE),
  ("C02:no_complete_message_is_withheld", NOT_ENDS),
  ("C02:drain_buffer_empty_between_wake_ups", "drain_buf@.len() == 0"),
]
FOR_INV = [
  ("C01+C02:reassembly_keeps_every_frame_in_order", "has_sender ==> conserved(sender.sent@, out@, accumulator@, vx_v1@, rx.got@)"),
  ("C02:only_whole_messages_are_queued_for_forwarding", "has_sender ==> " + WHOLE),
  ("C02:no_complete_message_is_withheld", "!ends_message(accumulator)"),
  "drain_buf@.len() == 0",
]
FWD_INV = [
  ("C01+C02:forwarding_keeps_every_frame_in_order", "conserved(sender.sent@, out@, accumulator@, seq![], rx.got@)"),
  ("C02:only_whole_messages_are_forwarded", WHOLE),
  "!ends_message(accumulator)", "drain_buf@.len() == 0", "has_sender",
]

parts = [
  Raw("prelude/core.rs"),
  Raw("prelude/std.rs"),
  Raw("prelude/bytes.rs"),
  Raw("prelude/msg.rs"),
  Raw("prelude/framebatch.rs"),
  Raw(text=GLUE, label="inprocrd-glue"),
  Region(IR, "inproc_reader_body", "spawn", r"tokio::spawn\(async move \{", r"tracing::debug!\(reader_task_id",
         # `pipe_sender_opt: Option<PipeMessageSender>` enters as (sender, has_sender): Verus has no `if let Some(ref x)` on a place it also mutates
         sig="async fn inproc_reader_body(rx: &mut Rx, sender: &mut PipeMessageSender, has_sender: bool, rcvbatch_count: usize) -> (r: ())",
         expr=True, attrs=["#[verifier::exec_allows_no_decreases_clause]", "#[verifier::loop_isolation(false)]", "#[verifier::allow_complex_invariants]"],
         requires=["rcvbatch_count >= 1", "old(sender).sent@.len() == 0", "old(rx).got@.len() == 0"],
         ensures=[("C01+C02:on_exit_everything_forwarded_is_a_prefix_of_what_was_received_cut_at_message_boundaries",
                   "has_sender ==> all_end_message(final(sender).sent@) && flat(final(sender).sent@).len() <= flat(final(rx).got@).len() && flat(final(sender).sent@) =~= flat(final(rx).got@).subrange(0, flat(final(sender).sent@).len() as int)")],
         loops={0: {"invariant_except_break": OUTER_INV, "ensures": [("C01+C02:forwarded_is_a_prefix_of_received", "has_sender ==> all_end_message(sender.sent@) && " + PREFIX)]},
                1: {"desugar_owned": True, "invariant": FOR_INV},
                2: {"invariant": FWD_INV}},
         hints=[
           ("init", "@loop_before:0", 0, "", "proof { lemma_cons_init(); " + ("assert(accumulator@ =~= Seq::<Msg>::empty()); " if OUTSIDE else "") + "assert(out@ =~= Seq::<FrameBatch>::empty()); assert(sender.sent@ =~= Seq::<FrameBatch>::empty()); assert(rx.got@ =~= Seq::<FrameBatch>::empty()); }"),
           ("g0", "@loop_start:0", 0, "", "let ghost g0 = rx.got@; proof { if has_sender { lemma_cons_prefix(sender.sent@, out@, %s, seq![], rx.got@); } }" % ACC),
           ("inloop", "@loop_start:1", 0, "",
            "proof { assert forall|r: Seq<FrameBatch>| #[trigger] conserved(sender.sent@, out@, accumulator@, r, rx.got@) implies flat(sender.sent@).len() <= flat(rx.got@).len() && flat(sender.sent@) =~= flat(rx.got@).subrange(0, flat(sender.sent@).len() as int)\n"
            "          by { lemma_cons_prefix(sender.sent@, out@, accumulator@, r, rx.got@); } }"),
           ("drained", "re:let vx_drained = verif_drain_all\\(&mut drain_buf\\);", 0, "after",
            "proof { assert(rx.got@ =~= g0 + vx_drained@); if has_sender { lemma_cons_recv(sender.sent@, out@, accumulator@, g0, vx_drained@); } }"),
           ("step", "re:accumulator\\.extend\\(batch\\);", 0, "before",
            "proof { let full = vx_o1.skip(vx_i1 as int - 1); assert(full[0] == batch); assert(full.skip(1) =~= vx_v1@); if has_sender { lemma_cons_take(sender.sent@, out@, accumulator@, full, rx.got@); } }"),
           ("queue", "re:out\\.push_back\\(std::mem::replace", 0, "before", "proof { if has_sender { lemma_cons_queue(sender.sent@, out@, accumulator, vx_v1@, rx.got@); } }"),
           ("pre1", "re:sender\\.try_send_batch\\(&mut out\\);", 0, "before", "let ghost o1 = out@; let ghost s1 = sender.sent@;\n"
            "        proof { assert forall|r: Seq<FrameBatch>| #[trigger] r.len() == 0 implies r =~= Seq::<FrameBatch>::empty() by {} }"),
           ("post1", "re:sender\\.try_send_batch\\(&mut out\\);", 0, "after",
            "proof { let k = choose|k: int| 0 <= k <= o1.len() && sender.sent@ == s1 + o1.subrange(0, k) && out@ == o1.skip(k); lemma_cons_forward(s1, o1, accumulator@, seq![], rx.got@, k); }"),
           ("pop", "re:if sender\\.send\\(front\\)\\.await\\.is_err\\(\\)", 0, "before",
            "let ghost fr = front; let ghost s2 = sender.sent@; let ghost o_now = out@;\n"
            "          proof { assert forall|o: Seq<FrameBatch>| #[trigger] conserved(s2, o, accumulator@, seq![], rx.got@) && o.len() > 0 && o[0] == fr && o_now == o.subrange(1, o.len() as int)\n"
            "                    implies conserved(s2.push(fr), o_now, accumulator@, seq![], rx.got@) && flat(s2).len() <= flat(rx.got@).len() && flat(s2) =~= flat(rx.got@).subrange(0, flat(s2).len() as int)\n"
            "                    by { lemma_cons_prefix(s2, o, accumulator@, seq![], rx.got@); assert(seq![fr] + o_now =~= o); lemma_cons_send(s2, fr, o_now, accumulator@, seq![], rx.got@); } }"),
           ("pre2", "re:sender\\.try_send_batch\\(&mut out\\);", 1, "before", "let ghost o3 = out@; let ghost s3 = sender.sent@; proof { assert(s3 == s2.push(fr)); }"),
           ("post2", "re:sender\\.try_send_batch\\(&mut out\\);", 1, "after",
            "proof { let k = choose|k: int| 0 <= k <= o3.len() && sender.sent@ == s3 + o3.subrange(0, k) && out@ == o3.skip(k); lemma_cons_forward(s3, o3, accumulator@, seq![], rx.got@, k); }"),
         ],
         extra=[("R8", "for batch in drain_buf.drain(..) {", "let vx_drained = verif_drain_all(&mut drain_buf);\n      for batch in vx_drained {", 1, "pre"),
                ("R8", "accumulator.last_mut().map(|m| !m.is_more()).unwrap_or(false)", "verif_ends_message(&accumulator)", 1, "pre"),
                ("R8", "if let Some(ref sender) = pipe_sender_opt {", "if has_sender {", 1),
                ("R5", "FrameBatch::MAX_FRAMES", "255", "*")]),
]

FNS = {p.name: p for p in parts if isinstance(p, Fn)}
unit = Unit("inprocrd", ["C01", "C02", "C07"], parts, safety_props=["C02", "C07"], notes="inproc reader task: reassembly of frame-by-frame messages")
