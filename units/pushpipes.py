"""U-pushpipes: PushSocket::{pipe_attached, pipe_detached} (socket/push_socket.rs, impl ISocket), whole: which connections PUSH's
load balancer (the Orchestrator, units lb / route) can choose from as pipes come and go.

Contracts from the property texts (C17: one connection's failure stays local; C13: each message goes to one READY peer -- a peer
that is gone must no longer be offered messages, a peer that is there must be):
  pipe_detached(p): exactly p's entry leaves the pipe -> endpoint map and exactly THAT endpoint's connection is removed from the
      orchestrator (one remove_connection call, with the uri p was registered under); every other pipe's entry and every other
      connection is untouched; a detach of an unknown pipe touches nothing;
  pipe_attached(p): when the core knows the pipe's endpoint and connection, p is registered under exactly that uri and the
      orchestrator is given exactly that (uri, connection) -- the same uri in both places, so that the later detach removes what
      this attach added; otherwise nothing changes.

Stand-ins: pipe_read_to_endpoint_uri (parking_lot::RwLock<HashMap<usize, String>>) as a sequential ghost-viewed map (R6: the socket
core's event loop is its only writer); the Orchestrator as a ghost log of add_connection / remove_connection calls (its own
behaviour: units lb, route); the core_state lookup block (R8: arbitrary result).
"""
import re
from vlib.vx import Fn, Raw
from vlib.runner import Unit

PS = "core/src/socket/push_socket.rs"
IMPL = r"impl\s+ISocket\s+for\s+PushSocket\b"

GLUE = """
#[verifier::external_body]
pub struct Iface { x: u8 }     // Arc<dyn ISocketConnection>
pub uninterp spec fn iface_id(i: Iface) -> int;
pub enum OrchOp { Add { uri: Seq<char>, iface: int }, Remove { uri: Seq<char> } }
pub struct Orchestrator { pub ops: Ghost<Seq<OrchOp>> }
impl Orchestrator {
  #[verifier::external_body]
  pub fn add_connection(&mut self, uri: String, iface: Iface) ensures final(self).ops@ == old(self).ops@.push(OrchOp::Add { uri: uri@, iface: iface_id(iface) }) { unimplemented!() }
  #[verifier::external_body]
  pub fn remove_connection(&mut self, uri: &String) ensures final(self).ops@ == old(self).ops@.push(OrchOp::Remove { uri: uri@ }) { unimplemented!() }
}
// R6: parking_lot::RwLock<HashMap<usize, String>>, sequential
#[verifier::external_body]
pub struct UriMap { x: u8 }
impl UriMap {
  pub uninterp spec fn view(&self) -> Map<usize, Seq<char>>;
  #[verifier::external_body]
  pub fn remove(&mut self, k: &usize) -> (r: Option<String>)
    ensures final(self)@ == old(self)@.remove(*k),
      (match r { Some(s) => old(self)@.contains_key(*k) && old(self)@[*k] == s@, None => !old(self)@.contains_key(*k) }),
  { unimplemented!() }
  #[verifier::external_body]
  pub fn insert(&mut self, k: usize, v: String) -> (r: Option<String>) ensures final(self)@ == old(self)@.insert(k, v@) { unimplemented!() }
}
// the endpoint uri / connection the core records for the pipe at the one time pipe_attached reads them
pub uninterp spec fn endpoint_of(pid: usize) -> Option<Seq<char>>;
pub uninterp spec fn conn_of(pid: usize) -> Option<int>;
pub struct PushSocket { pub pipe_read_to_endpoint_uri: UriMap, pub outgoing_orchestrator: Orchestrator }
impl PushSocket {
  // R8: the block that reads core_state: arbitrary result, named by the two spec functions above
  #[verifier::external_body]
  pub fn verif_lookup(&self, pipe_read_id: usize) -> (r: (Option<String>, Option<Iface>))
    ensures (match r.0 { Some(u) => endpoint_of(pipe_read_id) == Some(u@), None => endpoint_of(pipe_read_id) is None }),
            (match r.1 { Some(i) => conn_of(pipe_read_id) == Some(iface_id(i)), None => conn_of(pipe_read_id) is None }),
  { unimplemented!() }
}

// ---- DEALER: the same two containers plus the ingress side of the pipe
pub struct PipeSet { pub keys: Ghost<Set<usize>> }    // Mutex<HashMap<usize, PipeMessageSender>> / the ingress engine's registered pipes: key set only
impl PipeSet {
  #[verifier::external_body]
  pub fn remove(&mut self, k: &usize) -> (r: Option<usize>) ensures final(self).keys@ == old(self).keys@.remove(*k) { unimplemented!() }
  #[verifier::external_body]
  pub fn deregister_pipe(&mut self, k: usize) ensures final(self).keys@ == old(self).keys@.remove(k) { unimplemented!() }
}
pub struct Notifier { pub wakeups: Ghost<nat> }
impl Notifier { #[verifier::external_body] pub fn notify_waiters(&mut self) ensures final(self).wakeups@ == old(self).wakeups@ + 1 { unimplemented!() } }
pub struct DealerSocket { pub pipe_read_to_endpoint_uri: UriMap, pub outgoing_orchestrator: Orchestrator, pub ingress_engine: PipeSet, pub pending_pipe_senders: PipeSet, pub peer_availability_notifier: Notifier }
"""

parts = [
  Raw("prelude/core.rs"),
  Raw("prelude/std.rs"),
  Raw(text=GLUE, label="pushpipes-glue"),
  Fn(PS, "pipe_detached", impl=IMPL, emit_impl="impl PushSocket", sig_sub=[("&self", "&mut self")], ret=None,
     extra=[("R6", "self.pipe_read_to_endpoint_uri.write().remove(", "self.pipe_read_to_endpoint_uri.remove(", 1)],
     ensures=[
       ("C17+C13:a_detach_removes_exactly_this_pipes_entry_and_every_other_pipe_keeps_its_own",
        "final(self).pipe_read_to_endpoint_uri@ == old(self).pipe_read_to_endpoint_uri@.remove(pipe_read_id)"),
       ("C17+C13:exactly_the_detached_pipes_connection_leaves_the_load_balancer_and_no_other",
        "final(self).outgoing_orchestrator.ops@ == (if old(self).pipe_read_to_endpoint_uri@.contains_key(pipe_read_id) "
        "{ old(self).outgoing_orchestrator.ops@.push(OrchOp::Remove { uri: old(self).pipe_read_to_endpoint_uri@[pipe_read_id] }) } else { old(self).outgoing_orchestrator.ops@ })"),
     ]),
  Fn(PS, "pipe_attached", impl=IMPL, emit_impl="impl PushSocket", sig_sub=[("&self", "&mut self")], ret=None,
     extra=[
       ("R8", re.compile(r"let \(endpoint_uri_opt, connection_iface_opt\) = \{.*?\n    \};", re.S), "let (endpoint_uri_opt, connection_iface_opt) = self.verif_lookup(pipe_read_id);", 1),
       ("R6", re.compile(r"self\s*\.pipe_read_to_endpoint_uri\s*\.write\(\)\s*\.insert\(", re.S), "self.pipe_read_to_endpoint_uri.insert(", 1),
     ],
     ensures=[
       ("C13+C17:an_attached_pipe_is_registered_under_its_own_endpoint_and_the_load_balancer_gets_exactly_that_connection",
        "(endpoint_of(pipe_read_id) is Some && conn_of(pipe_read_id) is Some) ==> "
        "final(self).pipe_read_to_endpoint_uri@ == old(self).pipe_read_to_endpoint_uri@.insert(pipe_read_id, endpoint_of(pipe_read_id)->0) "
        "&& final(self).outgoing_orchestrator.ops@ == old(self).outgoing_orchestrator.ops@.push(OrchOp::Add { uri: endpoint_of(pipe_read_id)->0, iface: conn_of(pipe_read_id)->0 })"),
       ("C17:an_attach_the_core_knows_nothing_about_changes_nothing",
        "(endpoint_of(pipe_read_id) is None || conn_of(pipe_read_id) is None) ==> "
        "final(self).pipe_read_to_endpoint_uri@ == old(self).pipe_read_to_endpoint_uri@ && final(self).outgoing_orchestrator.ops@ == old(self).outgoing_orchestrator.ops@"),
     ]),
]

DS = "core/src/socket/dealer_socket.rs"
parts.append(
  Fn(DS, "pipe_detached", impl=r"impl\s+ISocket\s+for\s+DealerSocket\b", emit_impl="impl DealerSocket", sig_sub=[("&self", "&mut self")], ret=None, rename="DealerSocket::pipe_detached",
     extra=[("R6", "self.pipe_read_to_endpoint_uri.write().remove(", "self.pipe_read_to_endpoint_uri.remove(", 1),
            ("R6", "self.pending_pipe_senders.lock().remove(", "self.pending_pipe_senders.remove(", 1)],
     ensures=[
       ("C17+C13:a_detach_removes_exactly_this_pipes_entry_and_every_other_pipe_keeps_its_own",
        "final(self).pipe_read_to_endpoint_uri@ == old(self).pipe_read_to_endpoint_uri@.remove(pipe_read_id) "
        "&& final(self).ingress_engine.keys@ == old(self).ingress_engine.keys@.remove(pipe_read_id) && final(self).pending_pipe_senders.keys@ == old(self).pending_pipe_senders.keys@.remove(pipe_read_id)"),
       ("C17+C13:exactly_the_detached_pipes_connection_leaves_the_load_balancer_and_no_other",
        "final(self).outgoing_orchestrator.ops@ == (if old(self).pipe_read_to_endpoint_uri@.contains_key(pipe_read_id) "
        "{ old(self).outgoing_orchestrator.ops@.push(OrchOp::Remove { uri: old(self).pipe_read_to_endpoint_uri@[pipe_read_id] }) } else { old(self).outgoing_orchestrator.ops@ })"),
       ("C13:senders_waiting_for_a_peer_are_woken_after_the_membership_change", "final(self).peer_availability_notifier.wakeups@ == old(self).peer_availability_notifier.wakeups@ + 1"),
     ]))

FNS = {p.name: p for p in parts if isinstance(p, Fn)}
unit = Unit("pushpipes", ["C17", "C13"], parts, safety_props=["C17"], notes="PUSH pipe_attached / pipe_detached: membership of the load balancer follows the pipes, one pipe at a time")
