"""U-nonce: CurveDataCipher::{new, encrypt, decrypt} (security/curve/cipher.rs, feature `curve`): the per-direction record counters.

Contract from the property text (C18; within one session a fresh nonce per record is what keeps equal plaintexts from encrypting to equal
bytes): counters start at 1; every encrypt hands the CURRENT send counter to the primitive exactly once and then advances it by one, so the
nonces of one direction of one session are pairwise distinct; decrypt uses the current receive counter and advances it ONLY when the record
authenticates (a forged, replayed or reordered record cannot move the counter: the next genuine record still decrypts, and a replay fails
because its nonce is in the past); encrypt uses the encode key, decrypt the decode key; ciphertext = 16-byte MAC ++ bytes of the plaintext's
length.  The dryoc primitives are abstract (cryptography is outside contracts) and log the (key, counter) pair they are called with;
`construct_nonce` (16-byte prefix ++ le64(counter), slice copying) is left abstract as `nonce of counter`.
Cross-session freshness (static-key derived session keys, counters restarting at 1 every session) is a design finding outside this unit.
"""
import re
from vlib.vx import Fn, Item, Raw, Region, Scan
from vlib.runner import Unit

CI = "core/src/security/curve/cipher.rs"
HS = "core/src/security/curve/handshake.rs"
IMPL = r"impl\s+IDataCipher\s+for\s+CurveDataCipher\b"

GLUE = """
pub const CRYPTO_BOX_MACBYTES: usize = 16;
pub struct NonceV { pub counter: u64 }           // dryoc StackByteArray<24> built by construct_nonce: identified by the counter it encodes
impl NonceV { pub fn as_array(&self) -> (r: &NonceV) ensures *r == *self { self } }
#[verifier::external_body]
pub struct Mac { x: u8 }
impl Mac {
  #[verifier::external_body] pub fn new_byte_array() -> Mac { unimplemented!() }
  #[verifier::external_body] pub fn as_mut_array(&mut self) -> (r: &mut Mac) { unimplemented!() }
  #[verifier::external_body] pub fn as_array(&self) -> &Mac { unimplemented!() }
  #[verifier::external_body] pub fn as_slice(&self) -> (r: &[u8]) ensures r@.len() == 16 { unimplemented!() }
}
// ghost log of the (key, nonce counter) pairs this cipher object has handed to the primitives, per direction
pub struct CryptoLog { pub enc: Ghost<Seq<([u8; 32], u64)>>, pub dec_ok: Ghost<Seq<([u8; 32], u64)>>, pub dec_all: Ghost<Seq<([u8; 32], u64)>> }
// R8: crypto_box_detached_afternm(&mut ct, mac, pt, nonce, key)
#[verifier::external_body]
pub fn verif_seal(log: &mut CryptoLog, ciphertext: &mut Vec<u8>, mac: &mut Mac, plaintext: &[u8], nonce: &NonceV, key: &[u8; 32])
  ensures final(ciphertext)@.len() == old(ciphertext)@.len(), final(log).enc@ == old(log).enc@.push((*key, nonce.counter)), final(log).dec_ok == old(log).dec_ok, final(log).dec_all == old(log).dec_all
{ unimplemented!() }
// R8: crypto_box_open_detached_afternm(&mut out, mac, ct, nonce, key).map_err(|e| ZmqError::AuthenticationFailure(e.to_string()))
#[verifier::external_body]
pub fn verif_open(log: &mut CryptoLog, out: &mut Vec<u8>, mac: &Mac, ciphertext: &[u8], nonce: &NonceV, key: &[u8; 32]) -> (r: Result<(), ZmqError>)
  ensures final(out)@.len() == old(out)@.len(), final(log).enc == old(log).enc, final(log).dec_all@ == old(log).dec_all@.push((*key, nonce.counter)),
    r is Ok ==> final(log).dec_ok@ == old(log).dec_ok@.push((*key, nonce.counter)), r is Err ==> final(log).dec_ok == old(log).dec_ok,
    r matches Err(e) ==> e is AuthenticationFailure,
{ unimplemented!() }
// R8: Mac::try_from(mac_slice).map_err(|_| ZmqError::InvalidMessage(..))
#[verifier::external_body]
pub fn verif_mac_from(s: &[u8]) -> (r: Result<Mac, ZmqError>) ensures s@.len() == 16 ==> r is Ok { unimplemented!() }
// R8: vec![0u8; n]
#[verifier::external_body]
pub fn verif_zeros(n: usize) -> (r: Vec<u8>) ensures r@.len() == n { unimplemented!() }
// ---- the completed CURVE handshake, as far as the hand-over to the data phase is concerned: the key exchange (dryoc crypto_kx over
// the two static key pairs, role-dependent) yields a receive key and a transmit key; the handshake-phase key (crypto_box beforenm) is
// a different value and must NOT be used for data records (one shared key would make record #n of both directions use the same
// (key, nonce): a record reflected to its sender would authenticate)
pub struct CurveHandshake { pub complete: bool, pub precomputed_key: Option<[u8; 32]>, pub kx: Ghost<([u8; 32], [u8; 32])> }
impl CurveHandshake {
  #[verifier::external_body]
  pub fn into_session_keys(self) -> (r: Result<([u8; 32], [u8; 32]), ZmqError>)
    ensures r matches Ok(k) ==> k == self.kx@ && self.complete, !self.complete ==> r is Err
  { unimplemented!() }
  // R8: Self::key_prefix(&k) -- a diagnostic string
  #[verifier::external_body] pub fn key_prefix(k: &[u8; 32]) -> u8 { unimplemented!() }
}
impl CurveDataCipher {
  // construct_nonce(counter): 16-byte prefix ++ le64(counter) (slice copying into a fixed array: abstract, identified by the counter)
  pub fn construct_nonce(counter: u64) -> (r: NonceV) ensures r.counter == counter { NonceV { counter } }
}
"""

R8 = [
  ("R8", "vec![0u8; plaintext.len()]", "verif_zeros(plaintext.len())", "*"),
  ("R8", "vec![0u8; ciphertext_only_slice.len()]", "verif_zeros(ciphertext_only_slice.len())", "*"),
  ("R8", re.compile(r"crypto_box_detached_afternm\(\s*&mut ciphertext,", re.S), "verif_seal(&mut self.log, &mut ciphertext,", 1),
  ("R8", re.compile(r"crypto_box_open_detached_afternm\(\s*&mut decrypted,(.*?)\)\s*\.map_err\(\|e\| ZmqError::AuthenticationFailure\(e\.to_string\(\)\)\)\?;", re.S), r"verif_open(&mut self.log, &mut decrypted,\1)?;", 1),
  ("R8", re.compile(r"Mac::try_from\(mac_slice\)\s*\.map_err\(\|_\| ZmqError::InvalidMessage\(verif_fmt\(\)\)\)\?;", re.S), "verif_mac_from(mac_slice)?;", 1),
  ("R6", "&ciphertext_with_mac[..CRYPTO_BOX_MACBYTES]", "vstd::slice::slice_subrange(ciphertext_with_mac, 0, CRYPTO_BOX_MACBYTES)", 1),
  ("R6", "&ciphertext_with_mac[CRYPTO_BOX_MACBYTES..]", "vstd::slice::slice_subrange(ciphertext_with_mac, CRYPTO_BOX_MACBYTES, ciphertext_with_mac.len())", 1),
  ("R6", "wire_frame.extend_from_slice(&ciphertext);", "wire_frame.extend_from_slice(ciphertext.as_slice());", 1),
  ("R5", "Self::construct_nonce(", "CurveDataCipher::construct_nonce(", "*"),
]

parts = [
  Raw("prelude/core.rs"),
  Raw("prelude/std.rs"),
  Item(CI, "struct", "CurveDataCipher", keep_derive=(), extra=[("R5", "recv_nonce_counter: u64,", "recv_nonce_counter: u64,\n  pub log: CryptoLog,", 1)]),
  Raw(text=GLUE, label="nonce-glue"),
  Fn(CI, "new", impl=r"impl\s+CurveDataCipher\b", emit_impl="impl CurveDataCipher",
     ensures=[("C18:a_fresh_cipher_uses_the_keys_it_is_given_and_starts_both_counters_at_one",
               "r.encode_key == encode_key && r.decode_key == decode_key && r.send_nonce_counter == 1 && r.recv_nonce_counter == 1 && r.log.enc@.len() == 0 && r.log.dec_all@.len() == 0")],
     extra=[("R5", "recv_nonce_counter: 1,", "recv_nonce_counter: 1,\n      log: CryptoLog { enc: Ghost(Seq::empty()), dec_ok: Ghost(Seq::empty()), dec_all: Ghost(Seq::empty()) },", 1)]),
  # the hand-over from the handshake to the data phase: which key goes where
  Fn(HS, "into_data_cipher", impl=r"impl\s+CurveHandshake\b", emit_impl="impl CurveHandshake",
     sig_sub=[("Result<Box<dyn IDataCipher>, ZmqError>", "Result<Box<CurveDataCipher>, ZmqError>")],   # R5: the trait-object coercion of the boxed cipher is dropped
     ensures=[("C18:records_are_sealed_with_the_transmit_key_and_opened_with_the_receive_key_of_the_key_exchange",
               "r matches Ok(c) ==> c.encode_key == self.kx@.1 && c.decode_key == self.kx@.0 && c.send_nonce_counter == 1 && c.recv_nonce_counter == 1"),
              ("C18:no_data_cipher_from_an_incomplete_handshake", "!self.complete ==> r is Err")],
     extra=[("R8", "self.phase != CurveHandshakePhase::Complete", "!self.complete", "*")]),
  Fn(CI, "encrypt", impl=IMPL, emit_impl="impl CurveDataCipher",
     requires=["old(self).send_nonce_counter < u64::MAX", "plaintext@.len() <= 0x7FFF_FFFF_FFFF_FF00"],
     ensures=[
       ("C18:every_record_is_sealed_with_the_current_counter_exactly_once_then_the_counter_advances",
        "final(self).log.enc@ == old(self).log.enc@.push((old(self).encode_key, old(self).send_nonce_counter)) && final(self).send_nonce_counter == old(self).send_nonce_counter + 1"),
       ("C18:frame", "final(self).recv_nonce_counter == old(self).recv_nonce_counter && final(self).encode_key == old(self).encode_key && final(self).decode_key == old(self).decode_key && final(self).log.dec_all == old(self).log.dec_all"),
       ("C18:wire_format_is_mac_then_ciphertext_of_the_plaintexts_length", "r matches Ok(w) ==> w@.len() == 16 + plaintext@.len()"),
       ("C18:encrypt_never_fails", "r is Ok"),
     ],
     extra=R8),
  Fn(CI, "decrypt", impl=IMPL, emit_impl="impl CurveDataCipher",
     requires=["old(self).recv_nonce_counter < u64::MAX"],
     ensures=[
       ("C18:a_record_that_authenticates_uses_the_current_counter_and_advances_it",
        "r is Ok ==> final(self).log.dec_ok@ == old(self).log.dec_ok@.push((old(self).decode_key, old(self).recv_nonce_counter)) && final(self).recv_nonce_counter == old(self).recv_nonce_counter + 1"),
       ("C18:a_record_that_does_not_authenticate_leaves_the_counter_alone", "r is Err ==> final(self).recv_nonce_counter == old(self).recv_nonce_counter && final(self).log.dec_ok == old(self).log.dec_ok"),
       ("C18:a_record_shorter_than_a_mac_is_refused_before_any_crypto", "ciphertext_with_mac@.len() < 16 ==> r is Err && final(self).log.dec_all == old(self).log.dec_all"),
       ("C18:frame", "final(self).send_nonce_counter == old(self).send_nonce_counter && final(self).encode_key == old(self).encode_key && final(self).decode_key == old(self).decode_key && final(self).log.enc == old(self).log.enc"),
       ("C18:plaintext_length", "r matches Ok(p) ==> p@.len() + 16 == ciphertext_with_mac@.len()"),
     ],
     extra=R8),
]

FNS = {p.name: p for p in parts if isinstance(p, Fn)}
unit = Unit("nonce", ["C18"], parts, safety_props=["C18"], notes="CURVE data cipher: per-direction nonce counters")
