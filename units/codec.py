"""U-codec: the tokio-util Decoder of ZmtpCodec (protocol/zmtp/codec.rs), including a primed prefix and its two-state
machine: over the abstract pending stream (prefix + consumed header + src) it implements dec_step with the codec's hard cap."""
import re
from vlib.vx import Fn, Item, Raw
from vlib.runner import Unit

CODEC = "core/src/protocol/zmtp/codec.rs"
CMD = "core/src/protocol/zmtp/command.rs"

SPEC = """
pub open spec fn CAP() -> i64 { 67108864 }   // CODEC_MAX_FRAME_SIZE = 64 MiB
// header bytes of a frame whose header was already consumed (state ReadBody)
pub open spec fn hdr_of(h: FrameHeader) -> Seq<u8> {
  if bit_long(h.flags) { seq![h.flags] + to_be64(h.size as nat) } else { seq![h.flags, h.size as u8] }
}
impl ZmtpCodec {
  pub open spec fn wf(&self) -> bool {
    self.decoding_state matches DecodingState::ReadBody(h) ==> h.size <= 67108864 && (bit_long(h.flags) || h.size <= 255)
  }
  // the bytes still to be decoded, as the peer sent them
  pub open spec fn pending(&self, src: Seq<u8>) -> Seq<u8> {
    let pre = match self.prefix_bytes { Some(p) => p@, None => Seq::<u8>::empty() };
    match self.decoding_state { DecodingState::ReadHeader => pre + src, DecodingState::ReadBody(h) => hdr_of(h) + pre + src }
  }
}
pub proof fn lemma_hdr_of(h: FrameHeader, rest: Seq<u8>)
  requires h.size <= 67108864, bit_long(h.flags) || h.size <= 255
  ensures
    hdr_complete(hdr_of(h) + rest), hdr_len(hdr_of(h) + rest) == hdr_of(h).len(), body_len(hdr_of(h) + rest) == h.size,
{
  let s = hdr_of(h) + rest;
  assert(s[0] == h.flags);
  if bit_long(h.flags) {
    lemma_be64_roundtrip(h.size as nat);
    assert(s.subrange(1, 9) =~= to_be64(h.size as nat));
  } else {
    assert(s[1] == h.size as u8);
  }
}
// R8: `let mut len_bytes = &header_bytes[1..]; len_bytes.get_u64()` (Buf on a temporary &[u8])
#[verifier::external_body]
pub fn verif_get_u64_at1(b: &BytesMut) -> (r: u64)
  requires b@.len() >= 9
  ensures r as nat == be64(b@.subrange(1, 9))
{ unimplemented!() }
"""

parts = [
  Raw("prelude/core.rs"),
  Raw("prelude/be_lemmas.rs"),
  Raw("prelude/std.rs"),
  Raw("prelude/bytes.rs"),
  Raw("prelude/msg.rs"),
  Raw("prelude/framebatch.rs"),
  Raw("prelude/zmtp_spec.rs"),
  Item(CMD, "const", "ZMTP_FLAG_LONG"),
  Item(CMD, "const", "ZMTP_FLAG_MORE"),
  Item(CMD, "const", "ZMTP_FLAG_COMMAND"),
  Item(CODEC, "const", "CODEC_MAX_FRAME_SIZE"),
  Item(CODEC, "struct", "FrameHeader", keep_derive=("Clone", "Copy")),
  Item(CODEC, "enum", "DecodingState", keep_derive=("Clone", "Copy")),
  Item(CODEC, "struct", "ZmtpCodec"),
  Raw(text=SPEC, label="codec-spec"),
  Fn(CODEC, "decode", impl=r"impl\s+Decoder\s+for\s+ZmtpCodec\b", emit_impl="impl ZmtpCodec",
     sig_sub=[("Result<Option<Self::Item>, Self::Error>", "Result<Option<Msg>, ZmqError>")],
     requires=["old(self).wf()"],
     ensures=[
       ("C03:wf", "final(self).wf()"),
       ("C03+C07:err_iff_over_hard_cap", "r is Err <==> oversize(old(self).pending(old(src)@), CAP())"),
       ("C03:some_iff_complete", "(r matches Ok(Some(_))) <==> (!oversize(old(self).pending(old(src)@), CAP()) && frame_complete(old(self).pending(old(src)@)))"),
       ("C03:frame_value", "r matches Ok(Some(m)) ==> frame_of(m) == first_frame(old(self).pending(old(src)@))"),
       ("C03:consumes_exactly_one_frame", "r matches Ok(Some(m)) ==> final(self).pending(final(src)@) == frame_rest(old(self).pending(old(src)@))"),
       ("C03+C04:none_keeps_the_pending_stream", "r matches Ok(None) ==> final(self).pending(final(src)@) == old(self).pending(old(src)@)"),
     ],
     extra=[("R8", re.compile(r"let mut len_bytes = &header_bytes\[1\.\.\];\s*len_bytes\.get_u64\(\)", re.S), "verif_get_u64_at1(&header_bytes)", 1)],
     loops={0: {
       "invariant": [
         "self.wf()", "self.prefix_bytes is None",
         ("C03:loop_pending", "self.pending(src@) == old(self).pending(old(src)@)"),
       ],
       "decreases": "(if self.decoding_state is ReadHeader { 1int } else { 0int })"}},
     hints=[
       ("pre", "re:loop \\{", 0, "before", "proof { assert(self.pending(src@) =~= old(self).pending(old(src)@)); }"),
       ("p0", "@loop_start:0", 0, "", "let ghost P = self.pending(src@);"),
       ("hdr", "re:let header = FrameHeader \\{ flags, size \\};", 0, "after",
        "proof { lemma_be64_roundtrip(size as nat); if bit_long(flags) { assert(hdr_of(header) =~= P.subrange(0, 9)) by { assert(header_bytes@.subrange(1, 9) =~= P.subrange(1, 9)); lemma_be64_inj(P.subrange(1, 9)); } } else { assert(hdr_of(header) =~= P.subrange(0, 2)); } "
        "assert(hdr_of(header) + src@ =~= P); }"),
       ("body", "re:let body_bytes = src\\.split_to\\(header\\.size\\)\\.freeze\\(\\);", 0, "before",
        "proof { let hb = hdr_of(header); assert(P =~= hb + src@); assert(P[0] == header.flags); lemma_hdr_of(header, src@); }"),
       ("ret", "re:return Ok\\(Some\\(msg\\)\\);", 0, "before",
        "proof { assert(payload(msg) =~= frame_body(P)); assert(self.pending(src@) =~= frame_rest(P)); }"),
     ]),
]

FNS = {p.name: p for p in parts if isinstance(p, Fn)}
unit = Unit("codec", ["C03", "C04", "C07"], parts, safety_props=["C03", "C07"], notes="tokio codec decoder with primed prefix")
