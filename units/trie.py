"""U-trie: SubscriptionTrie (socket/patterns/trie.rs): subscribe / unsubscribe / matches, the SUB-side filter.

The trie is a graph of `Arc<RwLock<TrieNode>>` cells; the functions walk it with a cursor, taking one node lock at a time.
Abstract view (ghost, carried by the SubscriptionTrie stand-in): `cnt(p)` = number of active subscriptions to the exact prefix p and
`nodes` = the set of paths that have a node.  A node handle (`Arc<RwLock<TrieNode>>`) is identified by its PATH from the root; the
four things the code does with a handle are stand-in operations whose contracts are the HashMap / atomic semantics in terms of that view:

    R6  node.read()  +  guard.count.load(..)                 -> self.verif_count(&node)          (value of cnt(path))
    R6  node.read()  +  guard.children.get(&b).cloned()      -> self.verif_child(&node, b)       (Some(path ++ [b]) iff that node exists)
    R6  node.write() +  children.entry(b).or_insert_with(..) -> self.verif_child_or_insert(&node, b)
    R6  guard.count.fetch_add / fetch_sub (wrapping, returns the old value)

Everything else (loops, early returns, the order of checks, the restore after an unsubscribe below zero) is the verbatim code.
Contracts from the property text (C12): matches(t) <=> some prefix of t (including the empty one) has cnt > 0; subscribe adds one to
exactly cnt(topic); unsubscribe removes one iff cnt(topic) > 0 and otherwise changes nothing (N subscribes need N unsubscribes).
Sequential semantics: each call is verified as if it ran alone (the per-node locks do not make a whole call atomic; interleavings of
matches with subscribe/unsubscribe are a schedule property and are not claimed).
"""
import re
from vlib.vx import Fn, Item, Raw, Region, Scan
from vlib.runner import Unit

TR = "core/src/socket/patterns/trie.rs"
IMPL = r"impl\s+SubscriptionTrie\b"

GLUE = """
pub struct TrieView { pub counts: Map<Seq<u8>, usize>, pub nodes: Set<Seq<u8>> }
pub open spec fn cnt(v: TrieView, p: Seq<u8>) -> usize { if v.counts.contains_key(p) { v.counts[p] } else { 0usize } }
#[verifier::opaque]
pub open spec fn view_wf(v: TrieView) -> bool {
  &&& v.nodes.contains(Seq::<u8>::empty())
  &&& forall|p: Seq<u8>| #[trigger] v.nodes.contains(p) && p.len() > 0 ==> v.nodes.contains(p.drop_last())
  &&& forall|p: Seq<u8>| #[trigger] cnt(v, p) > 0 ==> v.nodes.contains(p)
}
// "some active subscription is a byte-prefix of the topic" (the empty subscription is the prefix of length 0)
pub open spec fn matches_spec(v: TrieView, t: Seq<u8>) -> bool { exists|k: int| 0 <= k <= t.len() && cnt(v, #[trigger] t.subrange(0, k)) > 0 }
// Arc<RwLock<TrieNode>>: a handle to the node at `path`
pub struct NodeRef { pub path: Ghost<Seq<u8>> }
impl Clone for NodeRef { fn clone(&self) -> (r: NodeRef) ensures r.path == self.path { NodeRef { path: Ghost(self.path@) } } }
// std::sync::atomic::Ordering (only named, never interpreted: sequential semantics)
pub enum Ordering { Relaxed, Acquire, Release, AcqRel, SeqCst }
// what a read guard of a node shows: its subscription count and its child table (snapshots tied to the view by verif_read)
pub struct CountCell { pub v: Ghost<usize> }
impl CountCell { #[verifier::external_body] pub fn load(&self, o: Ordering) -> (r: usize) ensures r == self.v@ { unimplemented!() } }
pub struct ChildMap { pub path: Ghost<Seq<u8>>, pub nodes: Ghost<Set<Seq<u8>>> }
impl ChildMap {
  // HashMap<u8, Arc<RwLock<TrieNode>>>::get
  #[verifier::external_body]
  pub fn get(&self, byte: &u8) -> (r: Option<&NodeRef>)
    ensures r matches Some(c) ==> c.path@ == self.path@.push(*byte) && self.nodes@.contains(c.path@), r is None ==> !self.nodes@.contains(self.path@.push(*byte)),
  { unimplemented!() }
}
pub struct NodeGuard { pub path: Ghost<Seq<u8>>, pub count: CountCell, pub children: ChildMap }
pub struct SubscriptionTrie { pub root: NodeRef, pub view: Ghost<TrieView> }
impl SubscriptionTrie {
  pub open spec fn wf(&self) -> bool { view_wf(self.view@) && self.root.path@ =~= Seq::<u8>::empty() && self.view@.nodes.contains(Seq::<u8>::empty()) }
  // R6: `node.read()`: the guard shows the node's count and child table as they are in the view now
  #[verifier::external_body]
  pub fn verif_read(&self, n: &NodeRef) -> (g: NodeGuard)
    requires self.view@.nodes.contains(n.path@)
    ensures g.path@ == n.path@, g.count.v@ == cnt(self.view@, n.path@), g.children.path@ == n.path@, g.children.nodes@ == self.view@.nodes
  { unimplemented!() }
  // R6: `node.write()` then `guard.children.entry(byte).or_insert_with(|| Arc::new(RwLock::new(TrieNode::default()))).clone()`
  #[verifier::external_body]
  pub fn verif_child_or_insert(&mut self, n: &NodeRef, byte: u8) -> (r: NodeRef)
    requires old(self).view@.nodes.contains(n.path@)
    ensures r.path@ == n.path@.push(byte), final(self).root == old(self).root, final(self).view@.counts == old(self).view@.counts,
      final(self).view@.nodes == old(self).view@.nodes.insert(r.path@),
  { unimplemented!() }
  // R6: `node.read()` then `guard.count.fetch_add(1, Relaxed)` / `fetch_sub(1, Relaxed)`: wrapping, return the previous value
  #[verifier::external_body]
  pub fn verif_count_fetch_add(&mut self, n: &NodeGuard, d: usize, o: Ordering) -> (r: usize)
    requires old(self).view@.nodes.contains(n.path@)
    ensures r == cnt(old(self).view@, n.path@), final(self).root == old(self).root, final(self).view@.nodes == old(self).view@.nodes,
      final(self).view@.counts == old(self).view@.counts.insert(n.path@, (if r as int + d as int <= usize::MAX as int { r as int + d as int } else { r as int + d as int - usize::MAX as int - 1 }) as usize),
  { unimplemented!() }
  #[verifier::external_body]
  pub fn verif_count_fetch_sub(&mut self, n: &NodeGuard, d: usize, o: Ordering) -> (r: usize)
    requires old(self).view@.nodes.contains(n.path@)
    ensures r == cnt(old(self).view@, n.path@), final(self).root == old(self).root, final(self).view@.nodes == old(self).view@.nodes,
      final(self).view@.counts == old(self).view@.counts.insert(n.path@, (if r >= d { r as int - d as int } else { r as int - d as int + usize::MAX as int + 1 }) as usize),
  { unimplemented!() }
}
#[verifier::opaque]
pub open spec fn others_unchanged(a: TrieView, b: TrieView, t: Seq<u8>) -> bool { forall|p: Seq<u8>| p != t ==> cnt(b, p) == cnt(a, p) }
"""

SELF_MUT = [("&self", "&mut self")]
ATTRS = ["#[verifier::loop_isolation(false)]"]
# the lock + access idioms of the three functions (declared, each with its expected count)
READ = ("R6", re.compile(r"let (\w+) = (\w+)\.read\(\);"), r"let \1 = self.verif_read(&\2);", "+")
FADD = ("R6", re.compile(r"(\w+)\.count\.fetch_add\("), r"self.verif_count_fetch_add(&\1, ", "*")
FSUB = ("R6", re.compile(r"(\w+)\.count\.fetch_sub\("), r"self.verif_count_fetch_sub(&\1, ", "*")
R_MATCHES = [READ]
R_SUB = [READ, FADD,
  ("R6", re.compile(r"\{\s*let mut current_node_w = current_node_arc\.write\(\);\s*current_node_w\s*\.children\s*\.entry\(byte\)\s*\.or_insert_with\(\|\| Arc::new\(RwLock::new\(TrieNode::default\(\)\)\)\)\s*\.clone\(\)\s*\}", re.S),
   "{ self.verif_child_or_insert(&current_node_arc, byte) }", 1),
]
R_UNSUB = [READ, FADD, FSUB]

def walk_inv(tvar, extra=()):
  return {0: {"desugar": True, "invariant": [("C12:cursor_is_the_node_of_the_prefix_read_so_far", "current_node_arc.path@ =~= %s@.subrange(0, vx_i0 as int) && self.view@.nodes.contains(current_node_arc.path@)" % tvar)] + list(extra)}}

parts = [
  Raw("prelude/core.rs"),
  Raw("prelude/std.rs"),
  Raw(text=GLUE, label="trie-glue"),
  Fn(TR, "matches", impl=IMPL, emit_impl="impl SubscriptionTrie", attrs=ATTRS,
     requires=["self.wf()"],
     ensures=[("C12:delivers_iff_some_active_subscription_is_a_byte_prefix_of_the_topic", "r == matches_spec(self.view@, message_topic@)")],
     loops=walk_inv("message_topic", [("C12:no_shorter_prefix_matched", "forall|k: int| 0 <= k < vx_i0 ==> cnt(self.view@, #[trigger] message_topic@.subrange(0, k)) == 0")]),
     hints=[("k0", "@fn_start", 0, "", "proof { assert(message_topic@.subrange(0, 0) =~= Seq::<u8>::empty()); }"),
            ("none", "re:return false; // vx", 0, "before",
             "proof { let i = (vx_i0 - 1) as int; assert(message_topic@.subrange(0, i + 1) =~= message_topic@.subrange(0, i).push(message_topic@[i])); "
             "assert forall|k: int| i < k <= message_topic@.len() implies cnt(self.view@, #[trigger] message_topic@.subrange(0, k)) == 0 by { lemma_no_node_below(self.view@, message_topic@, i + 1, k); } }"),
            ("step", "@loop_end:0", 0, "", "proof { let i = (vx_i0 - 1) as int; assert(message_topic@.subrange(0, i + 1) =~= message_topic@.subrange(0, i).push(message_topic@[i])); }"),
            ("fin", "re:let final_node_r = ", 0, "before", "proof { assert(message_topic@.subrange(0, message_topic@.len() as int) =~= message_topic@); }")],
     extra=R_MATCHES + [("R5", "None => return false,", "None => {\n return false; // vx\n }", 1)]),
  Fn(TR, "subscribe", impl=IMPL, emit_impl="impl SubscriptionTrie", sig_sub=SELF_MUT, attrs=ATTRS, ret=None,
     requires=["old(self).wf()", "cnt(old(self).view@, topic@) < usize::MAX"],
     ensures=[("C12:wf", "final(self).wf()"),
              ("C12:subscribe_adds_one_to_exactly_this_topic", "cnt(final(self).view@, topic@) == cnt(old(self).view@, topic@) + 1 && others_unchanged(old(self).view@, final(self).view@, topic@)")],
     loops=walk_inv("topic", [("C12:wf_loop", "self.wf()"), ("C12:counts_untouched_while_walking", "self.view@.counts == old(self).view@.counts")]),
     hints=[("snap", "@loop_start:0", 0, "", "let ghost v0 = self.view@; let ghost parent = current_node_arc.path@;"),
            ("step", "@loop_end:0", 0, "", "proof { let i = (vx_i0 - 1) as int; assert(topic@.subrange(0, i + 1) =~= topic@.subrange(0, i).push(topic@[i])); lemma_insert_node_wf(v0, self.view@, parent, topic@[i]); }"),
            ("fin", "re:self\\.verif_count_fetch_add\\(&final_node_r, 1", 0, "before", "proof { assert(topic@.subrange(0, topic@.len() as int) =~= topic@); }\nlet ghost v1 = self.view@;"),
            ("fin2", "re:self\\.verif_count_fetch_add\\(&final_node_r, 1", 0, "after", "proof { lemma_set_count_wf(v1, self.view@, topic@, (cnt(v1, topic@) + 1) as usize); lemma_same_counts(old(self).view@, v1, topic@); lemma_others_trans(old(self).view@, v1, self.view@, topic@); }")],
     extra=R_SUB),
  Fn(TR, "unsubscribe", impl=IMPL, emit_impl="impl SubscriptionTrie", sig_sub=SELF_MUT, attrs=ATTRS,
     requires=["old(self).wf()"],
     ensures=[("C12:wf", "final(self).wf()"),
              ("C12:unsubscribe_removes_one_subscription_of_exactly_this_topic", "cnt(old(self).view@, topic@) > 0 ==> cnt(final(self).view@, topic@) == cnt(old(self).view@, topic@) - 1 && r == (cnt(old(self).view@, topic@) == 1)"),
              ("C12:unsubscribing_something_never_subscribed_changes_nothing", "cnt(old(self).view@, topic@) == 0 ==> !r && cnt(final(self).view@, topic@) == 0"),
              ("C12:other_topics_untouched", "others_unchanged(old(self).view@, final(self).view@, topic@) && final(self).view@.nodes == old(self).view@.nodes")],
     loops=walk_inv("topic", [("C12:nothing_touched_while_walking", "self.view == old(self).view && self.root == old(self).root")]),
     hints=[("none", "re:None => \\{", 0, "after",
             "proof { let i = (vx_i0 - 1) as int; assert(topic@.subrange(0, i + 1) =~= topic@.subrange(0, i).push(topic@[i])); lemma_no_node_below(self.view@, topic@, i + 1, topic@.len() as int); assert(topic@.subrange(0, topic@.len() as int) =~= topic@); lemma_others_refl(self.view@, topic@); }"),
            ("step", "@loop_end:0", 0, "", "proof { let i = (vx_i0 - 1) as int; assert(topic@.subrange(0, i + 1) =~= topic@.subrange(0, i).push(topic@[i])); }"),
            ("fin", "re:let final_node_r = ", 0, "before", "proof { assert(topic@.subrange(0, topic@.len() as int) =~= topic@); }\nlet ghost v1 = self.view@;"),
            ("fin2", "re:let old_count = self\\.verif_count_fetch_sub", 0, "after",
             "let ghost v2 = self.view@; proof { lemma_set_count_wf(v1, v2, topic@, (if cnt(v1, topic@) == 0 { usize::MAX } else { (cnt(v1, topic@) - 1) as usize })); }"),
            ("fin3", "re:self\\.verif_count_fetch_add\\(&final_node_r, 1", 0, "after",
             "proof { lemma_set_count_wf(v2, self.view@, topic@, 0usize); lemma_others_trans(v1, v2, self.view@, topic@); }")],
     extra=R_UNSUB),
  Raw(text="""
// if the node of the prefix of length j does not exist, no longer prefix has a node (prefix-closed), hence none has a subscription
pub proof fn lemma_no_node_below(v: TrieView, t: Seq<u8>, j: int, k: int)
  requires view_wf(v), 0 <= j <= k <= t.len(), !v.nodes.contains(t.subrange(0, j))
  ensures cnt(v, t.subrange(0, k)) == 0
  decreases k - j
{
  reveal(view_wf); reveal(others_unchanged);
  if k == j { } else {
    assert(t.subrange(0, k).drop_last() =~= t.subrange(0, k - 1));
    if v.nodes.contains(t.subrange(0, k)) { assert(v.nodes.contains(t.subrange(0, k - 1))); lemma_node_prefix_closed(v, t, j, k - 1); }
  }
}
pub proof fn lemma_insert_node_wf(v: TrieView, v2: TrieView, parent: Seq<u8>, b: u8)
  requires view_wf(v), v.nodes.contains(parent), v2.counts == v.counts, v2.nodes == v.nodes.insert(parent.push(b))
  ensures view_wf(v2)
{
  reveal(view_wf); reveal(others_unchanged);
  assert(parent.push(b).drop_last() =~= parent);
  assert forall|p: Seq<u8>| #[trigger] v2.nodes.contains(p) && p.len() > 0 implies v2.nodes.contains(p.drop_last()) by {
    if p == parent.push(b) { } else { assert(v.nodes.contains(p)); }
  }
  assert forall|p: Seq<u8>| #[trigger] cnt(v2, p) > 0 implies v2.nodes.contains(p) by { assert(cnt(v, p) == cnt(v2, p)); }
}
pub proof fn lemma_set_count_wf(v: TrieView, v2: TrieView, p: Seq<u8>, c: usize)
  requires view_wf(v), v.nodes.contains(p), v2.nodes == v.nodes, v2.counts == v.counts.insert(p, c)
  ensures view_wf(v2), cnt(v2, p) == c, others_unchanged(v, v2, p)
{
  reveal(view_wf); reveal(others_unchanged);
  assert forall|q: Seq<u8>| #[trigger] cnt(v2, q) > 0 implies v2.nodes.contains(q) by { if q == p { } else { assert(cnt(v, q) == cnt(v2, q)); } }
  assert forall|q: Seq<u8>| q != p implies cnt(v2, q) == cnt(v, q) by { }
}
pub proof fn lemma_same_counts(a: TrieView, b: TrieView, t: Seq<u8>) requires a.counts == b.counts ensures others_unchanged(a, b, t), cnt(a, t) == cnt(b, t) { reveal(others_unchanged); }
pub proof fn lemma_others_refl(a: TrieView, t: Seq<u8>) ensures others_unchanged(a, a, t) { reveal(others_unchanged); }
pub proof fn lemma_others_trans(a: TrieView, b: TrieView, c: TrieView, t: Seq<u8>)
  requires others_unchanged(a, b, t), others_unchanged(b, c, t)
  ensures others_unchanged(a, c, t)
{
  reveal(view_wf); reveal(others_unchanged); assert forall|q: Seq<u8>| q != t implies cnt(c, q) == cnt(a, q) by { assert(cnt(b, q) == cnt(a, q)); assert(cnt(c, q) == cnt(b, q)); } }
pub proof fn lemma_node_prefix_closed(v: TrieView, t: Seq<u8>, j: int, k: int)
  requires view_wf(v), 0 <= j <= k <= t.len(), v.nodes.contains(t.subrange(0, k))
  ensures v.nodes.contains(t.subrange(0, j))
  decreases k - j
{
  reveal(view_wf); reveal(others_unchanged);
  if k > j { assert(t.subrange(0, k).drop_last() =~= t.subrange(0, k - 1)); lemma_node_prefix_closed(v, t, j, k - 1); }
}
""", label="trie-lemmas", lemmas=True, props=["C12"]),
]

FNS = {p.name: p for p in parts if isinstance(p, Fn)}
unit = Unit("trie", ["C12"], parts, safety_props=["C12"], notes="SUB subscription trie against an abstract prefix-count view")
