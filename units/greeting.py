"""U-greeting: ZMTP greeting encode/decode (protocol/zmtp/greeting.rs): decode is total on every 64-byte input and accepts
exactly the well-formed ones; encode_v3_tail / encode_signature produce the staged pieces; decode(encode(m, s)) == (3.0, m, s).
Discharges the contracts the engine unit assumes for ZmtpGreeting::decode and encode_v3_tail."""
import re
from vlib.vx import Fn, Item, Raw
from vlib.runner import Unit

GR = "core/src/protocol/zmtp/greeting.rs"


CONSTS = ["GREETING_LENGTH", "MECHANISM_LENGTH", "SIGNATURE_LENGTH", "GREETING_VERSION_MAJOR_BYTE", "GREETING_VERSION_MINOR_BYTE",
          "VERSION_MAJOR_OFFSET", "VERSION_MINOR_OFFSET", "MECHANISM_OFFSET", "AS_SERVER_OFFSET", "PADDING_OFFSET", "PADDING_LENGTH"]

parts = [
  Raw("prelude/core.rs"),
  Raw("prelude/std.rs"),
  Raw("prelude/bytes.rs"),
] + [Item(GR, "const", c) for c in CONSTS] + [
  Item(GR, "struct", "ZmtpGreeting"),
  Raw("prelude/greeting_spec.rs"),
  Fn(GR, "encode_signature",
     ensures=[("C05:signature_bytes", "final(buffer)@ =~= old(buffer)@ + sig_bytes()")]),
  Fn(GR, "encode_v3_tail",
     ensures=[("C05:tail_bytes", "final(buffer)@ =~= old(buffer)@ + v3_tail(mechanism@, as_server)"),
              ("C05:tail_is_53_bytes", "final(buffer)@.len() == old(buffer)@.len() + 53")],
     extra=[("R6", "as_server as u8", "verif_bool_u8(as_server)", 1)]),
  Fn(GR, "peek_revision",
     ensures=[("C05+C07:ok_iff_signature_present", "r is Ok <==> (buf@.len() >= 11 && buf@[0] == 0xFF && buf@[9] == 0x7F)"),
              ("C05:revision_byte", "r matches Ok(v) ==> v == buf@[10]")]),
  Fn(GR, "decode", impl=r"impl\s+ZmtpGreeting\b", emit_impl="impl ZmtpGreeting",
     sig_sub=[("Option<Self>", "Option<ZmtpGreeting>")],
     ensures=[
       ("C05+C07:needs_64_bytes", "old(buffer)@.len() < 64 ==> (r matches Ok(None)) && final(buffer)@ == old(buffer)@"),
       ("C05+C07:consumes_exactly_64", "old(buffer)@.len() >= 64 ==> !(r matches Ok(None)) && final(buffer)@ == old(buffer)@.subrange(64, old(buffer)@.len() as int)"),
       ("C05+C07:accepts_exactly_wellformed", "old(buffer)@.len() >= 64 ==> ((r matches Ok(Some(_))) <==> greeting_ok(old(buffer)@.subrange(0, 64)))"),
       ("C04:consumes_from_the_front_only", "final(buffer).stream() =~= old(buffer).stream()"),
       ("C05:fields", "r matches Ok(Some(g)) ==> g.version.0 == 3 && g.version.1 == old(buffer)@[11] && g.mechanism@ == old(buffer)@.subrange(12, 32) && g.as_server == (old(buffer)@[32] == 1)"),
     ],
     extra=[("R8", "mechanism_slice.try_into().unwrap()", "verif_array20(mechanism_slice)", 1),
            ("R5", "Ok(Some(Self {", "Ok(Some(ZmtpGreeting {", 1)],
     loops={0: {"ghost_iter": "it",
                "invariant": ["data@ == old(buffer)@.subrange(0, 64)", "data@.len() == 64", "old(buffer)@.len() >= 64",
                              "buffer@ == old(buffer)@.subrange(64, old(buffer)@.len() as int)", "buffer.stream() =~= old(buffer).stream()",
                              "forall|j: int| 33 <= j < 33 + it.index@ ==> data@[j] == 0", "it.index@ <= 31"]}},
     hints=[("pad", "re:let major_version = ", 0, "before", "proof { assert(forall|j: int| 33 <= j < 64 ==> data@[j] == 0); }")]),
  Fn(GR, "encode", impl=r"impl\s+ZmtpGreeting\b", emit_impl="impl ZmtpGreeting",
     # derived precondition: the padding is computed from the buffer's total length, so the buffer must be empty
     requires=["old(buffer)@.len() == 0"],
     ensures=[("C05:greeting_is_64_bytes_wellformed", "final(buffer)@.len() == 64 && greeting_ok(final(buffer)@)"),
              ("C05:carries_mechanism_and_role", "final(buffer)@.subrange(12, 32) =~= mechanism@ && (final(buffer)@[32] == 1) == as_server && final(buffer)@[11] == 0")],
     extra=[("R6", "as_server as u8", "verif_bool_u8(as_server)", 1),
            ("R1", re.compile(r"debug_assert_eq!\(buffer\.len\(\), GREETING_LENGTH\);"), "", 1)]),
]

FNS = {p.name: p for p in parts if isinstance(p, Fn)}
unit = Unit("greeting", ["C05", "C07"], parts, safety_props=["C07"], notes="greeting encode/decode")
