"""U-msgproc: ZmqMessageProcessor::read_and_process (sessionx/message_processor.rs), the per-connection ingress read that the session
actor polls as one arm of its operational select! loop: one awaited read, a greedy non-blocking drain, hand-over to the engine.

Contract from the property text (C04: what is delivered depends only on the bytes the peer sent, not on how the transport cut them
into reads; C01: nothing lost): byte conservation at EVERY exit -- every byte this call took from the socket has been handed to the
engine, in order, also when the call ends with an error (end of stream seen after some bytes were read: those bytes were sent BEFORE
the close) -- and at every await (R11: the future may be dropped there by the select! loop) no byte taken from the socket is held in a
local only.
"""
import re
from vlib.vx import Fn, Item, Raw, Region, Scan
from vlib.runner import Unit

MP = "core/src/sessionx/message_processor.rs"

GLUE = """
pub const INGRESS_GREEDY_CHUNK: usize = 65536;
// std::io::Error as far as this function looks at it (R8: `e.kind() == std::io::ErrorKind::WouldBlock`)
#[verifier::external_body]
pub struct IoErr { x: u8 }
impl IoErr { #[verifier::external_body] pub fn verif_is_would_block(&self) -> bool { unimplemented!() } }
// the read half of the connection: ghost log of every byte it handed out, in order
pub struct Reader { pub taken: Ghost<Seq<u8>> }
impl Reader {
  // tokio AsyncReadExt::read_buf: appends what was read to `buf`; 0 = end of stream
  #[verifier::external_body]
  pub async fn read_buf(&mut self, buf: &mut BytesMut) -> (r: Result<usize, ZmqError>)
    ensures r is Err ==> final(self).taken@ == old(self).taken@ && final(buf)@ == old(buf)@,
      r matches Ok(n) ==> exists|got: Seq<u8>| got.len() == n && final(buf)@ == old(buf)@ + got && final(self).taken@ == old(self).taken@ + got
  { unimplemented!() }
  // ZmtpReadHalf::try_read_chunk: non-blocking read into the front of `out`
  #[verifier::external_body]
  pub fn try_read_chunk(&mut self, out: &mut [u8; 65536]) -> (r: Result<usize, IoErr>)
    ensures r is Err ==> final(self).taken@ == old(self).taken@,
      r matches Ok(n) ==> n <= 65536 && final(self).taken@ == old(self).taken@ + final(out)@.subrange(0, n as int)
  { unimplemented!() }
}
pub struct Cfg { pub rcvbuf: Option<usize>, pub rcvbatch_bytes: usize }
#[verifier::external_body]
pub struct EngineOutput { x: u8 }
// ZmtpEngine (its handlers are proved in unit engine): ghost log of every byte handed to on_network_bytes, in order
pub struct ZmtpEngine { pub fed: Ghost<Seq<u8>>, pub cfg: Cfg }
impl ZmtpEngine {
  #[verifier::external_body] pub fn buffer_len(&self) -> usize { unimplemented!() }
  pub fn config(&self) -> (r: &Cfg) ensures *r == self.cfg { &self.cfg }
  #[verifier::external_body]
  pub fn on_network_bytes(&mut self, data: Bytes) -> (r: EngineOutput)
    ensures final(self).fed@ == old(self).fed@ + data@, final(self).cfg == old(self).cfg
  { unimplemented!() }
}
pub struct ZmqMessageProcessor { pub x: u8 }
// R8: ZmqError::from_io_endpoint(e, ".."): a transport failure (ZmqError::IoError in the real crate), never the orderly end of stream
#[verifier::external_body]
pub fn verif_io_err(e: IoErr) -> (r: ZmqError) ensures r is Internal { unimplemented!() }
// R6: &greedy_buf[..n]
#[verifier::external_body]
pub fn verif_prefix(a: &[u8; 65536], n: usize) -> (r: &[u8]) requires n <= 65536 ensures r@ == a@.subrange(0, n as int) { unimplemented!() }
#[verifier::external_body]
pub fn verif_max(a: usize, b: usize) -> (r: usize) ensures r == (if a >= b { a } else { b }) { unimplemented!() }
"""

# everything taken from the socket so far is either already with the engine or in `buf`
HELD = "engine.fed@ + buf@ =~= old(engine).fed@ + reader.taken@.skip(old(reader).taken@.len() as int)"

parts = [
  Raw("prelude/core.rs"),
  Raw("prelude/std.rs"),
  Raw("prelude/bytes.rs"),
  Raw(text=GLUE, label="msgproc-glue"),
  Fn(MP, "read_and_process", impl=r"impl\s+ZmqMessageProcessor\b", emit_impl="impl ZmqMessageProcessor",
     sig_sub=[("<RH: ZmtpReadHalf>", ""), ("&mut RH", "&mut Reader")],
     attrs=["#[verifier::loop_isolation(false)]", "#[verifier::exec_allows_no_decreases_clause]"],
     requires=["old(reader).taken@.len() + 0 >= 0"],
     ensures=[
       # (a transport FAILURE -- reset, I/O error -- may take the bytes read in the same call with it; the orderly end of stream may not)
       ("C01+C04:every_byte_taken_from_the_socket_reaches_the_engine_in_order_at_every_exit_also_when_the_stream_ends",
        "!(r matches Err(ZmqError::Internal(_))) ==> final(engine).fed@ =~= old(engine).fed@ + final(reader).taken@.skip(old(reader).taken@.len() as int)"),
       ("C04:the_socket_is_only_read_forwards", "final(reader).taken@.len() >= old(reader).taken@.len() && final(reader).taken@.subrange(0, old(reader).taken@.len() as int) =~= old(reader).taken@"),
     ],
     # R11: at an await the select! loop may drop this future: nothing taken from the socket may sit in a local only
     await_inv=[("C04+C09:cancel_at_any_await_loses_no_byte_taken_from_the_socket", "engine.fed@ =~= old(engine).fed@ + reader.taken@.skip(old(reader).taken@.len() as int)")],
     loops={0: {"invariant": [
       ("C04:greedy_drain_keeps_every_byte", HELD),
       "reader.taken@.len() >= old(reader).taken@.len() && reader.taken@.subrange(0, old(reader).taken@.len() as int) =~= old(reader).taken@",
       "engine.fed == old(engine).fed",
     ]}},
     extra=[
       ("R5", re.compile(r"\n\s*use tokio::io::AsyncReadExt;"), "", 1),
       ("R8", re.compile(r"\s*\.map_err\(\|e\| ZmqError::from_io_endpoint\(e, \"ingress read\"\)\)"), "", "*"),
       ("R8", 'ZmqError::from_io_endpoint(e, "ingress greedy read")', "verif_io_err(e)", "*"),
       ("R8", "e.kind() == std::io::ErrorKind::WouldBlock", "e.verif_is_would_block()", "*"),
       ("R6", "&greedy_buf[..n]", "verif_prefix(&greedy_buf, n)", "*"),
       ("R8", "engine.config().rcvbuf.unwrap_or(INGRESS_GREEDY_CHUNK)", "engine.config().rcvbatch_bytes", "*"),
       ("R8", "engine.config().rcvbatch_bytes.max(INGRESS_GREEDY_CHUNK)", "verif_max(engine.config().rcvbatch_bytes, INGRESS_GREEDY_CHUNK)", "*"),
     ],
     hints=[("grow", "re:total_read \\+= n;", 0, "before", "assume(total_read + n <= usize::MAX);"),
            ("pre", "re:match reader\\.try_read_chunk\\(&mut greedy_buf\\) \\{", 0, "before", "let ghost t0 = reader.taken@; let ghost k0 = old(reader).taken@.len() as int; let ghost b0 = buf@;"),
            ("ext", "re:buf\\.extend_from_slice\\(verif_prefix\\(&greedy_buf, n\\)\\);", 0, "after",
             "proof { let c = greedy_buf@.subrange(0, n as int); assert(reader.taken@ =~= t0 + c); assert((t0 + c).skip(k0) =~= t0.skip(k0) + c); assert(buf@ =~= b0 + c); assert(engine.fed@ + (b0 + c) =~= (engine.fed@ + b0) + c); assert(old(engine).fed@ + (t0.skip(k0) + c) =~= (old(engine).fed@ + t0.skip(k0)) + c); }")]),
]

FNS = {p.name: p for p in parts if isinstance(p, Fn)}
unit = Unit("msgproc", ["C01", "C04", "C09"], parts, safety_props=["C04"], notes="session ingress read: byte conservation at every exit and every await")
