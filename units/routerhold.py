"""U-routerhold: RouterSocket::{hold_pending_batch, finalize_pipe} (socket/router_socket.rs): the two writers of ROUTER's identity gate.
Unit routerrecv ASSUMES a contract for hold_pending_batch (the parked batches grow by exactly the batch handed in; the finalized set
only grows); this unit proves the corresponding statements on the real bodies, over the concrete state (the map of per-pipe FIFOs,
the counter, the finalized set), so that the assumption is no longer unchecked for these two functions.

Contracts from the property texts (C11: a batch is never labelled with another pipe's identity / never released before its pipe's
identity is final; C01/C02: nothing is lost, per-pipe order is kept):
  hold_pending_batch(p, b): the whole map afterwards is the old map with p's queue replaced by (old queue of p, or empty) + [b] --
      b goes to the BACK of p's own FIFO, every other pipe's queue is untouched, nothing is dropped; the counter grows by exactly 1;
      the finalized set is untouched (parking a batch never makes a pipe releasable);
  finalize_pipe(p): the finalized set afterwards is the old one plus p (monotone: nothing is removed), the parked batches and the
      counter are untouched, and the waiters are woken AFTER p is in the set (a receiver woken by this call sees p finalized).

Stand-ins: held_ingress (parking_lot::Mutex<HashMap<usize, VecDeque<FrameBatch>>>) is a sequential ghost-viewed map (R6; the lock is
held for the whole update in the real body: one statement), `.entry(k).or_default()` is one operation (R8, as in unit connfail);
held_count (AtomicUsize) is a mathematical counter (R8; wrap-around of usize ignored: listed as an assumption); pipe_finalized
(DashMap<usize, ()>) is a ghost-viewed set; Notify::notify_waiters logs the finalized set it was called under.
"""
import re
from vlib.vx import Fn, Raw
from vlib.runner import Unit

RS = "core/src/socket/router_socket.rs"
IMPL = r"impl\s+RouterSocket\b"

GLUE = """
// VecDeque<FrameBatch>
#[verifier::external_body]
pub struct HeldQueue { x: u8 }
impl HeldQueue {
  pub uninterp spec fn view(&self) -> Seq<Seq<Msg>>;
  #[verifier::external_body]
  pub fn push_back(&mut self, b: FrameBatch) ensures final(self)@ == old(self)@.push(b@) { unimplemented!() }
}
// R6: parking_lot::Mutex<HashMap<usize, VecDeque<FrameBatch>>>, sequential; view = pipe id -> FIFO of parked batches
#[verifier::external_body]
pub struct HeldMap { x: u8 }
impl HeldMap {
  pub uninterp spec fn view(&self) -> Map<usize, Seq<Seq<Msg>>>;
  // R8: `.lock().entry(k).or_default()` -- the queue of k, created empty if absent; whatever the caller does through the returned
  // reference is k's queue afterwards, every other entry is untouched
  #[verifier::external_body]
  pub fn verif_entry_or_default(&mut self, k: usize) -> (r: &mut HeldQueue)
    ensures
      r@ == (if old(self)@.contains_key(k) { old(self)@[k] } else { Seq::<Seq<Msg>>::empty() }),
      final(self)@ == old(self)@.insert(k, final(r)@),
  { unimplemented!() }
}
// R8: AtomicUsize, as a mathematical counter
pub struct Counter { pub v: Ghost<int> }
impl Counter {
  #[verifier::external_body]
  pub fn verif_fetch_add(&mut self, d: usize) -> (r: usize) ensures final(self).v@ == old(self).v@ + d { unimplemented!() }
}
// DashMap<usize, ()>
#[verifier::external_body]
pub struct FinalizedSet { x: u8 }
impl FinalizedSet {
  pub uninterp spec fn view(&self) -> Set<usize>;
  #[verifier::external_body]
  pub fn insert(&mut self, k: usize, v: ()) ensures final(self)@ == old(self)@.insert(k) { unimplemented!() }
}
pub struct RouterSocket {
  pub held_ingress: HeldMap,
  pub held_count: Counter,
  pub pipe_finalized: FinalizedSet,
  pub woken_under: Ghost<Seq<Set<usize>>>,   // ghost: the finalized set at every notify_waiters() so far
}
impl RouterSocket {
  // R8: self.identity_finalized_notify.notify_waiters()
  #[verifier::external_body]
  pub fn verif_notify_waiters(&mut self)
    ensures final(self).woken_under@ == old(self).woken_under@.push(old(self).pipe_finalized@),
      final(self).held_ingress == old(self).held_ingress, final(self).held_count == old(self).held_count, final(self).pipe_finalized == old(self).pipe_finalized,
  { unimplemented!() }
}
pub open spec fn queue_of(m: Map<usize, Seq<Seq<Msg>>>, p: usize) -> Seq<Seq<Msg>> { if m.contains_key(p) { m[p] } else { Seq::<Seq<Msg>>::empty() } }
"""

parts = [
  Raw("prelude/core.rs"),
  Raw("prelude/std.rs"),
  Raw("prelude/bytes.rs"),
  Raw("prelude/msg.rs"),
  Raw("prelude/framebatch.rs"),
  Raw(text=GLUE, label="routerhold-glue"),
  Fn(RS, "hold_pending_batch", impl=IMPL, emit_impl="impl RouterSocket", sig_sub=[("&self", "&mut self")],
     extra=[
       ("R8", re.compile(r"self\s*\.held_ingress\s*\.lock\(\)\s*\.entry\(pipe_read_id\)\s*\.or_default\(\)", re.S), "self.held_ingress.verif_entry_or_default(pipe_read_id)", 1),
       ("R8", "self.held_count.fetch_add(1, Ordering::AcqRel);", "self.held_count.verif_fetch_add(1);", 1),
     ],
     ensures=[
       ("C11+C01+C02:the_batch_is_parked_at_the_back_of_its_own_pipes_queue_and_every_other_queue_is_untouched",
        "final(self).held_ingress@ == old(self).held_ingress@.insert(pipe_read_id, queue_of(old(self).held_ingress@, pipe_read_id).push(batch@))"),
       ("C11:the_counter_counts_exactly_the_parked_batch", "final(self).held_count.v@ == old(self).held_count.v@ + 1"),
       ("C11:parking_a_batch_finalizes_nothing", "final(self).pipe_finalized == old(self).pipe_finalized && final(self).woken_under == old(self).woken_under"),
     ]),
  Fn(RS, "finalize_pipe", impl=IMPL, emit_impl="impl RouterSocket", sig_sub=[("&self", "&mut self")],
     extra=[
       ("R8", "self.identity_finalized_notify.notify_waiters();", "self.verif_notify_waiters();", 1),
     ],
     ensures=[
       ("C11:the_finalized_set_grows_by_exactly_this_pipe", "final(self).pipe_finalized@ == old(self).pipe_finalized@.insert(pipe_read_id)"),
       ("C11+C01:finalizing_touches_no_parked_batch", "final(self).held_ingress == old(self).held_ingress && final(self).held_count == old(self).held_count"),
       ("C11:waiters_are_woken_after_the_pipe_is_in_the_set",
        "final(self).woken_under@.len() == old(self).woken_under@.len() + 1 && final(self).woken_under@.last().contains(pipe_read_id) "
        "&& final(self).woken_under@.drop_last() =~= old(self).woken_under@"),
     ]),
]

FNS = {p.name: p for p in parts if isinstance(p, Fn)}
unit = Unit("routerhold", ["C11", "C01", "C02"], parts, safety_props=["C11"], notes="ROUTER identity gate writers: hold_pending_batch, finalize_pipe")
