"""U-backoff: ReconnectState (socket/core/state.rs): reconnect delays start at RECONNECT_IVL, grow at most
geometrically, never exceed RECONNECT_IVL_MAX when set -- for all (attempts, base, max)."""
import re
from vlib.vx import Fn, Item, Raw
from vlib.runner import Unit

ST = "core/src/socket/core/state.rs"
OPT = "core/src/socket/options.rs"
IMPL = r"impl\s+ReconnectState\b"

SPEC = """
pub open spec fn pow2(n: nat) -> nat decreases n { if n == 0 { 1 } else { 2 * pow2((n - 1) as nat) } }
pub open spec fn min_nat(a: nat, b: nat) -> nat { if a <= b { a } else { b } }
// the back-off law of C17 as a function of (attempts so far, RECONNECT_IVL, RECONNECT_IVL_MAX), all in ns
pub open spec fn backoff(attempts: nat, base: nat, max: nat) -> nat {
  let raw = min_nat(base * pow2(min_nat(attempts, 31)), DUR_MAX_NS());
  if max > 0 { min_nat(raw, max) } else { raw }
}
// 2u32.saturating_pow(n) for n <= 31 is the exact power (2^31 fits in u32)
#[verifier::external_body]
pub fn verif_pow2_u32(n: u32) -> (r: u32)
  requires n <= 31
  ensures r as nat == pow2(n as nat)
{ 2u32.saturating_pow(n) }
#[verifier::external_body]
pub fn verif_min_u32(a: u32, b: u32) -> (r: u32) ensures r == (if a <= b { a } else { b }) { a.min(b) }

pub proof fn lemma_pow2_mono(a: nat, b: nat)
  requires a <= b
  ensures pow2(a) <= pow2(b), pow2(a) >= 1
  decreases b
{
  if a < b { lemma_pow2_mono(a, (b - 1) as nat); }
  if a > 0 { lemma_pow2_mono((a - 1) as nat, (a - 1) as nat); }
}
// "grow at most geometrically": the next delay is never more than twice the previous one, and never smaller
pub proof fn lemma_backoff_geometric(a: nat, base: nat, max: nat)
  ensures
    backoff(a + 1, base, max) <= 2 * backoff(a, base, max),
    backoff(a, base, max) <= backoff(a + 1, base, max),
    backoff(0, base, max) == (if max > 0 { min_nat(min_nat(base, DUR_MAX_NS()), max) } else { min_nat(base, DUR_MAX_NS()) }),
    max > 0 ==> backoff(a, base, max) <= max,
{
  let e0 = min_nat(a, 31); let e1 = min_nat(a + 1, 31);
  lemma_pow2_mono(e0, e1);
  assert(pow2(e1) <= 2 * pow2(e0)) by { if e1 == e0 + 1 { assert(pow2(e1) == 2 * pow2(e0)); } };
  assert(base * pow2(e0) <= base * pow2(e1)) by (nonlinear_arith) requires pow2(e0) <= pow2(e1);
  assert(base * pow2(e1) <= 2 * (base * pow2(e0))) by (nonlinear_arith) requires pow2(e1) <= 2 * pow2(e0);
  assert(pow2(0) == 1);
  assert(base * pow2(0) == base) by (nonlinear_arith) requires pow2(0) == 1;
}
"""

parts = [
  Raw("prelude/core.rs"),
  Raw("prelude/std.rs"),
  Raw("prelude/time.rs"),
  Raw(text=SPEC, label="backoff-spec", lemmas=True, props=["C17"]),
  Item(ST, "struct", "ReconnectState"),
  Fn(ST, "on_connection_success", impl=IMPL, emit_impl="impl ReconnectState",
     ensures=[("C17:success_resets", "final(self).current_attempts == 0 && final(self).next_attempt_at is None")]),
  Fn(ST, "on_connection_failure", impl=IMPL, emit_impl="impl ReconnectState",
     sig_sub=[("std::time::Duration", "Duration")],
     # option parsing yields RECONNECT_IVL / RECONNECT_IVL_MAX of at most i32::MAX ms; with larger values `Instant + delay` may panic
     requires=["base_ivl.ns() <= 2_147_483_647nat * 1_000_000", "max_ivl.ns() <= 2_147_483_647nat * 1_000_000"],
     ensures=[
       ("C17:delay_follows_backoff_law", "r.ns() == backoff(old(self).current_attempts as nat, base_ivl.ns(), max_ivl.ns())"),
       ("C17:never_above_max_when_set", "max_ivl.ns() > 0 ==> r.ns() <= max_ivl.ns()"),
       ("C17:first_delay_is_base", "old(self).current_attempts == 0 ==> r.ns() == (if max_ivl.ns() > 0 { min_nat(base_ivl.ns(), max_ivl.ns()) } else { base_ivl.ns() })"),
       ("C17:attempts_counted", "final(self).current_attempts == (if old(self).current_attempts == u32::MAX { u32::MAX } else { (old(self).current_attempts + 1) as u32 })"),
       ("C17:next_attempt_scheduled_after_delay", "final(self).next_attempt_at matches Some(t) && t.ns() >= r.ns()"),
     ],
     extra=[("R8", "2u32.saturating_pow(self.current_attempts.min(31))", "verif_pow2_u32(verif_min_u32(self.current_attempts, 31))", 1),
            ("R5", "std::time::Duration::ZERO", "Duration::verif_zero()", 1),
            ("R8", "delay.min(max_ivl)", "verif_dur_min(delay, max_ivl)", 1),
            ("R8", "Instant::now() + delay", "verif_instant_add(Instant::now(), delay)", 1)],
     hints=[("law", "@fn_start", 0, "", "proof { lemma_pow2_mono(min_nat(self.current_attempts as nat, 31), 31); assert(pow2(31) == 2147483648) by (compute); assert(pow2(0) == 1); assert(base_ivl.ns() * 1 == base_ivl.ns()); }"),
            ("mul", "re:let mut delay = ", 0, "after",
             "proof { assert(base_ivl.ns() * multiplier as nat <= 2_147_483_647nat * 1_000_000 * 2147483648) by (nonlinear_arith) requires base_ivl.ns() <= 2_147_483_647nat * 1_000_000, multiplier as nat <= 2147483648; }")]),
  Fn(ST, "is_due", impl=IMPL, emit_impl="impl ReconnectState",
     ensures=[("C17:due_iff_time_reached", "r == (self.next_attempt_at matches Some(t) && now.ns() >= t.ns())")]),
  # where the precondition of on_connection_failure comes from: the option parsers (socket/options.rs)
  Raw(text="""
#[verifier::external_body]
pub fn parse_i32_option(value: &[u8]) -> (r: Result<i32, ZmqError>) { unimplemented!() }
""", label="options-glue"),
  Item(OPT, "const", "RECONNECT_IVL"),
  Item(OPT, "const", "RECONNECT_IVL_MAX"),
  Fn(OPT, "parse_reconnect_ivl_option",
     ensures=[("C17:ivl_within_i32_ms", "r matches Ok(Some(d)) ==> 1_000_000 <= d.ns() <= 2_147_483_647nat * 1_000_000")]),
  Fn(OPT, "parse_reconnect_ivl_max_option",
     ensures=[("C17:ivl_max_within_i32_ms", "r matches Ok(Some(d)) ==> d.ns() <= 2_147_483_647nat * 1_000_000")],
     extra=[("R5", "Duration::ZERO", "Duration::verif_zero()", 1)]),
]

FNS = {p.name: p for p in parts if isinstance(p, Fn)}
unit = Unit("backoff", ["C17"], parts, safety_props=["C17"], notes="reconnect back-off arithmetic")
