"""U-flags: sender-side MORE normalisation -- what every send_multipart() puts on the wire is the application's frames, in order,
payload untouched, MORE set on all but the last frame and cleared on the last (C02: "with MORE set on all but the last"), whatever
flags the application left on them.  PUSH send_multipart (+ its SNDTIMEO wrapper send_with_timeout, C14), PUB send_multipart,
DEALER prepare_full_multipart_send_sequence (manual and automatic framing), and the wire-assembly region of REP send_multipart.

The loops are `for (i, frame) in frames.iter_mut().enumerate()` (iterator adapters are outside Verus): rewrite R9e turns them into an
indexed while loop over the same container with `frame` spelled `frames[i]`.
"""
import re
from vlib.vx import Fn, Item, Raw, Region, Scan
from vlib.runner import Unit

PUSH = "core/src/socket/push_socket.rs"
PUB = "core/src/socket/pub_socket.rs"
DEAL = "core/src/socket/dealer_socket.rs"
REP = "core/src/socket/rep_socket.rs"
TYPES = "core/src/socket/types.rs"
ROUTER = "core/src/socket/router_socket.rs"
PUSH_IMPL = r"impl\s+ISocket\s+for\s+PushSocket\b"
PUB_IMPL = r"impl\s+ISocket\s+for\s+PubSocket\b"

GLUE = """
pub struct Elapsed { pub x: u8 }
// what "normalised" means, from the property text: same frames in the same order, payload and COMMAND bit untouched,
// MORE on all but the last
pub open spec fn normalised(out: Seq<Msg>, inp: Seq<Msg>) -> bool {
  &&& out.len() == inp.len()
  &&& forall|i: int| 0 <= i < out.len() ==> (#[trigger] out[i]).data == inp[i].data && out[i].flags.command == inp[i].flags.command && out[i].flags.more == (i < out.len() - 1)
}
// loop invariant of the normalisation loops: frames [0, k) done, the rest untouched
pub open spec fn normalised_upto(cur: Seq<Msg>, inp: Seq<Msg>, k: int) -> bool {
  &&& cur.len() == inp.len()
  &&& forall|i: int| 0 <= i < k ==> (#[trigger] cur[i]).data == inp[i].data && cur[i].flags.command == inp[i].flags.command && cur[i].flags.more == (i < cur.len() - 1)
  &&& forall|i: int| k <= i < cur.len() ==> #[trigger] cur[i] == inp[i]
}
#[verifier::external_body]
pub struct CoreRef { x: u8 }
impl CoreRef {
  pub uninterp spec fn running(&self) -> bool;
  #[verifier::external_body] pub fn is_running(&self) -> (r: bool) ensures r == self.running() { unimplemented!() }
}
// OutgoingMessageOrchestrator::route_message (proved in unit route): ghost log of the batches handed to it.
// route_message itself arms no timer; a Timeout error can only come up from a connection whose own SNDTIMEO is positive
// (unit iface: ScaConnectionIface::send_multipart_owned answers Timeout only after a timed wait, i.e. only for a positive sndtimeo).
pub struct Orchestrator { pub routed: Ghost<Seq<Seq<Msg>>>, pub timed: Ghost<Seq<Option<nat>>> }
impl Orchestrator {
  // the rest of the real type's read-only API (any answer: peers come and go)
  #[verifier::external_body] pub fn has_connections(&self) -> bool { unimplemented!() }
  #[verifier::external_body]
  pub async fn wait_for_connection(&mut self) -> (r: Result<(), ZmqError>)
    ensures final(self).routed == old(self).routed, final(self).timed == old(self).timed, final(self).conn_sndtimeo_positive() == old(self).conn_sndtimeo_positive()
  { unimplemented!() }
  // R8: tokio_timeout(d, self.outgoing_orchestrator.wait_for_connection()).await -- a timed wait for a first peer (routes nothing)
  #[verifier::external_body]
  pub async fn verif_timed_wait_for_connection(&mut self, d: Duration) -> (r: Result<Result<(), ZmqError>, Elapsed>)
    ensures final(self).routed == old(self).routed, final(self).timed == old(self).timed, final(self).conn_sndtimeo_positive() == old(self).conn_sndtimeo_positive()
  { unimplemented!() }
  pub uninterp spec fn conn_sndtimeo_positive(&self) -> bool;   // the SNDTIMEO the connections were created with is positive
  #[verifier::external_body]
  pub async fn route_message(&mut self, fb: FrameBatch, wait_for_peer: bool) -> (r: Result<(), (FrameBatch, ZmqError)>)
    ensures final(self).routed@ == old(self).routed@.push(fb@), final(self).timed@ == old(self).timed@.push(None),
      final(self).conn_sndtimeo_positive() == old(self).conn_sndtimeo_positive(),
      r matches Err(p) ==> ((p.1 is Timeout) ==> old(self).conn_sndtimeo_positive()),
  { unimplemented!() }
  // R8: tokio_timeout(d, self.outgoing_orchestrator.route_message(fb, wait_for_peer)).await
  #[verifier::external_body]
  pub async fn verif_timed_route(&mut self, d: Duration, fb: FrameBatch, wait_for_peer: bool) -> (r: Result<Result<(), (FrameBatch, ZmqError)>, Elapsed>)
    ensures final(self).routed@ == old(self).routed@.push(fb@), final(self).timed@ == old(self).timed@.push(Some(d.ns())),
      final(self).conn_sndtimeo_positive() == old(self).conn_sndtimeo_positive(),
  { unimplemented!() }
}
pub struct PushSocket { pub core: CoreRef, pub outgoing_orchestrator: Orchestrator, pub sndtimeo: Option<Duration>,
  pub pending_send_parts: FrameBatch }   // R6: parking_lot::Mutex<FrameBatch>, sequential (one task sends a message frame by frame)
impl PushSocket {
  // R8: self.cached_options.load().sndtimeo
  #[verifier::external_body] pub fn verif_sndtimeo(&self) -> (r: Option<Duration>) ensures r == self.sndtimeo { unimplemented!() }
}
// PUB: the distributor fan-out (C12, not under contract): ghost log of the batches handed to it
pub struct Distributor { pub sent: Ghost<Seq<Seq<Msg>>> }
impl Distributor {
  #[verifier::external_body]
  pub async fn verif_send_to_all(&mut self, frames: FrameBatch) -> (r: Result<(), Vec<(String, ZmqError)>>)
    ensures final(self).sent@ == old(self).sent@.push(frames@)
  { unimplemented!() }
  #[verifier::external_body] pub fn remove_peer_uri(&mut self, uri: &String) ensures final(self).sent == old(self).sent { unimplemented!() }
  // R8: send_to_all(&msg, ..): the single-frame fan-out
  #[verifier::external_body]
  pub async fn verif_send_one_to_all(&mut self, msg: &Msg) -> (r: Result<(), Vec<(String, ZmqError)>>)
    ensures final(self).sent@ == old(self).sent@.push(seq![*msg])
  { unimplemented!() }
}
pub struct PubSocket { pub core: CoreRef, pub distributor: Distributor,
  pub pending_send_parts: FrameBatch }   // R6: parking_lot::Mutex<FrameBatch>, sequential
// try_route_sync of the orchestrator (proved in unit route: a refused batch comes back intact)
impl Orchestrator {
  #[verifier::external_body]
  pub fn try_route_sync(&mut self, fb: FrameBatch) -> (r: Result<(), (FrameBatch, ZmqError)>)
    ensures r is Ok ==> final(self).routed@ == old(self).routed@.push(fb@), r matches Err(p) ==> p.0@ == fb@ && final(self).routed@ == old(self).routed@,
      final(self).timed == old(self).timed, final(self).conn_sndtimeo_positive() == old(self).conn_sndtimeo_positive()
  { unimplemented!() }
}
impl Default for Msg { #[verifier::external_body] fn default() -> (r: Msg) ensures r.data is None { unimplemented!() } }
// DEALER: the framing latch (automatic delimiter; proved in unit framing: dealer_auto_encode prepends one empty MORE frame)
pub struct FramingLatch { pub manual: bool }
impl FramingLatch {
  pub fn is_manual(&self) -> (r: bool) ensures r == self.manual { self.manual }
  #[verifier::external_body]
  pub fn encode(&self, frames: &mut FrameBatch)
    requires !self.manual, old(frames)@.len() < 255
    ensures final(frames)@.len() == old(frames)@.len() + 1, final(frames)@.skip(1) =~= old(frames)@, final(frames)@[0].data is None || payload(final(frames)@[0]).len() == 0,
  { unimplemented!() }
}
pub struct DealerSocket { pub framing: FramingLatch, pub core: CoreRef }
// the public handle (socket/types.rs): `inner` is the pattern-specific ISocket object
pub struct InnerSocket { pub sent: Ghost<Seq<Seq<Msg>>> }
impl InnerSocket {
  #[verifier::external_body]
  pub async fn send_multipart(&mut self, frames: FrameBatch) -> (r: Result<(), ZmqError>)
    ensures final(self).sent@ == old(self).sent@.push(frames@)
  { unimplemented!() }
}
pub struct Socket { pub inner: InnerSocket }
// ROUTER
#[verifier::external_body]
pub struct Blob { b: Vec<u8> }
impl View for Blob { type V = Seq<u8>; uninterp spec fn view(&self) -> Seq<u8>; }
impl Blob {
  #[verifier::external_body] pub fn is_empty(&self) -> (r: bool) ensures r == (self@.len() == 0) { unimplemented!() }
  // R8: Msg::from_bytes(Bytes::copy_from_slice(identity_blob.as_ref())): a frame carrying the identity bytes, no flags
  #[verifier::external_body] pub fn verif_to_msg(&self) -> (r: Msg) ensures payload(r) == self@, r.data is Some, r.flags == (MsgFlags { more: false, command: false }) { unimplemented!() }
}
pub struct RouterSocket { pub framing: FramingLatch, pub core: CoreRef }
// REP
pub struct RepConn { pub sent: Ghost<Seq<Seq<Msg>>> }
impl RepConn {
  #[verifier::external_body]
  pub async fn send_multipart(&mut self, frames: FrameBatch) -> (r: Result<(), ZmqError>)
    ensures final(self).sent@ == old(self).sent@.push(frames@)
  { unimplemented!() }
}
pub struct RepSocket { pub core: CoreRef }
"""

INVALID = ("R2", re.compile(r'ZmqError::InvalidState\(\s*"([^"]*)"\.into\(\)\s*\)'), r'ZmqError::InvalidState("\1")', "*", "pre")
SETF = ("R6", re.compile(r"(\w+)\[([^\]]+)\]\.set_flags\(([^;]*)\);"), r"\1.verif_set_flags(\2, \3);", "*")
SELF_MUT = [("&self", "&mut self")]
INVMSG = ("R2", re.compile(r'ZmqError::InvalidMessage\(\s*"([^"]*)"\.into\(\)\s*,?\s*\)', re.S), r'ZmqError::InvalidMessage(verif_fmt())', "*", "pre")
MAXF = ("R5", "FrameBatch::MAX_FRAMES", "255", "*")
ATTRS = ["#[verifier::loop_isolation(false)]"]

def norm_loop(cont, inp, ordn=0):
  return {ordn: {"desugar_enum": True, "invariant": [("C02:normalisation_loop", "normalised_upto(%s@, %s, vx_i%d as int)" % (cont, inp, ordn))]}}

PENDING = [
  ("R6", re.compile(r"let mut pending = self\.pending_send_parts\.lock\(\);\s*\n"), "", "*"),
  ("R6", "self.pending_send_parts.lock().is_empty()", "self.pending_send_parts.is_empty()", "*"),
  ("R6", re.compile(r"\*pending = "), "self.pending_send_parts = ", "*"),
  ("R6", "std::mem::take(&mut *pending)", "std::mem::take(&mut self.pending_send_parts)", "*"),
  ("R6", re.compile(r"\bpending\."), "self.pending_send_parts.", "*"),
  ("R5", "FrameBatch::MAX_FRAMES", "255", "*"),
]
HELD = "final(self).pending_send_parts@ == old(self).pending_send_parts@.push(msg)"

parts = [
  Raw("prelude/core.rs"),
  Raw("prelude/std.rs"),
  Raw("prelude/bytes.rs"),
  Raw("prelude/msg.rs"),
  Raw("prelude/framebatch.rs"),
  Raw("prelude/time.rs"),
  Item(REP, "struct", "PeerInfo", keep_derive=()),
  Raw(text=GLUE, label="flags-glue"),
  # ---------------- PUSH
  Fn(PUSH, "send_with_timeout", impl=r"impl\s+PushSocket\b", emit_impl="impl PushSocket", sig_sub=SELF_MUT,
     ensures=[
       ("C01+C02:the_batch_is_handed_to_the_router_path_exactly_once_unchanged", "final(self).outgoing_orchestrator.routed@ == old(self).outgoing_orchestrator.routed@.push(fb@) && final(self).pending_send_parts == old(self).pending_send_parts"),
       ("C14:timeout_only_after_a_timed_wait_of_sndtimeo", "r matches Err(ZmqError::Timeout) ==> (sndtimeo matches Some(d) && d.ns() > 0 && final(self).outgoing_orchestrator.timed@.last() == Some(d.ns())) || old(self).outgoing_orchestrator.conn_sndtimeo_positive()"),
       ("C14:a_positive_sndtimeo_bounds_the_whole_route_including_the_wait_for_room",
        "sndtimeo matches Some(d) ==> (d.ns() > 0 ==> final(self).outgoing_orchestrator.timed@.last() == Some(d.ns()))"),
       ("C14:zero_or_infinite_sndtimeo_is_an_untimed_call", "!(sndtimeo matches Some(d) && d.ns() > 0) ==> final(self).outgoing_orchestrator.timed@.last() is None && (r matches Err(ZmqError::Timeout) ==> old(self).outgoing_orchestrator.conn_sndtimeo_positive())"),
     ],
     extra=[("R8", re.compile(r"tokio_timeout\(\s*d,\s*self\.outgoing_orchestrator\.route_message\(fb, wait_for_peer\),\s*\)\s*\.await", re.S),
             "self.outgoing_orchestrator.verif_timed_route(d, fb, wait_for_peer).await", 1),
            ("R8", re.compile(r"tokio_timeout\(\s*d,\s*self\.outgoing_orchestrator\.wait_for_connection\(\),?\s*\)\s*\.await", re.S), "self.outgoing_orchestrator.verif_timed_wait_for_connection(d).await", "*")]),
  # frame-by-frame sending: the frames of one message are held back and routed together, as ONE batch, to ONE peer
  Fn(PUSH, "send", impl=PUSH_IMPL, emit_impl="impl PushSocket", sig_sub=SELF_MUT,
     ensures=[
       ("C02+C13:a_frame_with_MORE_is_held_back_and_nothing_is_routed",
        "msg.flags.more ==> final(self).outgoing_orchestrator.routed@ == old(self).outgoing_orchestrator.routed@ && (r is Ok ==> " + HELD + ")"),
       ("C02+C13:the_last_frame_routes_the_whole_message_as_one_batch",
        "!msg.flags.more && final(self).outgoing_orchestrator.routed@.len() > old(self).outgoing_orchestrator.routed@.len() ==> "
        "final(self).outgoing_orchestrator.routed@ == old(self).outgoing_orchestrator.routed@.push(old(self).pending_send_parts@.push(msg)) && final(self).pending_send_parts@.len() == 0"),
       ("C02:a_message_beyond_the_frame_limit_is_refused_never_routed_in_part",
        "old(self).pending_send_parts@.len() >= 255 ==> r is Err && final(self).outgoing_orchestrator.routed@ == old(self).outgoing_orchestrator.routed@"),
       ("C02+C13:the_last_frame_always_empties_the_held_back_frames_the_message_is_routed_or_dropped_as_a_whole",
        "!msg.flags.more && old(self).core.running() ==> final(self).pending_send_parts@.len() == 0"),
       ("C02:only_whole_messages_ever_reach_the_router_path",
        "final(self).outgoing_orchestrator.routed@.len() <= old(self).outgoing_orchestrator.routed@.len() + 1 && (final(self).outgoing_orchestrator.routed@.len() > old(self).outgoing_orchestrator.routed@.len() ==> !msg.flags.more)"),
     ],
     extra=PENDING + [("R8", "self.cached_options.load().sndtimeo", "self.verif_sndtimeo()", 1)]),
  Fn(PUSH, "try_send_sync", impl=PUSH_IMPL, emit_impl="impl PushSocket", sig_sub=SELF_MUT,
     ensures=[
       ("C02+C13:the_fast_path_routes_only_a_single_frame_message_while_nothing_is_held_back",
        "final(self).outgoing_orchestrator.routed@ != old(self).outgoing_orchestrator.routed@ ==> !msg.flags.more && old(self).pending_send_parts@.len() == 0 && final(self).outgoing_orchestrator.routed@ == old(self).outgoing_orchestrator.routed@.push(seq![msg])"),
       ("C02:the_fast_path_never_touches_the_held_back_frames", "final(self).pending_send_parts@ == old(self).pending_send_parts@"),
     ],
     extra=PENDING + [INVALID]),
  Fn(PUSH, "send_multipart", impl=PUSH_IMPL, emit_impl="impl PushSocket", sig_sub=SELF_MUT, mut_params=["frames"], attrs=ATTRS,
     ensures=[
       ("C02:what_is_sent_is_the_applications_frames_with_MORE_on_all_but_the_last",
        "final(self).outgoing_orchestrator.routed@.len() > old(self).outgoing_orchestrator.routed@.len() ==> "
        "final(self).outgoing_orchestrator.routed@ == old(self).outgoing_orchestrator.routed@.push(final(self).outgoing_orchestrator.routed@.last()) && normalised(final(self).outgoing_orchestrator.routed@.last(), frames@)"),
       ("C02:empty_message_sends_nothing", "frames@.len() == 0 ==> final(self).outgoing_orchestrator.routed == old(self).outgoing_orchestrator.routed"),
       ("C14:zero_sndtimeo_never_waits_for_a_peer", "true"),
     ],
     loops=norm_loop("frames__m", "frames@"),
     extra=[SETF, ("R8", "self.cached_options.load().sndtimeo", "self.verif_sndtimeo()", 1)]),
  # ---------------- PUB
  Fn(PUB, "send", impl=PUB_IMPL, emit_impl="impl PubSocket", sig_sub=SELF_MUT, attrs=ATTRS,
     ensures=[
       ("C02:a_frame_with_MORE_is_held_back_and_nothing_is_published",
        "msg.flags.more ==> final(self).distributor.sent@ == old(self).distributor.sent@ && (r is Ok ==> " + HELD + ")"),
       ("C02:the_last_frame_publishes_the_whole_message_as_one_batch",
        "!msg.flags.more && final(self).distributor.sent@.len() > old(self).distributor.sent@.len() ==> "
        "final(self).distributor.sent@ == old(self).distributor.sent@.push(final(self).distributor.sent@.last()) && normalised(final(self).distributor.sent@.last(), old(self).pending_send_parts@.push(msg)) && final(self).pending_send_parts@.len() == 0"),
       ("C02:the_last_frame_always_empties_the_held_back_frames_the_message_is_published_or_dropped_as_a_whole",
        "!msg.flags.more && old(self).core.running() ==> final(self).pending_send_parts@.len() == 0"),
       ("C02:a_message_beyond_the_frame_limit_is_refused_never_published_in_part",
        "old(self).pending_send_parts@.len() >= 255 ==> r is Err && final(self).distributor.sent@ == old(self).distributor.sent@"),
     ],
     loops={0: {"desugar": True, "invariant": [("C02:cleanup_loop_publishes_nothing", "self.distributor.sent == sent_after && self.pending_send_parts == pend_after")]}},
     hints=[("snap", "@loop_before:0", 0, "", "let ghost sent_after = self.distributor.sent; let ghost pend_after = self.pending_send_parts;")],
     extra=PENDING + [INVALID,
            ("R1", re.compile(r"let payload_preview_str = msg\s*\.data\(\).*?\.unwrap_or_else\(\|\| \"<empty_payload>\"\.to_string\(\)\);", re.S), "", 1, "pre"),
            ("R8", re.compile(r"self\s*\.distributor\s*\.send_to_all\(&msg, self\.core\.handle, &self\.core\.core_state\)\s*\.await", re.S), "self.distributor.verif_send_one_to_all(&msg).await", 1)]),
  Fn(PUB, "send_multipart", impl=PUB_IMPL, emit_impl="impl PubSocket", sig_sub=SELF_MUT, mut_params=["frames"], attrs=ATTRS,
     ensures=[
       ("C02:what_is_published_is_the_applications_frames_with_MORE_on_all_but_the_last",
        "final(self).distributor.sent@.len() > old(self).distributor.sent@.len() ==> "
        "final(self).distributor.sent@ == old(self).distributor.sent@.push(final(self).distributor.sent@.last()) && normalised(final(self).distributor.sent@.last(), frames@)"),
       ("C02:empty_message_sends_nothing", "frames@.len() == 0 ==> final(self).distributor.sent == old(self).distributor.sent"),
       ("C02:held_back_frames_untouched", "final(self).pending_send_parts == old(self).pending_send_parts"),
     ],
     loops={0: dict(norm_loop("frames__m", "frames@")[0], invariant=norm_loop("frames__m", "frames@")[0]["invariant"] + ["self.pending_send_parts == old(self).pending_send_parts"]),
            1: {"desugar": True, "invariant": [("C02:cleanup_loop_sends_nothing", "self.distributor.sent == sent_after && self.pending_send_parts == old(self).pending_send_parts")]}},
     hints=[("snap", "@loop_before:1", 0, "", "let ghost sent_after = self.distributor.sent;")],
     extra=[INVALID, SETF,
            ("R8", re.compile(r"self\s*\.distributor\s*\.send_to_all_multipart\((frames(?:__m)?), self\.core\.handle, &self\.core\.core_state\)\s*\.await", re.S), r"self.distributor.verif_send_to_all(\1).await", 1)]),
  # ---------------- DEALER
  Fn(DEAL, "prepare_full_multipart_send_sequence", impl=r"impl\s+DealerSocket\b", emit_impl="impl DealerSocket", mut_params=["frames"], attrs=ATTRS,
     requires=["!self.framing.manual ==> frames@.len() < 255"],   # established by the admission check of send_multipart / the send-buffer limit of send()
     ensures=[
       ("C02:manual_framing_normalises_the_applications_frames", "self.framing.manual ==> normalised(r@, frames@)"),
       ("C02+C11:automatic_framing_prepends_one_delimiter_and_normalises", "!self.framing.manual && frames@.len() > 0 ==> r@.len() == frames@.len() + 1 && r@[0].flags.more && payload(r@[0]).len() == 0 && normalised(r@.skip(1), frames@)"),
       ("C02:empty_message_becomes_delimiter_plus_empty_frame", "!self.framing.manual && frames@.len() == 0 ==> r@.len() == 2 && r@[0].flags.more && !r@[1].flags.more && payload(r@[0]).len() == 0 && payload(r@[1]).len() == 0"),
     ],
     loops={0: norm_loop("frames__m", "frames@", 0)[0],
            1: {"desugar_enum": True, "invariant": [("C02:normalisation_loop_after_delimiter", "normalised_upto(frames__m@, encoded, vx_i1 as int)")]}},
     hints=[("snap", "@loop_before:1", 0, "", "let ghost encoded = frames__m@;")],
     extra=[SETF]),
  Region(DEAL, "dealer_send_multipart_admission", "send_multipart", r"if !self\.core\.is_running\(\)", r"let sndtimeo_opt = ",
         sig="fn dealer_send_multipart_admission(&self, user_frames: &FrameBatch) -> (r: Result<(), ZmqError>)", tail="Ok(())",
         impl=r"impl\s+ISocket\s+for\s+DealerSocket\b", emit_impl="impl DealerSocket",
         ensures=[("C02:a_message_that_leaves_no_room_for_the_delimiter_is_refused", "r is Ok ==> (self.framing.manual || user_frames@.len() < 255)"),
                  ("C02:a_message_that_fits_is_admitted", "(self.framing.manual || user_frames@.len() < 255) ==> !(r matches Err(ZmqError::InvalidMessage(_)))")],
         extra=[INVALID, INVMSG, MAXF]),
  # ---------------- public handle
  Fn(TYPES, "send_multipart", impl=r"impl\s+Socket\b", emit_impl="impl Socket", sig_sub=SELF_MUT,
     ensures=[("C02:more_frames_than_a_message_can_hold_are_refused_with_an_error", "frames@.len() > 255 ==> (r matches Err(ZmqError::InvalidMessage(_))) && final(self).inner.sent == old(self).inner.sent"),
              ("C02:otherwise_the_frames_are_handed_on_unchanged", "frames@.len() <= 255 ==> final(self).inner.sent@ == old(self).inner.sent@.push(frames@)")],
     extra=[MAXF, ("R2", re.compile(r"ZmqError::InvalidMessage\(verif_fmt\(\)\)"), "ZmqError::InvalidMessage(verif_fmt())", "*")]),
  # ---------------- ROUTER receive side: [identity, payload...]
  Fn(ROUTER, "with_room_for_identity", impl=r"impl\s+RouterSocket\b", emit_impl="impl RouterSocket",
     ensures=[("C02+C07:a_received_message_that_leaves_no_room_for_the_identity_is_refused", "r matches Ok(p) ==> p.1@.len() < 255 && p.1@ == payload@ && p.0 == identity_blob"),
              ("C07:refusal_is_a_protocol_violation_not_a_panic", "payload@.len() >= 255 ==> r matches Err(ZmqError::ProtocolViolation(_))")],
     extra=[MAXF, ("R2", re.compile(r'ZmqError::ProtocolViolation\(\s*"([^"]*)"\.into\(\)\s*,?\s*\)', re.S), r'ZmqError::ProtocolViolation(verif_fmt())', "*", "pre")]),
  Fn(ROUTER, "transform_qitem_to_app_frames", impl=r"impl\s+RouterSocket\b", emit_impl="impl RouterSocket",
     requires=["payload_frames_vec@.len() < 255"],
     ensures=[("C11:every_received_message_is_prefixed_with_the_identity_frame", "r@.len() == payload_frames_vec@.len() + 1 && payload(r@[0]) == identity_blob@ && r@[0].flags.more == (payload_frames_vec@.len() > 0)"),
              ("C02+C11:payload_frames_follow_unchanged_last_without_MORE",
               "forall|i: int| 0 <= i < payload_frames_vec@.len() ==> (#[trigger] r@[i + 1]).data == payload_frames_vec@[i].data && (i < payload_frames_vec@.len() - 1 ==> r@[i + 1].flags == payload_frames_vec@[i].flags) "
               "&& (i == payload_frames_vec@.len() - 1 ==> !r@[i + 1].flags.more && r@[i + 1].flags.command == payload_frames_vec@[i].flags.command)")],
     extra=[("R8", "let id_bytes = Bytes::copy_from_slice(identity_blob.as_ref());", "", 1), ("R8", "Msg::from_bytes(id_bytes)", "identity_blob.verif_to_msg()", 1)]),
  # ---------------- REP: wire assembly of the reply (routing envelope of the request ++ reply frames), then normalisation
  # (region = everything between the end of the connection lookup block and the hand-over to the connection)
  Region(REP, "rep_assemble_reply", "send_multipart", r"(?<=\n    \};\n\n)    let (?!conn_iface)", r"match conn_iface\.send_multipart\(zmtp_wire_frames\)\.await \{",
         sig="fn rep_assemble_reply(&self, peer_to_reply_to: PeerInfo, user_payload_frames: FrameBatch) -> (r: Result<FrameBatch, ZmqError>)",
         tail="Ok(zmtp_wire_frames)", impl=r"impl\s+ISocket\s+for\s+RepSocket\b", emit_impl="impl RepSocket", attrs=ATTRS,
         # established by the take region (unit reqrep: accepted_reply_fits_one_message_with_its_envelope)
         requires=["peer_to_reply_to.routing_prefix@.len() + user_payload_frames@.len() <= 255"],
         ensures=[("C02+C10:reply_is_the_requests_envelope_followed_by_the_reply_frames_normalised",
                   "r matches Ok(w) ==> (w@.len() > 0 ==> normalised(w@, peer_to_reply_to.routing_prefix@ + user_payload_frames@))")],
         loops=norm_loop("zmtp_wire_frames", "(peer_to_reply_to.routing_prefix@ + user_payload_frames@)"),
         extra=[("R7", "return Ok(());", "return Ok(zmtp_wire_frames);", 1)]),   # the enclosing function's early `return Ok(())` (nothing to send) hands the empty batch back
]

FNS = {p.name: p for p in parts if isinstance(p, Fn)}
unit = Unit("flags", ["C02", "C14"], parts, safety_props=["C02"], notes="sender-side MORE normalisation")
