"""U-routerfrag: what a peer's detach does to ROUTER's frame-by-frame send in progress (socket/router_socket.rs pipe_detached, the
block that resets `current_send_target`, extracted as a region R7).

Contract from the property text (C02: "whatever else happens on the socket meanwhile (other peers sending, connecting or
disconnecting)"): the detach of a pipe resets the fragmented send in progress ONLY if that send is addressed to the detached
connection (its endpoint URI is known and equal to the target's); the detach of any other peer leaves it untouched, so the remaining
frames of the message still go to the peer the identity frame selected.
"""
import re
from vlib.vx import Fn, Item, Raw, Region, Scan
from vlib.runner import Unit

RS = "core/src/socket/router_socket.rs"

GLUE = """
#[verifier::external_body]
pub struct OwnedSemaphorePermit { x: u8 }
// DashMap<usize, V> / mutex-protected HashMap<usize, V> keyed by pipe id: only the key set matters here
pub struct PipeKeyed { pub keys: Ghost<Set<usize>> }
impl PipeKeyed {
  #[verifier::external_body]
  pub fn remove(&mut self, k: &usize) -> (r: Option<usize>)
    ensures final(self).keys@ == old(self).keys@.remove(*k), r is Some == old(self).keys@.contains(*k)
  { unimplemented!() }
}
#[verifier::external_body]
pub struct Opaque { x: u8 }
impl Opaque {
  #[verifier::external_body] pub async fn remove_peer_by_read_pipe(&mut self, p: usize) -> (r: ()) { unimplemented!() }
  #[verifier::external_body] pub async fn remove_pipe(&mut self, p: usize) -> (r: ()) { unimplemented!() }
  #[verifier::external_body] pub fn deregister_pipe(&mut self, p: usize) { unimplemented!() }
  #[verifier::external_body] pub fn notify_waiters(&self) { unimplemented!() }
  #[verifier::external_body] pub fn verif_fetch_sub(&self, n: usize) { unimplemented!() }
}
pub struct RouterSocket {
  pub current_send_target: Option<ActiveFragmentedSend>,   // R6t: TokioMutex<Option<ActiveFragmentedSend>>, every access under its guard
  pub router_map_for_send: Opaque, pub pipe_send_coordinator: Opaque, pub ingress_engine: Opaque, pub identity_finalized_notify: Opaque, pub held_count: Opaque,
  pub pipe_to_identity_shared_map: PipeKeyed,   // DashMap<usize, Blob>: which pipes have an identity label
  pub pipe_finalized: PipeKeyed,                // DashMap<usize, ()>: the identity gate
  pub pending_pipe_senders: PipeKeyed,          // Mutex<HashMap<usize, PipeMessageSender>>
  pub held_ingress: PipeKeyed,                  // Mutex<HashMap<usize, VecDeque<FrameBatch>>>
}
impl RouterSocket {
  // the pair invariant the receive path relies on (recv_logical_finalized + process_incoming_zmtp_message): a pipe that passes the identity
  // gate has an identity label -- otherwise its messages would be labelled with the `pipe:N` placeholder
  pub open spec fn gate_inv(&self) -> bool { forall|p: usize| self.pipe_finalized.keys@.contains(p) ==> #[trigger] self.pipe_to_identity_shared_map.keys@.contains(p) }
  // R8: the block that reads core_state (endpoint uri and connection id of the pipe): arbitrary result
  #[verifier::external_body]
  pub fn verif_lookup_endpoint(&self, pipe_read_id: usize) -> (Option<String>, Option<usize>) { unimplemented!() }
}
// R8: `endpoint_uri_opt.as_deref() == Some(&active_info.target_endpoint_uri)` (Option<&str> against Option<&String>)
#[verifier::external_body]
pub fn verif_uri_is(o: &Option<String>, u: &String) -> (r: bool)
  ensures r == (match *o { Some(s) => s@ == u@, None => false })
{ unimplemented!() }
"""

parts = [
  Raw("prelude/core.rs"),
  Raw("prelude/std.rs"),
  Raw(text=GLUE.split("pub struct RouterSocket")[0], label="routerfrag-glue-a"),
  Item(RS, "struct", "ActiveFragmentedSend", keep_derive=()),
  Raw(text="pub struct RouterSocket" + GLUE.split("pub struct RouterSocket")[1], label="routerfrag-glue-b"),
  Region(RS, "detach_frag_state", "pipe_detached", r"if connection_id_opt\.is_some\(\)", r"self\.ingress_engine\.deregister_pipe\(pipe_read_id\);",
         sig="async fn detach_frag_state(&mut self, connection_id_opt: Option<usize>, endpoint_uri_opt: Option<String>)",
         impl=r"impl\s+ISocket\s+for\s+RouterSocket\b", emit_impl="impl RouterSocket", ret=None,
         ensures=[
           ("C02:a_detach_resets_the_fragmented_send_only_if_it_is_addressed_to_the_detached_connection",
            "final(self).current_send_target != old(self).current_send_target ==> (final(self).current_send_target is None && "
            "(old(self).current_send_target matches Some(a) && endpoint_uri_opt matches Some(u) && u@ == a.target_endpoint_uri@))"),
         ],
         extra=[("R6t", re.compile(r"let mut active_frag_guard = self\.current_send_target\.lock\(\)\.await;\s*\n"), "", 1),
                ("R6t", "&*active_frag_guard", "&self.current_send_target", "*"),
                ("R6t", re.compile(r"\*active_frag_guard\s*=\s*"), "self.current_send_target = ", "*"),
                ("R8", "endpoint_uri_opt.as_deref() == Some(&active_info.target_endpoint_uri)", "verif_uri_is(&endpoint_uri_opt, &active_info.target_endpoint_uri)", 1)]),
  Scan(RS, "pipe_detached", r"current_send_target", 1, impl=r"impl\s+ISocket\s+for\s+RouterSocket\b", why="the only access to the fragmented-send state in pipe_detached is inside the region"),
]

FNS = {p.name: p for p in parts if isinstance(p, Fn)}
parts.append(
  Fn(RS, "pipe_detached", impl=r"impl\s+ISocket\s+for\s+RouterSocket\b", emit_impl="impl RouterSocket", sig_sub=[("&self", "&mut self")], ret=None, rename="RouterSocket::pipe_detached_whole",
     requires=["old(self).gate_inv()"],
     ensures=[
       ("C11:a_detached_pipe_has_neither_an_identity_label_nor_a_pass_through_the_identity_gate",
        "!final(self).pipe_to_identity_shared_map.keys@.contains(pipe_read_id) && !final(self).pipe_finalized.keys@.contains(pipe_read_id) && !final(self).held_ingress.keys@.contains(pipe_read_id)"),
       ("C11:gate_invariant_preserved_no_finalized_pipe_without_identity_label", "final(self).gate_inv()"),
       ("C11:other_pipes_untouched", "forall|q: usize| q != pipe_read_id ==> (final(self).pipe_finalized.keys@.contains(q) == old(self).pipe_finalized.keys@.contains(q)) "
                                      "&& (final(self).pipe_to_identity_shared_map.keys@.contains(q) == old(self).pipe_to_identity_shared_map.keys@.contains(q))"),
       ("C02:a_detach_resets_the_fragmented_send_only_if_it_is_addressed_to_the_detached_connection",
        "final(self).current_send_target != old(self).current_send_target ==> final(self).current_send_target is None"),
     ],
     extra=[("R8", re.compile(r"let \(endpoint_uri_opt, connection_id_opt\) = \{.*?\n    \};", re.S), "let (endpoint_uri_opt, connection_id_opt) = self.verif_lookup_endpoint(pipe_read_id);", 1),
            ("R6t", re.compile(r"let mut active_frag_guard = self\.current_send_target\.lock\(\)\.await;\s*\n"), "", 1),
            ("R6t", "&*active_frag_guard", "&self.current_send_target", "*"),
            ("R6t", re.compile(r"\*active_frag_guard\s*=\s*"), "self.current_send_target = ", "*"),
            ("R8", "endpoint_uri_opt.as_deref() == Some(&active_info.target_endpoint_uri)", "verif_uri_is(&endpoint_uri_opt, &active_info.target_endpoint_uri)", 1),
            ("R6", "self.pending_pipe_senders.lock().remove(", "self.pending_pipe_senders.remove(", 1),
            ("R6", re.compile(r"if let Some\(dropped\) = self\.held_ingress\.lock\(\)\.remove\(&pipe_read_id\) \{\s*if !dropped\.is_empty\(\) \{\s*self\.held_count\.fetch_sub\(dropped\.len\(\), Ordering::AcqRel\);\s*\}\s*\}", re.S),
             "if let Some(dropped) = self.held_ingress.remove(&pipe_read_id) { self.held_count.verif_fetch_sub(dropped); }", 1)]))
unit = Unit("routerfrag", ["C02", "C11"], parts, safety_props=["C02"], notes="ROUTER: a detach and the frame-by-frame send in progress")
