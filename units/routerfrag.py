"""U-routerfrag: what a peer's detach does to ROUTER's frame-by-frame send in progress (socket/router_socket.rs pipe_detached, the
block that resets `current_send_target`, extracted as a region R7).

Contract from the property text (C02: "whatever else happens on the socket meanwhile (other peers sending, connecting or
disconnecting)"): the detach of a pipe resets the fragmented send in progress ONLY if that send is addressed to the detached
connection (its endpoint URI is known and equal to the target's); the detach of any other peer leaves it untouched, so the remaining
frames of the message still go to the peer the identity frame selected.
"""
import re
from vlib.vx import Fn, Item, Raw, Region, Scan
from vlib.runner import Unit

RS = "core/src/socket/router_socket.rs"

GLUE = """
#[verifier::external_body]
pub struct OwnedSemaphorePermit { x: u8 }
pub struct RouterSocket {
  pub current_send_target: Option<ActiveFragmentedSend>,   // R6t: TokioMutex<Option<ActiveFragmentedSend>>, every access under its guard
}
// R8: `endpoint_uri_opt.as_deref() == Some(&active_info.target_endpoint_uri)` (Option<&str> against Option<&String>)
#[verifier::external_body]
pub fn verif_uri_is(o: &Option<String>, u: &String) -> (r: bool)
  ensures r == (match *o { Some(s) => s@ == u@, None => false })
{ unimplemented!() }
"""

parts = [
  Raw("prelude/core.rs"),
  Raw("prelude/std.rs"),
  Raw(text=GLUE.split("pub struct RouterSocket")[0], label="routerfrag-glue-a"),
  Item(RS, "struct", "ActiveFragmentedSend", keep_derive=()),
  Raw(text="pub struct RouterSocket" + GLUE.split("pub struct RouterSocket")[1], label="routerfrag-glue-b"),
  Region(RS, "detach_frag_state", "pipe_detached", r"if connection_id_opt\.is_some\(\)", r"self\.ingress_engine\.deregister_pipe\(pipe_read_id\);",
         sig="async fn detach_frag_state(&mut self, connection_id_opt: Option<usize>, endpoint_uri_opt: Option<String>)",
         impl=r"impl\s+ISocket\s+for\s+RouterSocket\b", emit_impl="impl RouterSocket", ret=None,
         ensures=[
           ("C02:a_detach_resets_the_fragmented_send_only_if_it_is_addressed_to_the_detached_connection",
            "final(self).current_send_target != old(self).current_send_target ==> (final(self).current_send_target is None && "
            "(old(self).current_send_target matches Some(a) && endpoint_uri_opt matches Some(u) && u@ == a.target_endpoint_uri@))"),
         ],
         extra=[("R6t", re.compile(r"let mut active_frag_guard = self\.current_send_target\.lock\(\)\.await;\s*\n"), "", 1),
                ("R6t", "&*active_frag_guard", "&self.current_send_target", "*"),
                ("R6t", re.compile(r"\*active_frag_guard\s*=\s*"), "self.current_send_target = ", "*"),
                ("R8", "endpoint_uri_opt.as_deref() == Some(&active_info.target_endpoint_uri)", "verif_uri_is(&endpoint_uri_opt, &active_info.target_endpoint_uri)", 1)]),
  Scan(RS, "pipe_detached", r"current_send_target", 1, impl=r"impl\s+ISocket\s+for\s+RouterSocket\b", why="the only access to the fragmented-send state in pipe_detached is inside the region"),
]

FNS = {p.name: p for p in parts if isinstance(p, Fn)}
unit = Unit("routerfrag", ["C02"], parts, safety_props=["C02"], notes="ROUTER: a detach and the frame-by-frame send in progress")
