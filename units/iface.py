"""U-iface: ScaConnectionIface (sessionx/iface.rs), the session-backed ISocketConnection: SNDTIMEO semantics of the four send
entry points and "a refused batch is handed back unchanged" (the contract unit route assumes for trait objects)."""
import re
from vlib.vx import Fn, Item, Raw
from vlib.runner import Unit

IF = "core/src/sessionx/iface.rs"
IMPL = r"impl\s+ISocketConnection\s+for\s+ScaConnectionIface\b"

GLUE = """
#[verifier::external_body]
pub struct MailboxSender { x: u8 }
// fibre::mpsc::BoundedAsyncSender<FrameBatch>: bounded pipe towards the session (capacity SNDHWM).
// try_send never waits; send waits for room (or for the pipe to close); ownership of a refused item comes back.
pub enum TrySendError<T> { Full(T), Closed(T), Sent(T) }
pub struct SendError { pub x: u8 }
pub struct Elapsed { pub x: u8 }
#[verifier::external_body]
#[verifier::reject_recursive_types(T)]
pub struct BoundedAsyncSender<T> { x: core::marker::PhantomData<T> }
impl BoundedAsyncSender<FrameBatch> {
  // ghost oracle: the state of the pipe at the moment this call looks at it (at the high-water mark / closed by the session)
  pub uninterp spec fn full(&self) -> bool;
  pub uninterp spec fn closed(&self) -> bool;
  #[verifier::external_body]
  pub fn try_send(&self, item: FrameBatch) -> (r: Result<(), TrySendError<FrameBatch>>)
    ensures
      (r matches Err(TrySendError::Full(_))) == (self.full() && !self.closed()),
      (r matches Err(TrySendError::Closed(_))) == self.closed(),
      r matches Err(TrySendError::Full(b)) ==> b@ == item@,
      r matches Err(TrySendError::Closed(b)) ==> b@ == item@,
      !(r matches Err(TrySendError::Sent(_))),   // fibre documents Sent as unreachable for try_send
  { unimplemented!() }
  #[verifier::external_body]
  pub async fn send(&self, item: FrameBatch) -> (r: Result<(), SendError>) { unimplemented!() }
}
// R8: `timeout(d, self.pipe_sender.send(x)).await` (a future passed to tokio::time::timeout): a timed wait of at most d
#[verifier::external_body]
pub async fn verif_timed_send(s: &BoundedAsyncSender<FrameBatch>, d: Duration, item: FrameBatch) -> (r: Result<Result<(), SendError>, Elapsed>)
{ unimplemented!() }
// R8: unreachable!() -- requires false: the arm must be proved unreachable
#[verifier::external_body]
pub fn verif_unreachable() -> ! requires false { unreachable!() }
"""

TIMED = ("R8", re.compile(r"timeout\((\w+), self\.pipe_sender\.send\((\w+)\)\)\.await"), r"verif_timed_send(&self.pipe_sender, \1, \2).await", "+")
UNREACH = ("R8", "unreachable!()", "verif_unreachable()", 1)
ZERO = ("R5", "Some(Duration::ZERO)", "Some(Duration::verif_zero())", "+")

parts = [
  Raw("prelude/core.rs"),
  Raw("prelude/std.rs"),
  Raw("prelude/bytes.rs"),
  Raw("prelude/msg.rs"),
  Raw("prelude/framebatch.rs"),
  Raw("prelude/time.rs"),
  Raw(text=GLUE, label="iface-glue"),
  Item(IF, "struct", "ScaConnectionIface"),
  Fn(IF, "try_send_multipart_owned_sync", impl=IMPL, emit_impl="impl ScaConnectionIface",
     ensures=[("C13+C14:refused_batch_is_returned_intact", "r matches Err(p) ==> p.0@ == msgs@"),
              ("C14:would_block_or_closed_only", "r matches Err(p) ==> (p.1 is ResourceLimitReached) || (p.1 is ConnectionClosed)")],
     extra=[UNREACH]),
  Fn(IF, "send_multipart_owned", impl=IMPL, emit_impl="impl ScaConnectionIface",
     ensures=[
       # SNDTIMEO = 0: would-block at once, and the batch comes back
       ("C14:zero_sndtimeo_at_the_high_water_mark_fails_at_once_with_would_block", "self.sndtimeo matches Some(d) && d.ns() == 0 && self.pipe_sender.full() && !self.pipe_sender.closed() ==> (r matches Err(p) && p.1 is ResourceLimitReached)"),
       ("C14:zero_timeout_never_waits", "self.sndtimeo matches Some(d) && d.ns() == 0 && r is Err ==> (r matches Err(p) && p.0@ == msgs@ && ((p.1 is ResourceLimitReached) || (p.1 is ConnectionClosed)))"),
       # SNDTIMEO = -1 (None): waits for room, never answers would-block/timeout
       ("C14:infinite_timeout_never_times_out", "self.sndtimeo is None ==> !(r matches Err(p) && ((p.1 is ResourceLimitReached) || (p.1 is Timeout)))"),
       ("C13+C14:wouldblock_returns_the_batch_intact", "r matches Err(p) ==> ((p.1 is ResourceLimitReached) ==> p.0@ == msgs@)"),
       ("C14:errors_are_wouldblock_timeout_or_closed", "r matches Err(p) ==> (p.1 is ResourceLimitReached) || (p.1 is Timeout) || (p.1 is ConnectionClosed)"),
     ],
     extra=[TIMED, UNREACH, ZERO]),
  Fn(IF, "send_multipart", impl=IMPL, emit_impl="impl ScaConnectionIface",
     ensures=[
       ("C14:errors_are_wouldblock_or_closed", "r matches Err(e) ==> (e is ResourceLimitReached) || (e is ConnectionClosed)"),
       ("C14:zero_sndtimeo_at_the_high_water_mark_fails_at_once_with_would_block", "self.sndtimeo matches Some(d) && d.ns() == 0 && self.pipe_sender.full() && !self.pipe_sender.closed() ==> r matches Err(ZmqError::ResourceLimitReached)"),
       # recorded finding: SNDTIMEO = -1 falls back to a 30 s timed wait and then answers would-block
       ("C14:KF_infinite_timeout_never_times_out", "self.sndtimeo is None ==> !(r matches Err(e) && (e is ResourceLimitReached))"),
     ],
     extra=[TIMED, UNREACH, ZERO, ("R5", "Duration::from_secs(30)", "Duration::from_secs(30)", 1)]),
  Fn(IF, "send_message", impl=IMPL, emit_impl="impl ScaConnectionIface",
     ensures=[
       ("C14:errors_are_wouldblock_or_closed", "r matches Err(e) ==> (e is ResourceLimitReached) || (e is ConnectionClosed)"),
       ("C14:zero_sndtimeo_at_the_high_water_mark_fails_at_once_with_would_block", "self.sndtimeo matches Some(d) && d.ns() == 0 && self.pipe_sender.full() && !self.pipe_sender.closed() ==> r matches Err(ZmqError::ResourceLimitReached)"),
       ("C14:KF_infinite_timeout_never_times_out", "self.sndtimeo is None ==> !(r matches Err(e) && (e is ResourceLimitReached))"),
     ],
     extra=[TIMED, UNREACH, ZERO]),
]

FNS = {p.name: p for p in parts if isinstance(p, Fn)}
unit = Unit("iface", ["C13", "C14"], parts, safety_props=["C14"], notes="session connection interface")
