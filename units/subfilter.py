"""U-subfilter: the subscriber-side filter in front of a SUB socket's ingress queue (socket/patterns/ready_pipe_queue.rs,
`PipeMessageSender::{send, try_send_sync, try_send_batch}`, the `FilteredAnonymous` arms, each extracted as a region).

Contracts from the property text (C12): a message is enqueued for the application IF AND ONLY IF the subscription matcher accepts the
payload of its FIRST frame (multipart: the filter looks at the first frame only; a message without frames or without payload is
filtered on the empty topic); on the batched path the matching messages are enqueued in order, the others are discarded, and what
back-pressure keeps from being enqueued stays at the front of the caller's queue in order -- nothing is duplicated or reordered.
Accounting (C14: RCVHWM): after the batched path the slot's reservation counter has grown by exactly the number of messages enqueued.

The matcher's verdict is an uninterpreted function of the topic (`SubscriptionTrie::matches` itself is proved in unit trie); the
subscription set is taken as fixed during one call (sequential model).  The per-pipe slot (channel, counters) is a ghost-logged stand-in.
"""
import re
from vlib.vx import Fn, Item, Raw, Region, Scan
from vlib.runner import Unit

RPQ = "core/src/socket/patterns/ready_pipe_queue.rs"
IMPL = r"impl\s+PipeMessageSender\b"

GLUE = """
use std::collections::VecDeque;
// first-frame payload of a message (empty when there is no frame or no payload)
pub open spec fn topic_of(b: Seq<Msg>) -> Seq<u8> { if b.len() > 0 && b[0].data is Some { payload(b[0]) } else { Seq::<u8>::empty() } }
#[verifier::external_body]
pub struct SubscriptionTrie { x: u8 }
impl SubscriptionTrie {
  pub uninterp spec fn spec_matches(&self, topic: Seq<u8>) -> bool;      // the matcher's verdict (proved against the subscription view in unit trie)
  #[verifier::external_body]
  pub fn matches(&self, topic: &[u8]) -> (r: bool) ensures r == self.spec_matches(topic@) { unimplemented!() }
}
pub open spec fn wanted(t: &SubscriptionTrie, b: FrameBatch) -> bool { t.spec_matches(topic_of(b@)) }
// R8: `X.first().and_then(|m| m.data()).unwrap_or(&[])` (closure chain outside Verus): the payload of the first frame, or the empty slice
#[verifier::external_body]
pub fn verif_topic(b: &FrameBatch) -> (r: &[u8]) ensures r@ == topic_of(b@) { unimplemented!() }
pub enum TrySendError<T> { Full(T), Closed(T), Sent(T) }
pub struct ReadyErr { pub x: u8 }
// ReadyPipeSender<FrameBatch> with its slot: ghost log of what was enqueued for the application, and the two counters of the slot
pub struct ReadyPipeSender { pub enq: Ghost<Seq<FrameBatch>>, pub reserved: Ghost<int>, pub queued: Ghost<int>, pub armed: Ghost<nat> }
pub struct SlotRef { pub x: u8 }
impl ReadyPipeSender {
  #[verifier::external_body]
  pub async fn send(&mut self, item: FrameBatch) -> (r: Result<(), ZmqError>)
    ensures r is Ok ==> final(self).enq@ == old(self).enq@.push(item), r is Err ==> final(self).enq@ == old(self).enq@
  { unimplemented!() }
  #[verifier::external_body]
  pub fn try_send(&mut self, item: FrameBatch) -> (r: Result<(), TrySendError<FrameBatch>>)
    ensures r is Ok ==> final(self).enq@ == old(self).enq@.push(item), r is Err ==> final(self).enq@ == old(self).enq@,
      r matches Err(TrySendError::Full(b)) ==> b == item, r matches Err(TrySendError::Closed(b)) ==> b == item, !(r matches Err(TrySendError::Sent(_))),
  { unimplemented!() }
  // R8: sender.slot.upgrade()
  #[verifier::external_body]
  pub fn verif_upgrade(&self) -> Option<SlotRef> { unimplemented!() }
  // R8: slot.reserved_count.fetch_add / fetch_sub, slot.queued_count.fetch_add (returns the previous value), slot.tx.try_send
  pub fn verif_reserve(&mut self, n: usize)
    ensures final(self).reserved@ == old(self).reserved@ + n, final(self).enq == old(self).enq, final(self).queued == old(self).queued, final(self).armed == old(self).armed
  { proof { self.reserved@ = self.reserved@ + n; } }
  pub fn verif_unreserve(&mut self, n: usize)
    ensures final(self).reserved@ == old(self).reserved@ - n, final(self).enq == old(self).enq, final(self).queued == old(self).queued, final(self).armed == old(self).armed
  { proof { self.reserved@ = self.reserved@ - n; } }
  #[verifier::external_body]
  pub fn verif_queued_inc(&mut self) -> (prev: usize)
    ensures final(self).queued@ == old(self).queued@ + 1, final(self).enq == old(self).enq, final(self).reserved == old(self).reserved, final(self).armed == old(self).armed
  { unimplemented!() }
  #[verifier::external_body]
  pub fn verif_slot_try_send(&mut self, item: FrameBatch) -> (r: Result<(), TrySendError<FrameBatch>>)
    ensures r is Ok ==> final(self).enq@ == old(self).enq@.push(item), r is Err ==> final(self).enq@ == old(self).enq@,
      r matches Err(TrySendError::Full(b)) ==> b == item, r matches Err(TrySendError::Closed(b)) ==> b == item, !(r matches Err(TrySendError::Sent(_))),
      final(self).reserved == old(self).reserved, final(self).queued == old(self).queued, final(self).armed == old(self).armed,
  { unimplemented!() }
  // R8: sender.ready_tx.try_send(Arc::clone(&slot)) -- arming the ready list
  #[verifier::external_body]
  pub fn verif_arm(&mut self, s: &SlotRef) -> (r: Result<(), ReadyErr>)
    ensures final(self).enq == old(self).enq, final(self).reserved == old(self).reserved, final(self).queued == old(self).queued, r is Ok ==> final(self).armed@ == old(self).armed@ + 1, r is Err ==> final(self).armed == old(self).armed
  { unimplemented!() }
}
#[verifier::external_body]
pub fn verif_yield() { unimplemented!() }
#[verifier::external_body]
pub fn verif_unreachable() -> ! requires false { unreachable!() }
// R8: the pre-scan `items.iter().filter(|b| trie.matches(..)).count()` and the bulk `items.iter().map(|b| b.len()).sum::<usize>()`
pub open spec fn keep(t: &SubscriptionTrie, s: Seq<FrameBatch>) -> Seq<FrameBatch> { s.filter(|b: FrameBatch| wanted(t, b)) }
pub open spec fn frames_in(s: Seq<FrameBatch>) -> nat decreases s.len() { if s.len() == 0 { 0 } else { frames_in(s.drop_last()) + s.last()@.len() } }
#[verifier::external_body]
pub fn verif_match_count(items: &VecDeque<FrameBatch>, t: &SubscriptionTrie) -> (r: usize) ensures r == keep(t, items@).len() { unimplemented!() }
#[verifier::external_body]
pub fn verif_total_frames(items: &VecDeque<FrameBatch>) -> (r: usize) ensures r == frames_in(items@) { unimplemented!() }
pub proof fn lemma_keep_step(t: &SubscriptionTrie, s: Seq<FrameBatch>, i: int)
  requires 0 <= i < s.len()
  ensures keep(t, s.subrange(0, i + 1)) =~= (if wanted(t, s[i]) { keep(t, s.subrange(0, i)).push(s[i]) } else { keep(t, s.subrange(0, i)) })
{
  let f = |b: FrameBatch| wanted(t, b);
  assert(s.subrange(0, i + 1) =~= s.subrange(0, i).push(s[i]));
  Seq::filter_distributes_over_add(s.subrange(0, i), seq![s[i]], f);
  assert(s.subrange(0, i).push(s[i]) =~= s.subrange(0, i) + seq![s[i]]);
  reveal_with_fuel(Seq::filter, 2);
  assert(seq![s[i]].drop_last() =~= Seq::<FrameBatch>::empty());
}
pub proof fn lemma_keep_prefix_le(t: &SubscriptionTrie, s: Seq<FrameBatch>, i: int)
  requires 0 <= i <= s.len()
  ensures keep(t, s.subrange(0, i)).len() <= keep(t, s).len()
{
  let f = |b: FrameBatch| wanted(t, b);
  assert(s =~= s.subrange(0, i) + s.skip(i));
  Seq::filter_distributes_over_add(s.subrange(0, i), s.skip(i), f);
}
pub proof fn lemma_frames_step(s: Seq<FrameBatch>, i: int)
  requires 0 <= i < s.len()
  ensures frames_in(s.subrange(0, i + 1)) == frames_in(s.subrange(0, i)) + s[i]@.len()
{ assert(s.subrange(0, i + 1).drop_last() =~= s.subrange(0, i)); assert(s.subrange(0, i + 1).last() == s[i]); }
pub proof fn lemma_frames_prefix_le(s: Seq<FrameBatch>, i: int)
  requires 0 <= i <= s.len()
  ensures frames_in(s.subrange(0, i)) <= frames_in(s)
  decreases s.len() - i
{
  if i == s.len() { assert(s.subrange(0, i) =~= s); }
  else { lemma_frames_step(s, i); lemma_frames_prefix_le(s, i + 1); }
}
pub proof fn lemma_keep_none(t: &SubscriptionTrie, s: Seq<FrameBatch>)
  requires keep(t, s).len() == 0
  ensures forall|i: int| 0 <= i < s.len() ==> !wanted(t, #[trigger] s[i])
{
  let f = |b: FrameBatch| wanted(t, b);
  assert forall|i: int| 0 <= i < s.len() implies !wanted(t, #[trigger] s[i]) by {
    if wanted(t, s[i]) { s.filter_lemma(f); assert(f(s[i])); assert(s.contains(s[i])); assert(s.filter(f).contains(s[i])); }
  }
}
"""

BATCH_R8 = [
  ("R8", re.compile(r"items\s*\.iter\(\)\s*\.filter\(\|b\| trie\.matches\(b\.first\(\)\.and_then\(\|m\| m\.data\(\)\)\.unwrap_or\(&\[\]\)\)\)\s*\.count\(\)", re.S), "verif_match_count(items, trie)", 1, "pre"),
  ("R8", "items.iter().map(|b| b.len()).sum::<usize>()", "verif_total_frames(items)", 1, "pre"),
  ("R8", "sender.slot.upgrade()", "sender.verif_upgrade()", 1),
  ("R8", re.compile(r"slot\s*\.reserved_count\s*\.fetch_add\((\w+), Ordering::AcqRel\)"), r"sender.verif_reserve(\1)", 1),
  ("R8", re.compile(r"slot\s*\.reserved_count\s*\.fetch_sub\(([^,]+), Ordering::AcqRel\)", re.S), r"sender.verif_unreserve(\1)", 1),
  ("R8", "slot.tx.try_send(item)", "sender.verif_slot_try_send(item)", 1),
  ("R8", "slot.queued_count.fetch_add(1, Ordering::AcqRel)", "sender.verif_queued_inc()", 1),
  ("R8", "sender.ready_tx.try_send(Arc::clone(&slot))", "sender.verif_arm(&slot)", 1),
  ("R1", re.compile(r"log_rpq_spin_deadlock!\([^;]*\);"), "", "*", "pre"),
  # the spin counter feeds only the (dropped) diagnostics macro; `spins += 1` would overflow after 2^64 yields
  ("R1", re.compile(r"\n\s*spins \+= 1;"), "", "*"),
  ("R8", "std::thread::yield_now();", "verif_yield();", "*"),
  ("R8", "_ => unreachable!(),", "_ => verif_unreachable(),", "*"),
]
TOPIC = ("R8", re.compile(r"(\w+)\.first\(\)\.and_then\(\|m\| m\.data\(\)\)\.unwrap_or\(&\[\]\)"), r"verif_topic(&\1)", "+")

parts = [
  Raw("prelude/core.rs"),
  Raw("prelude/std.rs"),
  Raw("prelude/bytes.rs"),
  Raw("prelude/msg.rs"),
  Raw("prelude/framebatch.rs"),
  Raw(text=GLUE, label="subfilter-glue"),
  Region(RPQ, "filtered_send", "send", r"Self::FilteredAnonymous \{ sender, trie \} => \{", r"\}\s*\n\s*Self::DirectAddressed \{ sender \} => sender\.send\(batch\)\.await",
         sig="async fn filtered_send(sender: &mut ReadyPipeSender, trie: &SubscriptionTrie, batch: FrameBatch) -> (r: Result<(), ZmqError>)",
         expr=True, impl=IMPL,
         ensures=[("C12:a_message_is_enqueued_iff_the_matcher_accepts_its_first_frame",
                   "(wanted(trie, batch) && r is Ok ==> final(sender).enq@ == old(sender).enq@.push(batch)) && (!wanted(trie, batch) ==> final(sender).enq@ == old(sender).enq@ && r is Ok)"),
                  ("C12:a_failed_enqueue_adds_nothing", "r is Err ==> final(sender).enq@ == old(sender).enq@")],
         extra=[TOPIC]),
  Region(RPQ, "filtered_try_send_sync", "try_send_sync", r"Self::FilteredAnonymous \{ sender, trie \} => \{", r"\}\s*\n\s*Self::DirectAddressed \{ sender \} => sender\.try_send\(batch\)",
         sig="fn filtered_try_send_sync(sender: &mut ReadyPipeSender, trie: &SubscriptionTrie, batch: FrameBatch) -> (r: Result<(), TrySendError<FrameBatch>>)",
         expr=True, impl=IMPL,
         ensures=[("C12:a_message_is_enqueued_iff_the_matcher_accepts_its_first_frame",
                   "(wanted(trie, batch) && r is Ok ==> final(sender).enq@ == old(sender).enq@.push(batch)) && (!wanted(trie, batch) ==> final(sender).enq@ == old(sender).enq@ && r is Ok)"),
                  ("C12+C14:a_refused_message_comes_back_and_adds_nothing", "r is Err ==> final(sender).enq@ == old(sender).enq@ && ((r matches Err(TrySendError::Full(b)) && b == batch) || (r matches Err(TrySendError::Closed(b)) && b == batch))")],
         extra=[TOPIC]),
  # the batched path: pre-scan (declared R8: iterator adapters), bulk discard, coalesced reservation, the drain loop, re-arming
  Region(RPQ, "filtered_try_send_batch", "try_send_batch", r"Self::FilteredAnonymous \{ sender, trie \} => \{", r"\}\s*\n\s*Self::DirectAddressed \{ sender \} => sender\.try_send_batch",
         sig="fn filtered_try_send_batch(sender: &mut ReadyPipeSender, trie: &SubscriptionTrie, items: &mut VecDeque<FrameBatch>) -> (r: usize)",
         expr=True, impl=IMPL, attrs=["#[verifier::exec_allows_no_decreases_clause]", "#[verifier::loop_isolation(false)]"],
         requires=["frames_in(old(items)@) <= usize::MAX"],
         ensures=[("C12:exactly_the_matching_messages_of_the_consumed_prefix_are_enqueued_in_order_the_rest_stays_in_order",
                   "exists|c: int| 0 <= c <= old(items)@.len() && final(items)@ =~= old(items)@.skip(c) && final(sender).enq@ =~= old(sender).enq@ + keep(trie, old(items)@.subrange(0, c)) && r == frames_in(old(items)@.subrange(0, c))"),
                  ("C14:the_reservation_counter_grows_by_exactly_the_number_of_messages_enqueued",
                   "final(sender).reserved@ == old(sender).reserved@ + (final(sender).enq@.len() - old(sender).enq@.len()) && final(sender).queued@ == old(sender).queued@ + (final(sender).enq@.len() - old(sender).enq@.len())")],
         loops={0: {"invariant": [
                      ("C12:drain_loop_keeps_order_and_filters_on_the_first_frame", "0 <= ci <= items0.len() && items@ =~= items0.skip(ci) && sender.enq@ =~= enq0 + keep(trie, items0.subrange(0, ci))"),
                      ("C14:counters_follow_the_loop", "sent_batches == sender.enq@.len() - enq0.len() && sent_batches <= ci && total_frames == frames_in(items0.subrange(0, ci)) && sender.reserved@ == res0 + match_count && sender.queued@ == q0 + sent_batches"),
                    ]},
                1: {"invariant": ["sender.enq@ == enq_end && sender.reserved@ == res_end && sender.queued@ == q_end"]}},
         hints=[
           ("snap", "@fn_start", 0, "", "let ghost items0 = items@; let ghost enq0 = sender.enq@; let ghost res0 = sender.reserved@; let ghost q0 = sender.queued@;"),
           ("bulk", "re:items\\.clear\\(\\);", 0, "before", "proof { lemma_keep_none(trie, items0); assert(keep(trie, items0) =~= Seq::<FrameBatch>::empty()); assert(items0.subrange(0, items0.len() as int) =~= items0); assert(items0.skip(items0.len() as int) =~= Seq::<FrameBatch>::empty()); }"),
           ("noslot", "re:None => return 0,", 0, "before", "// (no slot: nothing consumed: c = 0)\n"),
           ("ci", "@loop_before:0", 0, "", "let ghost mut ci: int = 0; proof { assert(items0.subrange(0, 0) =~= Seq::<FrameBatch>::empty()); assert(items0.skip(0) =~= items0); }"),
           ("head", "@loop_start:0", 0, "", "proof { assert(item == items0[ci]); assert(items@ =~= items0.skip(ci + 1)); lemma_keep_step(trie, items0, ci); lemma_frames_step(items0, ci); lemma_frames_prefix_le(items0, ci + 1); }"),
           ("sent", "re:if prev == 0 \\{", 0, "before", "proof { ci = ci + 1; }"),
           ("skipped", "re:total_frames \\+= item\\.len\\(\\);", 0, "after", "proof { ci = ci + 1; }"),
           ("back1", "re:items\\.push_front\\(returned\\);", 0, "after", "proof { assert(items@ =~= items0.skip(ci)); }"),
           ("back2", "re:items\\.push_front\\(returned\\);", 1, "after", "proof { assert(items@ =~= items0.skip(ci)); }"),
           ("after", "re:if sent_batches < match_count \\{", 0, "before", "proof { lemma_keep_prefix_le(trie, items0, ci); }"),
           ("end", "re:if had_zero_transition \\{", 0, "before", "let ghost enq_end = sender.enq@; let ghost res_end = sender.reserved@; let ghost q_end = sender.queued@;"),
         ],
         extra=BATCH_R8 + [TOPIC]),
]

FNS = {p.name: p for p in parts if isinstance(p, Fn)}
unit = Unit("subfilter", ["C12", "C14"], parts, safety_props=["C12"], notes="SUB: subscription filter in front of the ingress queue")
