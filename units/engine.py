"""U-engine: ZmtpEngine (protocol/zmtp/engine.rs) -- the sans-IO protocol state machine.
Mechanism / framer / command parser enter as abstract contract stand-ins (prelude/engine_env.rs)."""
import re
from vlib.vx import Fn, Item, Raw
from vlib.runner import Unit

EN = "core/src/protocol/zmtp/engine.rs"
ACT = "core/src/protocol/zmtp/actions.rs"
OPT = "core/src/socket/options.rs"
GR = "core/src/protocol/zmtp/greeting.rs"
CODEC = "core/src/protocol/zmtp/codec.rs"
IMPL = r"impl\s+ZmtpEngine\b"

GLUE = """
// R5: #[derive(Default)] on EngineOutput, expanded
impl EngineOutput {
  pub fn new() -> (r: EngineOutput) ensures r.net_actions@.len() == 0, r.app_actions@.len() == 0 {
    EngineOutput { net_actions: Vec::new(), app_actions: Vec::new() }
  }
}
// codec Encoder<Msg>::encode: contract proved on the real body in unit `enc`
pub struct ZmtpCodec { x: u8 }
impl ZmtpCodec {
  pub fn new() -> ZmtpCodec { ZmtpCodec { x: 0 } }
  #[verifier::external_body]
  pub fn encode(&mut self, item: Msg, dst: &mut BytesMut) -> (r: Result<(), ZmqError>)
    ensures r is Ok, final(dst)@ == old(dst)@ + enc_msg(item)
  { unimplemented!() }
}
// R8: the TCP_CORK socket-type test `matches!(name.as_str(), "PUSH" | "PULL" | "PUB" | "SUB")` (string patterns are
// outside Verus' subset; the verdict only selects a SetCork net action and is left uninterpreted)
#[verifier::external_body]
pub fn verif_is_cork_type(c: &ZmtpEngineConfig) -> bool { unimplemented!() }

impl ZmtpEngine {
  // frames of the current call = suffix of the framer's read log
  pub open spec fn new_frames(&self, before: Seq<Msg>) -> Seq<Msg> { self.framer.read_log().skip(before.len() as int) }
}
"""

CORK = [("R8", re.compile(r"matches!\(\s*self\.config\.socket_type_name\.as_str\(\),\s*\"PUSH\" \| \"PULL\" \| \"PUB\" \| \"SUB\"\s*\)", re.S),
         "verif_is_cork_type(&self.config)", 1)]

parts = [
  Raw("prelude/core.rs"),
  Raw("prelude/std.rs"),
  Raw("prelude/bytes.rs"),
  Raw("prelude/msg.rs"),
  Raw("prelude/framebatch.rs"),
  Raw("prelude/zmtp_spec.rs"),
  Raw("prelude/engine_env.rs"),
  Item(OPT, "struct", "ZmtpEngineConfig"),
  Item(ACT, "enum", "NetAction"),
  Item(ACT, "enum", "AppAction"),
  Item(ACT, "struct", "EngineOutput"),
  Item(EN, "enum", "ZmtpVersion", keep_derive=("Clone", "Copy", "PartialEq", "Eq")),
  Item(EN, "enum", "ZmtpPhase", keep_derive=("Clone", "Copy", "PartialEq", "Eq")),
  Item(EN, "struct", "ZmtpEngine"),
  Raw("prelude/engine_spec.rs"),
  Raw(text=GLUE, label="engine-glue"),
  Fn(EN, "encode_msg",
     sig_sub=[("crate::Msg", "Msg")],
     ensures=[("C03+C19:ok", "r is Ok"), ("C03+C19:wire_bytes", "r matches Ok(b) ==> b@ == enc_msg(msg)")],
     extra=[("R2", re.compile(r"\s*\.map_err\(\|e\| ZmqError::Internal\(e\.to_string\(\)\)\)"), "", 1)],
     hints=[("ext", "re:Ok\\(buf\\.freeze\\(\\)\\)", 0, "before", "proof { assert(buf@ =~= enc_msg(msg)); }")]),
  Fn(EN, "fail", impl=IMPL, emit_impl="impl ZmtpEngine",
     ensures=[("C07:closed", "final(self).phase == ZmtpPhase::Closed"),
              ("C07:reports_peer_error", "final(out).app_actions@ == old(out).app_actions@.push(AppAction::PeerError(err)) && final(out).net_actions@ == old(out).net_actions@"),
              ("C06:frame", "final(self).version == old(self).version && final(self).framer == old(self).framer && final(self).config == old(self).config && final(self).partial_batch == old(self).partial_batch")]),
  Fn(EN, "process_data", impl=IMPL, emit_impl="impl ZmtpEngine",
     requires=["all_more(old(self).partial_batch@)", "old(self).phase == ZmtpPhase::Data"],
     ensures=[
       # while the connection stays open every data frame read is either delivered or kept for the message in progress, in order
       ("C02+C04:grouping_conserves_frames_in_order",
        "final(self).phase == old(self).phase ==> delivered_frames(final(out).app_actions@) + final(self).partial_batch@ =~= delivered_frames(old(out).app_actions@) + old(self).partial_batch@ + data_frames(final(self).new_frames(old(self).framer.read_log()))"),
       # and even when it is closed, what was delivered is a prefix of what was received: nothing reordered, invented or cut out of the middle
       ("C02+C04:delivered_is_prefix_of_received",
        "is_prefix(delivered_frames(final(out).app_actions@) + final(self).partial_batch@, delivered_frames(old(out).app_actions@) + old(self).partial_batch@ + data_frames(final(self).new_frames(old(self).framer.read_log())))"),
       ("C02:only_complete_messages_delivered", "deliveries_complete(old(out).app_actions@) ==> deliveries_complete(final(out).app_actions@)"),
       ("C02:partial_keeps_more", "all_more(final(self).partial_batch@)"),
       ("C19:every_ping_answered_with_same_context", "old(self).version != Some(ZmtpVersion::V2) ==> sends(final(out).net_actions@) =~= sends(old(out).net_actions@) + pong_replies(final(self).new_frames(old(self).framer.read_log()))"),
       ("C19:no_heartbeat_on_v2", "old(self).version == Some(ZmtpVersion::V2) ==> sends(final(out).net_actions@) == sends(old(out).net_actions@)"),
       ("C19:pong_clears_waiting", "final(self).waiting_for_pong ==> old(self).waiting_for_pong"),
       ("C06:frame", "final(self).version == old(self).version && final(self).config == old(self).config && final(self).framer.origin_kind() == old(self).framer.origin_kind() && final(self).framer.origin_complete() == old(self).framer.origin_complete()"),
       ("C07:phase_only_closes", "final(self).phase == old(self).phase || final(self).phase == ZmtpPhase::Closed"),
       ("C06:prefix", "old(out).app_actions@.len() <= final(out).app_actions@.len() && final(out).app_actions@.subrange(0, old(out).app_actions@.len() as int) == old(out).app_actions@"),
     ],
     loops={0: {
       "invariant": [
         "all_more(self.partial_batch@)", "old(self).framer.read_log().len() <= self.framer.read_log().len()",
         "self.framer.read_log().subrange(0, old(self).framer.read_log().len() as int) == old(self).framer.read_log()",
         ("C02+C04:loop_grouping", "delivered_frames(out.app_actions@) + self.partial_batch@ =~= delivered_frames(old(out).app_actions@) + old(self).partial_batch@ + data_frames(self.new_frames(old(self).framer.read_log()))"),
         ("C02:loop_complete", "deliveries_complete(old(out).app_actions@) ==> deliveries_complete(out.app_actions@)"),
         ("C19:loop_pongs", "old(self).version != Some(ZmtpVersion::V2) ==> sends(out.net_actions@) =~= sends(old(out).net_actions@) + pong_replies(self.new_frames(old(self).framer.read_log()))"),
         ("C19:loop_v2", "old(self).version == Some(ZmtpVersion::V2) ==> sends(out.net_actions@) == sends(old(out).net_actions@)"),
         "self.waiting_for_pong ==> old(self).waiting_for_pong",
         "self.version == old(self).version && self.config == old(self).config && self.framer.origin_kind() == old(self).framer.origin_kind() && self.framer.origin_complete() == old(self).framer.origin_complete()",
         "self.phase == old(self).phase", "old(self).phase == ZmtpPhase::Data",
         "old(out).app_actions@.len() <= out.app_actions@.len() && out.app_actions@.subrange(0, old(out).app_actions@.len() as int) == old(out).app_actions@",
       ],
       "decreases": "self.framer.budget(self.network_read_accumulator@)"}},
     extra=[("R6", "ZmtpCommand::create_pong(&ctx)", "ZmtpCommand::create_pong(ctx.as_slice())", 1)],
     hints=[
       ("top", "@loop_start:0", 0, "", "broadcast use lemma_delivered_push, lemma_sends_push;\nlet ghost log0 = self.framer.read_log(); let ghost base = old(self).framer.read_log(); let ghost nf0 = self.new_frames(base); let ghost acts0 = out.app_actions@; let ghost nets0 = out.net_actions@; let ghost part0 = self.partial_batch@;"),
       ("read", "re:self\\.last_activity_time\\s*=\\s*Instant::now\\(\\);", 0, "before",
        "proof { assert(self.new_frames(base) =~= nf0.push(msg)); lemma_data_frames_push(nf0, msg); lemma_pong_replies_push(nf0, msg); }\nlet ghost m0 = msg;"),
       ("end", "@loop_end:0", 0, "",
        "proof { assert(delivered_frames(out.app_actions@) + self.partial_batch@ =~= (delivered_frames(acts0) + part0).push(m0)); }"),
     ]),
]

FNS = {p.name: p for p in parts if isinstance(p, Fn)}
unit = Unit("engine", ["C02", "C03", "C04", "C06", "C07", "C19"], parts, safety_props=["C02", "C07"], notes="ZmtpEngine state machine")
