"""U-engine: ZmtpEngine (protocol/zmtp/engine.rs) -- the sans-IO protocol state machine.
Every phase handler is extracted verbatim and proved to preserve the engine invariant `inv()`;
mechanism / framer / command parser enter as abstract contract stand-ins (prelude/engine_env.rs)."""
import re
from vlib.vx import Fn, Item, Raw, as_contract
from units import command, enc, greeting
from vlib.runner import Unit

EN = "core/src/protocol/zmtp/engine.rs"
ACT = "core/src/protocol/zmtp/actions.rs"
OPT = "core/src/socket/options.rs"
GR = "core/src/protocol/zmtp/greeting.rs"
IMPL = r"impl\s+ZmtpEngine\b"

GLUE = """
// R5: #[derive(Default)] on EngineOutput, expanded
impl EngineOutput {
  pub fn new() -> (r: EngineOutput) ensures r.net_actions@.len() == 0, r.app_actions@.len() == 0 {
    EngineOutput { net_actions: Vec::new(), app_actions: Vec::new() }
  }
}
// R8: the TCP_CORK socket-type test `matches!(name.as_str(), "PUSH" | "PULL" | "PUB" | "SUB")` (string patterns are
// outside Verus' subset; the verdict only selects a SetCork net action and is left uninterpreted)
#[verifier::external_body]
pub fn verif_is_cork_type(c: &ZmtpEngineConfig) -> bool { unimplemented!() }
// R8: `self.config.routing_id.as_ref().map_or_else(Vec::new, |id| id.as_ref().to_vec())`
// what an endpoint announces as its identity: the configured routing id (absent = anonymous = empty)
pub open spec fn announced_id(c: ZmtpEngineConfig) -> Seq<u8> { match c.routing_id { Some(b) => b@, None => Seq::<u8>::empty() } }
#[verifier::external_body]
pub fn verif_routing_id_bytes(c: &ZmtpEngineConfig) -> (r: Vec<u8>) ensures r@ == announced_id(*c) { unimplemented!() }
// R8 (build_local_ready_props): the two property names as opaque keys (string literals are outside the proof); ASSUMED distinct
pub uninterp spec fn KEY_IDENTITY() -> String;
pub uninterp spec fn KEY_SOCKET_TYPE() -> String;
pub broadcast axiom fn axiom_ready_keys() ensures #[trigger] KEY_IDENTITY() != KEY_SOCKET_TYPE();
pub broadcast axiom fn axiom_string_key_model() ensures #[trigger] vstd::std_specs::hash::obeys_key_model::<String>();
#[verifier::external_body]
pub fn verif_key_identity() -> (r: String) ensures r == KEY_IDENTITY() { unimplemented!() }
#[verifier::external_body]
pub fn verif_key_socket_type() -> (r: String) ensures r == KEY_SOCKET_TYPE() { unimplemented!() }
// R8: `config.socket_type_name.as_bytes().to_vec()` / `rid.as_ref().to_vec()`
#[verifier::external_body]
pub fn verif_name_bytes(c: &ZmtpEngineConfig) -> Vec<u8> { unimplemented!() }
impl Blob { #[verifier::external_body] pub fn verif_to_vec(&self) -> (r: Vec<u8>) ensures r@ == self@ { unimplemented!() } }
// R8: `self.config.heartbeat_timeout.map(|d| d.as_millis().min(u16::MAX as u128) as u16).unwrap_or(0)`
#[verifier::external_body]
pub fn verif_ttl_ms(c: &ZmtpEngineConfig) -> u16 { unimplemented!() }
// R8: `socket_type_name_from_code(b).map(String::from)`
#[verifier::external_body]
pub fn verif_empty_slice() -> (r: &'static [u8]) ensures r@ =~= Seq::<u8>::empty() { unimplemented!() }
pub uninterp spec fn stype_name(code: u8) -> Option<String>;
#[verifier::external_body]
pub fn verif_stype_name_owned(code: u8) -> (r: Option<String>) ensures r == stype_name(code) { unimplemented!() }

// ---- greeting.rs / security/mod.rs callees as contract stand-ins (their own units: greeting, compat, negotiate)
// std::time::Instant::duration_since saturates at zero
pub open spec fn elapsed(now: Instant, since: Instant) -> nat { if now.ns() >= since.ns() { (now.ns() - since.ns()) as nat } else { 0 } }
#[verifier::external_body]
pub fn local_mechanism_name_bytes(config: &ZmtpEngineConfig) -> &'static [u8; 20] { unimplemented!() }
#[verifier::external_body]
pub fn socket_type_code(name: &String) -> Option<u8> { unimplemented!() }
// C05: "peer socket type is a valid pairing for the local one" -- established only by a compatibility check
// (validate_v2_compatibility establishes it on the ZMTP/2.0 path); nothing establishes it on the ZMTP/3.x path today
pub uninterp spec fn pairing_checked(c: ZmtpEngineConfig, peer_type: Option<String>) -> bool;

// which mechanisms the local configuration admits; NULL only when no security mechanism is configured
pub open spec fn allowed_kind(c: ZmtpEngineConfig, k: MechKind) -> bool {
  match k {
    MechKind::Null => !c.security_enabled,
    MechKind::Plain => c.use_plain,
    MechKind::Curve => c.use_curve,
    MechKind::NoiseXx => c.use_noise_xx,
  }
}
// security/mod.rs negotiate_security_mechanism: the returned mechanism is one the local configuration enables
#[verifier::external_body]
pub fn negotiate_security_mechanism(is_server: bool, local_config: &ZmtpEngineConfig, peer_greeting: &ZmtpGreeting, h: usize)
  -> (r: Result<Box<dyn Mechanism>, ZmqError>)
  ensures r matches Ok(m) ==> allowed_kind(*local_config, m.kind()) && m.role_server() == is_server
{ unimplemented!() }

// number of HandshakeComplete / DeliverMessage actions: the outputs C06 forbids before authentication
pub open spec fn n_gated(acts: Seq<AppAction>) -> nat
  decreases acts.len()
{
  if acts.len() == 0 { 0 } else { n_gated(acts.drop_last()) + (if is_delivery(acts.last()) || is_hs_complete(acts.last()) { 1nat } else { 0nat }) }
}
pub broadcast proof fn lemma_n_gated_push(acts: Seq<AppAction>, a: AppAction)
  ensures #[trigger] n_gated(acts.push(a)) == n_gated(acts) + (if is_delivery(a) || is_hs_complete(a) { 1nat } else { 0nat })
{
  assert(acts.push(a).drop_last() =~= acts);
  assert(acts.push(a).last() == a);
}
pub open spec fn extends(old_acts: Seq<AppAction>, new_acts: Seq<AppAction>) -> bool {
  old_acts.len() <= new_acts.len() && new_acts.subrange(0, old_acts.len() as int) =~= old_acts
}

impl ZmtpEngine {
  // frames of the current call = suffix of the framer's read log
  pub open spec fn new_frames(&self, before: Seq<Msg>) -> Seq<Msg> { self.framer.read_log().skip(before.len() as int) }

  // C06: the framer in use was produced by a COMPLETED mechanism that the local configuration enables
  // ... and that played the side of the security handshake that matches the transport role: a listener CHECKS its peers (a mechanism
  // in the client role completes on the peer's word alone, so a listener running one has authenticated nobody); NULL has no roles
  pub open spec fn role_ok(&self, kind: MechKind, role_server: bool) -> bool { kind != MechKind::Null ==> role_server == self.is_server }
  pub open spec fn framer_auth(&self) -> bool { self.framer.origin_complete() && allowed_kind(*self.config, self.framer.origin_kind()) && self.role_ok(self.framer.origin_kind(), self.framer.origin_role_server()) }
  pub open spec fn auth_ok(&self) -> bool {
    (self.version == Some(ZmtpVersion::V3) && self.framer_auth()) || (self.version == Some(ZmtpVersion::V2) && !self.config.security_enabled)
  }
  // the engine invariant, preserved by every handler
  pub open spec fn inv(&self) -> bool {
    &&& all_more(self.partial_batch@)
    // C07: whichever framer reads the peer's bytes -- the handshake framer, and for a ZMTP/2.0 peer the SAME framer for the whole
    // connection -- enforces the configured MAXMSGSIZE, and so does the data-phase framer waiting to be activated
    &&& self.framer.max_size() == self.config.max_msg_size
    &&& (self.pending_framer matches Some(f) ==> f.max_size() == self.config.max_msg_size)
    &&& (self.version == Some(ZmtpVersion::V2) ==> !self.config.security_enabled)
    &&& (self.phase == ZmtpPhase::Greeting ==> self.version != Some(ZmtpVersion::V2))
    &&& (self.phase == ZmtpPhase::V2Identity ==> self.version == Some(ZmtpVersion::V2))
    &&& (self.phase == ZmtpPhase::Security ==> self.version == Some(ZmtpVersion::V3) && allowed_kind(*self.config, self.security_mechanism.kind())
          && self.role_ok(self.security_mechanism.kind(), self.security_mechanism.role_server()))
    &&& (self.phase == ZmtpPhase::Ready ==> self.version == Some(ZmtpVersion::V3)
          && (self.pending_framer matches Some(f) && (f.origin_complete() && allowed_kind(*self.config, f.origin_kind()) && self.role_ok(f.origin_kind(), f.origin_role_server()))))
    &&& (self.phase == ZmtpPhase::Data ==> self.auth_ok())
    &&& (self.version == Some(ZmtpVersion::V2) ==> pairing_checked(*self.config, self.v2_peer_socket_type))
  }
  // C04: when a handler returns in the Data phase -- or in the Ready phase, where the peer's READY (and data behind it) may have arrived
  // in the same read as its last security token -- nothing decodable is left behind in the accumulator
  pub open spec fn drained(&self) -> bool {
    (self.phase == ZmtpPhase::Data || self.phase == ZmtpPhase::Ready) ==> (self.network_read_accumulator@.len() == 0 || self.framer.would_block(self.network_read_accumulator@))
  }
}
"""

CORK = [("R8", re.compile(r"matches!\(\s*self\.config\.socket_type_name\.as_str\(\),\s*\"PUSH\" \| \"PULL\" \| \"PUB\" \| \"SUB\"\s*\)", re.S),
         "verif_is_cork_type(&self.config)", 1)]

# what every phase handler guarantees about the output it appends to and the state it leaves
def handler_post(extra=(), hs_frame=True):
  return ([HS_FRAME] if hs_frame else []) + [
    ("C02+C04+C05+C06:inv_preserved", "final(self).inv()"),
    ("C06:config_frame", "final(self).config == old(self).config"),
    # no HandshakeComplete and no DeliverMessage is ever emitted unless the peer completed the configured mechanism
    ("C06:handshake_complete_and_deliveries_only_when_authenticated", "n_gated(final(out).app_actions@) > 0 ==> final(self).auth_ok()"),
    ("C06:authentication_is_never_lost", "old(self).auth_ok() ==> final(self).auth_ok()"),
    ("C02:only_complete_messages_delivered", "deliveries_complete(old(out).app_actions@) ==> deliveries_complete(final(out).app_actions@)"),
    ("C06:output_only_appended", "extends(old(out).app_actions@, final(out).app_actions@)"),
    ("C04:leftover_bytes_drained_in_same_call", "final(self).drained()"),
    # byte conservation: the engine never loses or invents a byte of the peer's stream -- whatever has not been handed to the
    # greeting parser / framer (removed from the FRONT of the accumulator) is still in the accumulator, in order
    ("C04:no_byte_of_the_peers_stream_is_lost_or_invented", "final(self).network_read_accumulator.stream() == old(self).network_read_accumulator.stream()"),
  ] + list(extra)

HS_FRAME = ("C05:handshake_flags_frame", "final(self).revision_sent == old(self).revision_sent && final(self).version == old(self).version && final(self).is_server == old(self).is_server && final(self).v2_peer_socket_type == old(self).v2_peer_socket_type")

PD_INV_FRAME = ("self.version == old(self).version && self.config == old(self).config && self.framer.origin_kind() == old(self).framer.origin_kind() && self.framer.max_size() == old(self).framer.max_size() "
                "&& self.framer.origin_complete() == old(self).framer.origin_complete() && self.framer.origin_role_server() == old(self).framer.origin_role_server() "
                "&& self.network_read_accumulator.stream() == old(self).network_read_accumulator.stream()")

parts = [
  Raw("prelude/core.rs"),
  Raw("prelude/std.rs"),
  Raw("prelude/bytes.rs"),
  Raw("prelude/msg.rs"),
  Raw("prelude/framebatch.rs"),
  Raw("prelude/zmtp_spec.rs"),
  Raw("prelude/command_spec.rs"),
  Raw("prelude/time.rs"),
  Raw("prelude/engine_env.rs"),
  Raw("prelude/greeting_spec.rs"),
  Item(GR, "const", "GREETING_LENGTH"),
  Item(GR, "const", "MECHANISM_LENGTH"),
  Item(GR, "const", "SIGNATURE_LENGTH"),
  Item(GR, "const", "V2_REVISION"),
  Item(GR, "const", "V3_REVISION"),
  Item(GR, "struct", "ZmtpGreeting"),
  Item(EN, "const", "REVISION_OFFSET"),
  Item(EN, "const", "V2_SOCKET_TYPE_OFFSET"),
  Item(EN, "const", "V2_GREETING_LENGTH"),
  Item(OPT, "struct", "ZmtpEngineConfig"),
  Item(ACT, "enum", "NetAction"),
  Item(ACT, "enum", "AppAction"),
  Item(ACT, "struct", "EngineOutput"),
  Item(EN, "enum", "ZmtpVersion", keep_derive=("Clone", "Copy", "PartialEq", "Eq")),
  Item(EN, "enum", "ZmtpPhase", keep_derive=("Clone", "Copy", "PartialEq", "Eq")),
  Item(EN, "struct", "ZmtpEngine"),
  Raw("prelude/engine_spec.rs"),
  Raw(text=GLUE, label="engine-glue"),
  # codec: real struct + constructor, Encoder<Msg>::encode by its contract proved in unit `enc`
  Item(enc.CODEC, "struct", "FrameHeader"),
  Item(enc.CODEC, "enum", "DecodingState"),
  Item(enc.CODEC, "struct", "ZmtpCodec"),
  Fn(enc.CODEC, "new", impl=r"impl\s+ZmtpCodec\b", emit_impl="impl ZmtpCodec",
     extra=[("R5", "DecodingState::default()", "DecodingState::ReadHeader", 1)]),
  as_contract(enc.FNS["encode"]),
  # greeting: contracts proved on the real bodies in unit `greeting`
  as_contract(greeting.FNS["decode"]),
  as_contract(greeting.FNS["encode_v3_tail"]),
  # command parser/constructors: contracts proved on the real bodies in unit `command`
  as_contract(command.FNS["parse"]),
  as_contract(command.FNS["create_pong"]),
  as_contract(command.FNS["create_ping"]),
  Fn(EN, "encode_msg",
     sig_sub=[("crate::Msg", "Msg")],
     ensures=[("C03+C19:ok", "r is Ok"), ("C03+C19:wire_bytes", "r matches Ok(b) ==> b@ == enc_msg(msg)")],
     extra=[("R2", re.compile(r"\s*\.map_err\(\|e\| ZmqError::Internal\(e\.to_string\(\)\)\)"), "", 1)],
     hints=[("ext", "re:Ok\\(buf\\.freeze\\(\\)\\)", 0, "before", "proof { assert(buf@ =~= enc_msg(msg)); }")]),
  Fn(EN, "fail", impl=IMPL, emit_impl="impl ZmtpEngine",
     ensures=[HS_FRAME, ("C07:closed", "final(self).phase == ZmtpPhase::Closed"),
              ("C07:reports_peer_error", "final(out).app_actions@ == old(out).app_actions@.push(AppAction::PeerError(err)) && final(out).net_actions@ == old(out).net_actions@"),
              ("C06:frame", "final(self).version == old(self).version && final(self).framer == old(self).framer && final(self).config == old(self).config && final(self).partial_batch == old(self).partial_batch "
                            "&& final(self).network_read_accumulator == old(self).network_read_accumulator && final(self).pending_framer == old(self).pending_framer && final(self).security_mechanism == old(self).security_mechanism")]),
  # ZMTP/2.0 compatibility check (string matching: decided by the Kani harness vk_v2_compat_table); here only its role:
  # an Ok verdict is what establishes "pairing checked" for the peer's socket-type byte
  Fn(EN, "validate_v2_compatibility", impl=IMPL, emit_impl="impl ZmtpEngine", contract_only=True,
     ensures=[("C05:ok_establishes_pairing", "r is Ok ==> pairing_checked(*self.config, stype_name(peer_byte))")]),
  Fn(EN, "activate_pending_framer", impl=IMPL, emit_impl="impl ZmtpEngine",
     ensures=[HS_FRAME, ("C06:swaps_in_the_pending_framer", "old(self).pending_framer matches Some(f) ==> final(self).framer == f && final(self).pending_framer is None"),
              ("C06:noop_without_pending", "old(self).pending_framer is None ==> final(self).framer == old(self).framer && final(self).pending_framer is None"),
              ("C06:frame", "final(self).version == old(self).version && final(self).config == old(self).config && final(self).phase == old(self).phase && final(self).partial_batch == old(self).partial_batch "
                            "&& final(self).network_read_accumulator == old(self).network_read_accumulator && final(self).security_mechanism == old(self).security_mechanism")]),
  # the constructor: a fresh engine satisfies the invariant; in particular its handshake framer carries the configured MAXMSGSIZE
  Fn(EN, "new", impl=IMPL, emit_impl="impl ZmtpEngine",
     ensures=[("C02+C04+C05+C06:a_fresh_engine_satisfies_the_invariant", "r.inv()"),
              ("C07:the_handshake_framer_enforces_the_configured_maxmsgsize", "r.framer.max_size() == config.max_msg_size && r.config == config"),
              ("C05+C06:starts_in_the_greeting_phase_unauthenticated", "r.phase == ZmtpPhase::Greeting && r.version is None && r.is_server == is_server && r.pending_framer is None && r.network_read_accumulator@.len() == 0")]),
  Fn(EN, "derive_pending_framer", impl=IMPL, emit_impl="impl ZmtpEngine",
     ensures=[HS_FRAME, ("C06:framer_remembers_its_mechanism", "r matches Ok(f) ==> f.origin_kind() == old(self).security_mechanism.kind() && f.origin_complete() == old(self).security_mechanism.complete() && f.origin_role_server() == old(self).security_mechanism.role_server()"),
              ("C07:the_data_phase_framer_enforces_the_configured_maxmsgsize", "r matches Ok(f) ==> f.max_size() == old(self).config.max_msg_size"),
              ("C06:frame", "final(self).version == old(self).version && final(self).config == old(self).config && final(self).phase == old(self).phase && final(self).partial_batch == old(self).partial_batch "
                            "&& final(self).network_read_accumulator == old(self).network_read_accumulator && final(self).framer == old(self).framer && final(self).pending_framer == old(self).pending_framer")]),
  # READY metadata the endpoint announces (ZMTP/3.x): the Identity property is the configured routing id, present iff it is non-empty
  Fn(EN, "build_local_ready_props",
     ensures=[("C05:ready_announces_the_configured_routing_id",
               "r@.contains_key(KEY_IDENTITY()) == (announced_id(*config).len() > 0) && (announced_id(*config).len() > 0 ==> r@[KEY_IDENTITY()]@ == announced_id(*config))"),
              ("C05:ready_announces_the_socket_type", "r@.contains_key(KEY_SOCKET_TYPE())")],
     extra=[("R8", '"Socket-Type".to_string()', "verif_key_socket_type()", 1, "pre"), ("R8", '"Identity".to_string()', "verif_key_identity()", 1, "pre"),
            ("R8", "config.socket_type_name.as_bytes().to_vec()", "verif_name_bytes(config)", 1), ("R8", "rid.as_ref().to_vec()", "rid.verif_to_vec()", 1)],
     hints=[("bc", "@fn_start", 0, "", "broadcast use {axiom_ready_keys, axiom_string_key_model, vstd::std_specs::hash::group_hash_axioms}; proof { assert(vstd::std_specs::hash::obeys_key_model::<String>()); assert(vstd::std_specs::hash::builds_valid_hashers::<std::hash::RandomState>()); }")]),
  Fn(EN, "emit_local_ready", impl=IMPL, emit_impl="impl ZmtpEngine",
     ensures=[("C06:never_reports_completion", "n_gated(final(out).app_actions@) == n_gated(old(out).app_actions@)"),
              ("C06:output_only_appended", "extends(old(out).app_actions@, final(out).app_actions@)"),
              ("C02:no_delivery", "deliveries_complete(old(out).app_actions@) ==> deliveries_complete(final(out).app_actions@)")],
     extra=[("R6", "build_local_ready_props(&self.config)", "build_local_ready_props(&*self.config)", 1)],
     hints=[("bc", "@fn_start", 0, "", "broadcast use lemma_delivered_push, lemma_sends_push, lemma_n_gated_push;")]),
  Fn(EN, "process_data", impl=IMPL, emit_impl="impl ZmtpEngine", safety_props=["C02", "C04", "C06", "C07"],
     requires=["n_gated(old(out).app_actions@) > 0 ==> old(self).auth_ok()", "old(self).inv()", "old(self).phase == ZmtpPhase::Data"],
     ensures=handler_post([
       # while the connection stays open every data frame read is either delivered or kept for the message in progress, in order
       ("C02+C04:grouping_conserves_frames_in_order",
        "final(self).phase == old(self).phase ==> delivered_frames(final(out).app_actions@) + final(self).partial_batch@ =~= delivered_frames(old(out).app_actions@) + old(self).partial_batch@ + data_frames(final(self).new_frames(old(self).framer.read_log()))"),
       # and even when it is closed, what was delivered is a prefix of what was received: nothing reordered, invented or cut out of the middle
       ("C02+C04:delivered_is_prefix_of_received",
        "is_prefix(delivered_frames(final(out).app_actions@) + final(self).partial_batch@, delivered_frames(old(out).app_actions@) + old(self).partial_batch@ + data_frames(final(self).new_frames(old(self).framer.read_log())))"),
       ("C19:every_ping_answered_with_same_context", "old(self).version != Some(ZmtpVersion::V2) ==> sends(final(out).net_actions@) =~= sends(old(out).net_actions@) + pong_replies(final(self).new_frames(old(self).framer.read_log()))"),
       ("C19:no_heartbeat_on_v2", "old(self).version == Some(ZmtpVersion::V2) ==> sends(final(out).net_actions@) == sends(old(out).net_actions@)"),
       ("C19:pong_clears_waiting", "final(self).waiting_for_pong ==> old(self).waiting_for_pong"),
       # "a peer on which traffic keeps flowing is never disconnected by the heartbeat logic": any inbound frame is a sign of life,
       # so an outstanding PING stops counting towards HEARTBEAT_TIMEOUT (as in libzmq, which cancels its timeout timer on any input)
       ("C19:any_inbound_frame_counts_as_liveness", "final(self).new_frames(old(self).framer.read_log()).len() > 0 ==> !final(self).waiting_for_pong"),
       ("C06:frame", "final(self).version == old(self).version && final(self).framer.origin_kind() == old(self).framer.origin_kind() && final(self).framer.origin_complete() == old(self).framer.origin_complete() && final(self).framer.origin_role_server() == old(self).framer.origin_role_server()"),
       ("C07:phase_only_closes", "final(self).phase == old(self).phase || final(self).phase == ZmtpPhase::Closed"),
     ]),
     loops={0: {
       "invariant": [
         "all_more(self.partial_batch@)", "old(self).framer.read_log().len() <= self.framer.read_log().len()",
         "self.framer.read_log().subrange(0, old(self).framer.read_log().len() as int) == old(self).framer.read_log()",
         ("C02+C04:loop_grouping", "delivered_frames(out.app_actions@) + self.partial_batch@ =~= delivered_frames(old(out).app_actions@) + old(self).partial_batch@ + data_frames(self.new_frames(old(self).framer.read_log()))"),
         ("C02:loop_complete", "deliveries_complete(old(out).app_actions@) ==> deliveries_complete(out.app_actions@)"),
         ("C19:loop_pongs", "old(self).version != Some(ZmtpVersion::V2) ==> sends(out.net_actions@) =~= sends(old(out).net_actions@) + pong_replies(self.new_frames(old(self).framer.read_log()))"),
         ("C19:loop_v2", "old(self).version == Some(ZmtpVersion::V2) ==> sends(out.net_actions@) == sends(old(out).net_actions@)"),
         "self.waiting_for_pong ==> old(self).waiting_for_pong",
         ("C19:loop_liveness", "self.new_frames(old(self).framer.read_log()).len() > 0 ==> !self.waiting_for_pong"),
         PD_INV_FRAME,
         "self.phase == old(self).phase", "old(self).phase == ZmtpPhase::Data", "old(self).inv()",
         "self.revision_sent == old(self).revision_sent && self.is_server == old(self).is_server && self.v2_peer_socket_type == old(self).v2_peer_socket_type",
         "extends(old(out).app_actions@, out.app_actions@)",
         "old(self).auth_ok()", "n_gated(old(out).app_actions@) > 0 ==> old(self).auth_ok()",
       ],
       "ensures": [("C04:loop_exit_drained", "self.framer.would_block(self.network_read_accumulator@)")],
       "decreases": "self.framer.budget(self.network_read_accumulator@)"}},
     extra=[("R6", "ZmtpCommand::create_pong(&ctx)", "ZmtpCommand::create_pong(ctx.as_slice())", 1)],
     hints=[
       ("top", "@loop_start:0", 0, "", "broadcast use lemma_delivered_push, lemma_sends_push, lemma_n_gated_push;\nlet ghost log0 = self.framer.read_log(); let ghost base = old(self).framer.read_log(); let ghost nf0 = self.new_frames(base); let ghost acts0 = out.app_actions@; let ghost nets0 = out.net_actions@; let ghost part0 = self.partial_batch@;"),
       ("read", "re:if msg\\.is_command\\(\\) \\{", 0, "before",
        "proof { assert(self.new_frames(base) =~= nf0.push(msg)); lemma_data_frames_push(nf0, msg); lemma_pong_replies_push(nf0, msg); }\nlet ghost m0 = msg;"),
       ("end", "@loop_end:0", 0, "",
        "proof { assert(delivered_frames(out.app_actions@) + self.partial_batch@ =~= (delivered_frames(acts0) + part0).push(m0)); }"),
     ]),
  Fn(EN, "process_v2_identity", impl=IMPL, emit_impl="impl ZmtpEngine", safety_props=["C02", "C04", "C06", "C07"],
     requires=["n_gated(old(out).app_actions@) > 0 ==> old(self).auth_ok()", "old(self).inv()", "old(self).phase == ZmtpPhase::V2Identity"],
     ensures=handler_post([("C19:no_heartbeat_state_on_v2", "final(self).version == old(self).version"),
       ("C05:v2_identity_frame_announces_the_configured_routing_id",
        "!old(self).v2_identity_sent && final(self).v2_identity_sent ==> sends(final(out).net_actions@).len() > sends(old(out).net_actions@).len() "
        "&& sends(final(out).net_actions@)[sends(old(out).net_actions@).len() as int] == enc_frame(false, false, announced_id(*old(self).config))")]),
     extra=CORK + [
       ("R8", re.compile(r"self\s*\.config\s*\.routing_id\s*\.as_ref\(\)\s*\.map_or_else\(Vec::new, \|id\| id\.as_ref\(\)\.to_vec\(\)\)", re.S), "verif_routing_id_bytes(&self.config)", 1),
       ("R5", "crate::Msg::from_vec", "Msg::from_vec", 1),
     ],
     hints=[("bc", "@fn_start", 0, "", "broadcast use lemma_delivered_push, lemma_sends_push, lemma_n_gated_push;"),
            ("C05:v2_socket_type_checked_before_completion", "re:out\\.app_actions\\.push\\(AppAction::HandshakeComplete \\{", 0, "before",
             "proof { assert(pairing_checked(*self.config, self.v2_peer_socket_type)); }")]),
  Fn(EN, "process_ready", impl=IMPL, emit_impl="impl ZmtpEngine", safety_props=["C02", "C04", "C06", "C07"],
     requires=["n_gated(old(out).app_actions@) > 0 ==> old(self).auth_ok()", "old(self).inv()", "old(self).phase == ZmtpPhase::Ready"],
     ensures=handler_post(),
     extra=CORK + [
       ("R8", re.compile(r"ready_cmd\s*\.properties\s*\.get\(\"Socket-Type\"\)\s*\.map\(\|v\| String::from_utf8_lossy\(v\)\.into_owned\(\)\)", re.S), "verif_ready_socket_type(&ready_cmd)", 1),
       ("R8", re.compile(r"ready_cmd\s*\.properties\s*\.get\(\"Identity\"\)\s*\.map\(\|v\| Blob::from\(v\.clone\(\)\)\)", re.S), "verif_ready_identity(&ready_cmd)", 1),
     ],
     loops={0: {
       "invariant": ["self.network_read_accumulator.stream() == old(self).network_read_accumulator.stream()", "n_gated(old(out).app_actions@) > 0 ==> old(self).auth_ok()", "old(self).auth_ok() ==> self.auth_ok()", "self.revision_sent == old(self).revision_sent && self.version == old(self).version && self.is_server == old(self).is_server && self.v2_peer_socket_type == old(self).v2_peer_socket_type", "self.inv()", "self.phase == ZmtpPhase::Ready", "self.config == old(self).config", "out.app_actions@ == old(out).app_actions@"],
       "ensures": ["self.framer.would_block(self.network_read_accumulator@)"],
       "decreases": "self.framer.budget(self.network_read_accumulator@)"}},
     hints=[("bc", "@loop_start:0", 0, "", "broadcast use lemma_delivered_push, lemma_sends_push, lemma_n_gated_push;"),
            # C05 known finding: the READY handler reports completion without validating the peer's Socket-Type
            ("C05:KF_v3_socket_type_checked_before_completion", "re:out\\.app_actions\\.push\\(AppAction::HandshakeComplete \\{", 0, "before",
             "proof { assert(pairing_checked(*self.config, peer_socket_type)); }")]),
  Fn(EN, "emit_security_token", impl=IMPL, emit_impl="impl ZmtpEngine", safety_props=["C02", "C04", "C06", "C07"],
     requires=["n_gated(old(out).app_actions@) > 0 ==> old(self).auth_ok()", "old(self).inv()", "old(self).phase == ZmtpPhase::Security"],
     ensures=[HS_FRAME, 
       ("C06:inv_preserved", "final(self).inv()"),
       ("C06:config_frame", "final(self).config == old(self).config"),
       ("C06:never_reports_completion", "n_gated(final(out).app_actions@) == n_gated(old(out).app_actions@)"),
       ("C06:output_only_appended", "extends(old(out).app_actions@, final(out).app_actions@)"),
       ("C02:no_delivery", "deliveries_complete(old(out).app_actions@) ==> deliveries_complete(final(out).app_actions@)"),
       ("C06:phase", "r ==> final(self).phase == ZmtpPhase::Security"),
       ("C07:false_means_closed", "!r ==> final(self).phase == ZmtpPhase::Closed"),
       ("C06:frame", "final(self).version == old(self).version && final(self).framer == old(self).framer && final(self).pending_framer == old(self).pending_framer "
                     "&& final(self).network_read_accumulator == old(self).network_read_accumulator && final(self).partial_batch == old(self).partial_batch"),
     ],
     extra=[("R5", re.compile(r"\n\s*use crate::\{Msg, MsgFlags\};"), "", 1)],
     hints=[("bc", "@fn_start", 0, "", "broadcast use lemma_delivered_push, lemma_sends_push, lemma_n_gated_push;")]),
  Fn(EN, "check_security_complete", impl=IMPL, emit_impl="impl ZmtpEngine", safety_props=["C02", "C04", "C06", "C07"],
     requires=["n_gated(old(out).app_actions@) > 0 ==> old(self).auth_ok()", "old(self).inv()", "old(self).phase == ZmtpPhase::Security"],
     ensures=handler_post([
       # the Ready phase is entered only on the mechanism's own completion report
       ("C06:ready_only_after_mechanism_complete", "final(self).phase != ZmtpPhase::Security ==> old(self).security_mechanism.complete() || final(self).phase == ZmtpPhase::Closed"),
       ("C06:unfinished_mechanism_changes_nothing", "!r ==> final(self).phase == ZmtpPhase::Security && final(out).app_actions@ == old(out).app_actions@ && final(self).framer == old(self).framer "
        "&& final(self).network_read_accumulator == old(self).network_read_accumulator"),
     ]),
     hints=[("bc", "@fn_start", 0, "", "broadcast use lemma_delivered_push, lemma_sends_push, lemma_n_gated_push;")]),
  Fn(EN, "process_security", impl=IMPL, emit_impl="impl ZmtpEngine", safety_props=["C02", "C04", "C06", "C07"],
     requires=["n_gated(old(out).app_actions@) > 0 ==> old(self).auth_ok()", "old(self).inv()", "old(self).phase == ZmtpPhase::Security"],
     ensures=handler_post(),
     extra=[("R2", re.compile(r"self\s*\.security_mechanism\s*\.error_reason\(\)\s*\.unwrap_or\(\"unknown\"\)\s*\.to_owned\(\)", re.S), "verif_fmt()", 1)],
     loops={0: {
       "invariant": ["self.network_read_accumulator.stream() == old(self).network_read_accumulator.stream()", "n_gated(old(out).app_actions@) > 0 ==> old(self).auth_ok()", "old(self).auth_ok() ==> self.auth_ok()", "self.revision_sent == old(self).revision_sent && self.version == old(self).version && self.is_server == old(self).is_server && self.v2_peer_socket_type == old(self).v2_peer_socket_type", "self.inv()", "self.phase == ZmtpPhase::Security", "self.config == old(self).config",
                     "extends(old(out).app_actions@, out.app_actions@)",
                     "n_gated(out.app_actions@) == n_gated(old(out).app_actions@)",
                     "deliveries_complete(old(out).app_actions@) ==> deliveries_complete(out.app_actions@)"],
       "decreases": "self.framer.budget(self.network_read_accumulator@)"}},
     hints=[("bc", "@fn_start", 0, "", "broadcast use lemma_delivered_push, lemma_sends_push, lemma_n_gated_push;"),
            ("bc2", "@loop_start:0", 0, "", "broadcast use lemma_delivered_push, lemma_sends_push, lemma_n_gated_push;")]),
  Fn(EN, "process_greeting", impl=IMPL, emit_impl="impl ZmtpEngine", safety_props=["C02", "C04", "C06", "C07"],
     requires=["n_gated(old(out).app_actions@) > 0 ==> old(self).auth_ok()", "old(self).inv()", "old(self).phase == ZmtpPhase::Greeting"],
     ensures=handler_post(hs_frame=False, extra=[
       # C05 staged greeting: the revision byte needs only the peer's 10-byte signature, the v3 tail only its revision byte
       ("C05:revision_follows_peer_signature",
        "old(self).network_read_accumulator@.len() >= 10 && old(self).network_read_accumulator@[0] == 0xFF && old(self).network_read_accumulator@[9] == 0x7F ==> final(self).revision_sent"),
       ("C05:revision_sent_at_most_once", "old(self).revision_sent ==> final(self).revision_sent"),
       # a complete, acceptable ZMTP/2.0 greeting header is answered in the same call: the engine leaves the Greeting phase
       ("C05:v2_greeting_answered_when_complete",
        "old(self).network_read_accumulator@.len() >= 12 && old(self).network_read_accumulator@[0] == 0xFF && old(self).network_read_accumulator@[9] == 0x7F "
        "&& old(self).network_read_accumulator@[10] == 1 && old(self).version is None ==> final(self).phase != ZmtpPhase::Greeting"),
       ("C05:v3_committed_on_peer_revision",
        "old(self).network_read_accumulator@.len() >= 11 && old(self).network_read_accumulator@[0] == 0xFF && old(self).network_read_accumulator@[9] == 0x7F "
        "&& old(self).network_read_accumulator@[10] >= 3 && old(self).version is None ==> final(self).version == Some(ZmtpVersion::V3)"),
     ]),
     extra=[
       ("R6", "&self.network_read_accumulator[..SIGNATURE_LENGTH]", "self.network_read_accumulator.verif_prefix(SIGNATURE_LENGTH)", 1),
       ("R6", "local_mechanism_name_bytes(&self.config)", "local_mechanism_name_bytes(&*self.config)", 1),
       ("R8", "socket_type_name_from_code(peer_stype_byte).map(String::from)", "verif_stype_name_owned(peer_stype_byte)", 1),
       ("R5", "crate::security::negotiate_security_mechanism(", "negotiate_security_mechanism(", 1),
       ("R6", re.compile(r"&self\.config,\s*\n(\s*)&peer_greeting,"), r"&*self.config,\n\1&peer_greeting,", 1),
       ("R6", "Bytes::from_static(&[V3_REVISION])", "Bytes::verif_from_array1([V3_REVISION])", 1),
       ("R6", "Bytes::copy_from_slice(&[local_stype])", "Bytes::verif_from_array1([local_stype])", 1),
     ],
     hints=[("bc", "@fn_start", 0, "", "broadcast use lemma_delivered_push, lemma_sends_push, lemma_n_gated_push;"),
            ("sec", "re:self\\.process_security\\(out\\);", 0, "before",
             "proof { assert(all_more(self.partial_batch@)); assert(self.version == Some(ZmtpVersion::V3)); assert(allowed_kind(*self.config, self.security_mechanism.kind())); }"),
            ("rdy", "re:if !self\\.network_read_accumulator\\.is_empty\\(\\) \\{\\s*self\\.process_ready\\(out\\);", 0, "before",
             "proof { assert(all_more(self.partial_batch@)); assert(self.version == Some(ZmtpVersion::V3)); assert(self.inv()); }"),
            ("v2", "re:self\\.process_v2_identity\\(out\\);", 0, "before",
             "proof { assert(all_more(self.partial_batch@)); }")]),
  Fn(EN, "on_network_bytes", impl=IMPL, emit_impl="impl ZmtpEngine", safety_props=["C02", "C04", "C06", "C07"],
     requires=["old(self).inv()"],
     ensures=[
       ("C02+C04+C05+C06:inv_preserved", "final(self).inv()"),
       ("C06:config_frame", "final(self).config == old(self).config"),
       # the public entry point: whatever bytes the peer sends, in any phase and however they are cut
       ("C06:handshake_complete_and_deliveries_only_when_authenticated", "n_gated(r.app_actions@) > 0 ==> final(self).auth_ok()"),
       ("C02:only_complete_messages_delivered", "deliveries_complete(r.app_actions@)"),
       ("C04:leftover_bytes_drained_in_same_call", "final(self).drained()"),
       ("C04:the_accumulator_stream_is_the_old_one_followed_by_exactly_the_new_bytes", "old(self).phase != ZmtpPhase::Closed ==> final(self).network_read_accumulator.stream() == old(self).network_read_accumulator.stream() + data@"),
       ("C07:closed_stays_closed", "old(self).phase == ZmtpPhase::Closed ==> final(self).phase == ZmtpPhase::Closed && r.app_actions@.len() == 0 && r.net_actions@.len() == 0"),
     ],
     extra=[("R6", "self.network_read_accumulator.extend_from_slice(&data)", "self.network_read_accumulator.extend_from_slice(data.as_slice())", 1)],
     hints=[("bc", "@fn_start", 0, "", "broadcast use lemma_delivered_push, lemma_sends_push, lemma_n_gated_push;"),
            ("m", "re:match self\\.phase \\{", 0, "before", "proof { assert(n_gated(out.app_actions@) == 0); assert(deliveries_complete(out.app_actions@)); }")]),
  Fn(EN, "on_app_message", impl=IMPL, emit_impl="impl ZmtpEngine",
     ensures=[
       ("C06:nothing_sent_before_data_phase", "old(self).phase != ZmtpPhase::Data ==> r.net_actions@.len() == 0 && r.app_actions@.len() == 0"),
       ("C06:never_reports_completion", "n_gated(r.app_actions@) == 0"),
       ("C06:frame", "final(self).phase == old(self).phase && final(self).version == old(self).version && final(self).config == old(self).config "
                     "&& final(self).framer.origin_kind() == old(self).framer.origin_kind() && final(self).framer.origin_complete() == old(self).framer.origin_complete() && final(self).framer.origin_role_server() == old(self).framer.origin_role_server() "
                     "&& final(self).partial_batch == old(self).partial_batch && final(self).pending_framer == old(self).pending_framer && final(self).security_mechanism == old(self).security_mechanism"),
     ],
     hints=[("bc", "@fn_start", 0, "", "broadcast use lemma_delivered_push, lemma_sends_push, lemma_n_gated_push;")]),
  # called by the session after every completed egress write: outbound traffic refreshes the idle clock and NOTHING else -- in particular
  # the PONG deadline keeps running from the PING's own time stamp ("closed if no PONG arrives within HEARTBEAT_TIMEOUT of that PING")
  Fn(EN, "record_activity", impl=IMPL, emit_impl="impl ZmtpEngine", safety_props=["C19"], ret=None,
     ensures=[("C19:outbound_activity_never_moves_the_pong_deadline",
               "final(self).last_ping_sent_time == old(self).last_ping_sent_time && final(self).waiting_for_pong == old(self).waiting_for_pong && final(self).config == old(self).config"),
              ("C06+C19:frame", "final(self).phase == old(self).phase && final(self).version == old(self).version && final(self).framer == old(self).framer && final(self).network_read_accumulator == old(self).network_read_accumulator "
                            "&& final(self).partial_batch == old(self).partial_batch && final(self).pending_framer == old(self).pending_framer && final(self).security_mechanism == old(self).security_mechanism")]),
  Fn(EN, "on_tick", impl=IMPL, emit_impl="impl ZmtpEngine", safety_props=["C07", "C19"],
     ensures=[
       ("C19:no_heartbeat_outside_data_or_on_v2",
        "old(self).phase != ZmtpPhase::Data || old(self).version == Some(ZmtpVersion::V2) ==> r.net_actions@.len() == 0 && r.app_actions@.len() == 0 && final(self).phase == old(self).phase && final(self).waiting_for_pong == old(self).waiting_for_pong"),
       # closed by the heartbeat logic only when a PING is outstanding for at least HEARTBEAT_TIMEOUT
       ("C19:timeout_only_after_unanswered_ping",
        "final(self).phase != old(self).phase ==> final(self).phase == ZmtpPhase::Closed && old(self).waiting_for_pong && old(self).config.heartbeat_timeout is Some "
        "&& old(self).last_ping_sent_time is Some && elapsed(now, old(self).last_ping_sent_time->0) >= old(self).config.heartbeat_timeout->0.ns()"),
       # a PING goes out no sooner than HEARTBEAT_IVL after the last activity and never while one is outstanding
       ("C19:ping_no_sooner_than_ivl",
        "sends(r.net_actions@).len() > 0 ==> !old(self).waiting_for_pong && old(self).config.heartbeat_ivl is Some && elapsed(now, old(self).last_activity_time) >= old(self).config.heartbeat_ivl->0.ns() "
        "&& final(self).waiting_for_pong && final(self).last_ping_sent_time == Some(now)"),
       # ... and no later than the first tick at which the interval has elapsed (the actor ticks every IVL => at most 2 x IVL)
       ("C19:ping_due_is_sent",
        "old(self).phase == ZmtpPhase::Data && old(self).version != Some(ZmtpVersion::V2) && final(self).phase == ZmtpPhase::Data && !old(self).waiting_for_pong && old(self).config.heartbeat_ivl is Some "
        "&& elapsed(now, old(self).last_activity_time) >= old(self).config.heartbeat_ivl->0.ns() ==> sends(r.net_actions@).len() == 1"),
       ("C19:ping_wire_format", "sends(r.net_actions@).len() > 0 ==> sends(r.net_actions@).len() == 1 && exists|ttl: u16| sends(r.net_actions@)[0] == enc_frame(false, true, PING_TAG() + to_be16(ttl as nat))"),
       ("C06:never_reports_completion", "n_gated(r.app_actions@) == 0"),
       ("C06:frame", "final(self).version == old(self).version && final(self).config == old(self).config && final(self).framer == old(self).framer && final(self).partial_batch == old(self).partial_batch "
                     "&& final(self).pending_framer == old(self).pending_framer && final(self).security_mechanism == old(self).security_mechanism && final(self).last_activity_time == old(self).last_activity_time"),
     ],
     extra=[("R8", re.compile(r"self\s*\.config\s*\.heartbeat_timeout\s*\.map\(\|d\| d\.as_millis\(\)\.min\(u16::MAX as u128\) as u16\)\s*\.unwrap_or\(0\)", re.S), "verif_ttl_ms(&self.config)", 1),
            ("R6", "ZmtpCommand::create_ping(ttl_ms, &[])", "ZmtpCommand::create_ping(ttl_ms, verif_empty_slice())", 1)],
     hints=[("bc", "@fn_start", 0, "", "broadcast use lemma_delivered_push, lemma_sends_push, lemma_n_gated_push;"),
            ("ping", "re:self\\.waiting_for_pong = true;", 0, "before",
             "proof { assert(PING_TAG() + to_be16(ttl_ms as nat) + Seq::<u8>::empty() =~= PING_TAG() + to_be16(ttl_ms as nat)); }")]),
]

FNS = {p.name: p for p in parts if isinstance(p, Fn)}
unit = Unit("engine", ["C02", "C03", "C04", "C05", "C06", "C07", "C19"], parts, safety_props=["C02", "C07"], notes="ZmtpEngine state machine")
