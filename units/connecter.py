"""U-connecter: TcpConnecter::wait_for_retry_delay_internal (transport/tcp.rs): the sleep between two attempts of an outbound
connection that is being retried.  It listens on the CONTEXT-WIDE event bus while it sleeps.

Contract from the property text (C17): "a socket is never shut down by what some other socket or peer did" / "an outbound connection
that fails or is lost is retried": the connecter gives up (Ok(false)) only for the termination of its context, the closing of ITS OWN
parent socket, or a failed event bus -- never for an event that concerns another socket; in every other case the retry goes on (Ok(true)).
The select! is desugared by R12 (either arm may complete).  The zero-delay branch is outside the contract's scope: the option
parser cannot produce a zero RECONNECT_IVL (proved in unit backoff: 0 and -1 map to None, positive values to >= 1 ms).
"""
import re
from vlib.vx import Fn, Item, Raw, Region, Scan
from vlib.runner import Unit

TCP = "core/src/transport/tcp.rs"

GLUE = """
// runtime SystemEvent: only the two variants this function names; every other variant (connection events of any socket, ...) is `Other`
pub enum SystemEvent { ContextTerminating, SocketClosing { socket_id: usize }, Other { x: u8 } }
pub struct RecvError { pub x: u8 }
// tokio::sync::broadcast::Receiver<SystemEvent>: ghost log of what this call received (None = the bus failed: closed or lagged)
pub struct Receiver { pub seen: Ghost<Seq<Option<SystemEvent>>> }
impl Receiver {
  #[verifier::external_body]
  pub fn try_recv(&mut self) -> (r: Result<SystemEvent, RecvError>)
    ensures r matches Ok(e) ==> final(self).seen@ == old(self).seen@.push(Some(e)), r is Err ==> final(self).seen@ == old(self).seen@
  { unimplemented!() }
  #[verifier::external_body]
  pub async fn recv(&mut self) -> (r: Result<SystemEvent, RecvError>)
    ensures r matches Ok(e) ==> final(self).seen@ == old(self).seen@.push(Some(e)), r is Err ==> final(self).seen@ == old(self).seen@.push(None)
  { unimplemented!() }
}
pub enum SocketEvent { ConnectRetried { endpoint: String, interval: Duration } }
#[verifier::external_body]
pub struct MonitorSender { x: u8 }
impl MonitorSender { #[verifier::external_body] pub fn try_send(&self, e: SocketEvent) -> Result<(), u8> { unimplemented!() } }
// R8: tokio::time::sleep(delay)
#[verifier::external_body]
pub async fn verif_sleep(d: Duration) -> (r: ()) { unimplemented!() }
pub struct TcpConnecter { pub handle: usize, pub endpoint: String, pub parent_socket_id: usize }
// the events that concern THIS connecter's own life
pub open spec fn own_shutdown(e: Option<SystemEvent>, parent: usize) -> bool {
  match e { None => true, Some(SystemEvent::ContextTerminating) => true, Some(SystemEvent::SocketClosing { socket_id }) => socket_id == parent, _ => false }
}
"""

parts = [
  Raw("prelude/core.rs"),
  Raw("prelude/std.rs"),
  Raw("prelude/time.rs"),
  Raw(text=GLUE, label="connecter-glue"),
  Fn(TCP, "wait_for_retry_delay_internal", impl=r"impl\s+TcpConnecter\b", emit_impl="impl TcpConnecter",
     sig_sub=[("broadcast::Receiver<SystemEvent>", "Receiver")],
     requires=["delay.ns() > 0"],
     ensures=[
       ("C17:retrying_stops_only_for_the_connecters_own_shutdown_never_for_another_sockets_event",
        "r matches Ok(false) ==> final(system_event_rx).seen@.len() == old(system_event_rx).seen@.len() + 1 && own_shutdown(final(system_event_rx).seen@.last(), self.parent_socket_id)"),
       ("C17:an_event_of_another_socket_lets_the_retry_go_on",
        "final(system_event_rx).seen@.len() == old(system_event_rx).seen@.len() + 1 && !own_shutdown(final(system_event_rx).seen@.last(), self.parent_socket_id) ==> r matches Ok(true)"),
       ("C17:never_an_error", "r is Ok"),
     ],
     extra=[("R8", "tokio::time::sleep(delay)", "verif_sleep(delay)", 1)]),
]

FNS = {p.name: p for p in parts if isinstance(p, Fn)}
unit = Unit("connecter", ["C17"], parts, safety_props=["C17"], notes="TCP connecter: retry sleep on the context-wide event bus")
