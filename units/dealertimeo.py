"""U-dealertimeo: DealerSocket::queue_message_or_error (socket/dealer_socket.rs), whole: the loop in which a DEALER send waits for room
in the pending queue -- SNDTIMEO semantics at the high-water mark (C14), `select!` of the untimed branch via R12.

Contract from the property text (C14): with the queue at SNDHWM, SNDTIMEO = 0 fails at once with would-block (no timer, no wait); a
positive SNDTIMEO answers timeout no earlier than the interval and NOT UNBOUNDEDLY LATER: every timer the call arms expires at the one
deadline fixed from its first look at the clock (first reading + SNDTIMEO), however often it is woken and goes round the loop;
SNDTIMEO = -1 arms no timer and never answers timeout or would-block.  A message is queued only below SNDHWM and at the back (C01).

Lock model with interference (as in unit dealerproc): every acquisition of the queue lock finds an ARBITRARY queue (senders and the
processor ran meanwhile).  The clock is the ghost stand-in of prelude/clock.rs (time passes arbitrarily between statements).
"""
import re
from vlib.vx import Fn, Item, Raw, Region, Scan, ScopeEnd
from vlib.runner import Unit

DS = "core/src/socket/dealer_socket.rs"
IMPL = r"impl\s+DealerSocket\b"

GLUE = """
use std::collections::VecDeque;
#[verifier::external_body]
pub struct CoreRef { x: u8 }
impl CoreRef { #[verifier::external_body] pub fn is_running(&self) -> bool { unimplemented!() } }
pub struct Notifier { pub x: u8 }
impl Notifier { #[verifier::external_body] pub fn notify_one(&self) { unimplemented!() } }
pub struct DealerSocket {
  pub core: CoreRef,
  pub pending_outgoing_queue: VecDeque<FrameBatch>,     // R6t: Arc<TokioMutex<VecDeque<FrameBatch>>>
  pub outgoing_queue_activity_notifier: Notifier, pub peer_availability_notifier: Notifier,
  pub clock: Clock,
  pub waits: Ghost<nat>,            // ghost: number of untimed waits on the notifiers
  pub found_full: Ghost<nat>,       // ghost: number of times the queue lock was taken and the queue found at or above the high-water mark
}
impl DealerSocket {
  // R6t + interference: `self.pending_outgoing_queue.lock().await` -- whatever the other tasks left in the queue
  #[verifier::external_body]
  pub async fn verif_queue_lock(&mut self) -> (r: ())
    ensures final(self).clock == old(self).clock, final(self).waits == old(self).waits, final(self).found_full == old(self).found_full,
  { unimplemented!() }
  // R8: `self.<notifier>.notified()` awaited in a select! arm: an untimed wait
  #[verifier::external_body]
  pub async fn verif_wait_notified(&mut self) -> (r: ())
    ensures final(self).clock.reads == old(self).clock.reads, final(self).clock.timers == old(self).clock.timers, final(self).clock.now@ >= old(self).clock.now@,
      final(self).waits@ == old(self).waits@ + 1, final(self).pending_outgoing_queue == old(self).pending_outgoing_queue, final(self).found_full == old(self).found_full,
  { unimplemented!() }
}
pub open spec fn views(q: Seq<FrameBatch>) -> Seq<Seq<Msg>> { q.map_values(|b: FrameBatch| b@) }
"""

ATTRS = ["#[verifier::loop_isolation(false)]", "#[verifier::exec_allows_no_decreases_clause]"]
INVALID = ("R2", re.compile(r'ZmqError::InvalidState\(\s*"([^"]*)"\.into\(\)\s*,?\s*\)', re.S), r'ZmqError::InvalidState("\1")', "*", "pre")

# invariants over the ghost clock only (r0 = clock readings at loop entry)
INV = [
  ("C14:clock_read_at_most_once_before_the_loop", "self.clock.reads@ == r0 && r0.len() >= old(self).clock.reads@.len() && r0.subrange(0, old(self).clock.reads@.len() as int) =~= old(self).clock.reads@"),
  ("C14:timers_prefix", "self.clock.timers@.len() >= old(self).clock.timers@.len() && self.clock.timers@.subrange(0, old(self).clock.timers@.len() as int) =~= old(self).clock.timers@"),
  ("C14:no_timer_without_positive_sndtimeo", "!(global_sndtimeo matches Some(d) && d.ns() > 0) ==> self.clock.timers@.len() == old(self).clock.timers@.len()"),
  ("C14:timers_so_far_expire_at_the_one_deadline", "global_sndtimeo matches Some(d) ==> forall|i: int| old(self).clock.timers@.len() <= i < self.clock.timers@.len() ==> "
                                                   "r0.len() > old(self).clock.reads@.len() && #[trigger] self.clock.timers@[i] == r0[old(self).clock.reads@.len() as int] + d.ns()"),
  ("C14:no_wait_unless_infinite", "!(global_sndtimeo is None) ==> self.waits@ == old(self).waits@"),
  ("C14:now_monotone", "self.clock.now@ >= old(self).clock.now@"),
]

parts = [
  Raw("prelude/core.rs"),
  Raw("prelude/std.rs"),
  Raw("prelude/bytes.rs"),
  Raw("prelude/msg.rs"),
  Raw("prelude/framebatch.rs"),
  Raw("prelude/time.rs"),
  Raw("prelude/clock.rs"),
  Raw(text=GLUE, label="dealertimeo-glue"),
  Fn(DS, "queue_message_or_error", impl=IMPL, emit_impl="impl DealerSocket", sig_sub=[("&self", "&mut self")], attrs=ATTRS,
     requires=["global_sndtimeo matches Some(d) ==> d.ns() <= 2_147_483_647nat * 1_000_000"],   # what parse_timeout_option can produce (i32 milliseconds)
     ensures=[
       ("C01+C14:queued_only_below_the_high_water_mark_and_at_the_back",
        "r is Ok ==> final(self).pending_outgoing_queue@.len() > 0 && final(self).pending_outgoing_queue@.len() <= global_sndhwm && final(self).pending_outgoing_queue@.last()@ == full_message_parts@"),
       ("C14:zero_sndtimeo_never_waits_and_answers_would_block",
        "global_sndtimeo matches Some(d) && d.ns() == 0 ==> final(self).waits@ == old(self).waits@ && final(self).clock.timers@ =~= old(self).clock.timers@ && !(r matches Err(ZmqError::Timeout))"),
       ("C14:would_block_only_for_zero_sndtimeo", "r matches Err(ZmqError::ResourceLimitReached) ==> (global_sndtimeo matches Some(d) && d.ns() == 0)"),
       ("C14:timeout_only_for_positive_sndtimeo_and_not_before_the_deadline",
        "r matches Err(ZmqError::Timeout) ==> (global_sndtimeo matches Some(d) && d.ns() > 0 && final(self).clock.now@ >= old(self).clock.now@ + d.ns())"),
       ("C14:every_timer_armed_expires_at_the_one_deadline_first_clock_reading_plus_sndtimeo",
        "global_sndtimeo matches Some(d) ==> forall|i: int| old(self).clock.timers@.len() <= i < final(self).clock.timers@.len() ==> "
        "final(self).clock.reads@.len() > old(self).clock.reads@.len() && #[trigger] final(self).clock.timers@[i] == final(self).clock.reads@[old(self).clock.reads@.len() as int] + d.ns()"),
       ("C14:infinite_sndtimeo_arms_no_timer_and_never_times_out",
        "global_sndtimeo is None ==> final(self).clock.timers@ =~= old(self).clock.timers@ && !(r matches Err(ZmqError::Timeout)) && !(r matches Err(ZmqError::ResourceLimitReached))"),
     ],
     loops={0: {"invariant": INV}},
     hints=[("snap", "@loop_before:0", 0, "", "let ghost r0 = self.clock.reads@;")],
     extra=[INVALID,
            ("R6t", re.compile(r"let (mut )?queue_guard = self\.pending_outgoing_queue\.lock\(\)\.await;"), "self.verif_queue_lock().await;", 1),
            ("R6t", re.compile(r"\bqueue_guard\."), "self.pending_outgoing_queue.", "*"),
            # the deadline, if the function computes one: `Instant::now() + d` (tokio's Instant or std's)
            ("R8", re.compile(r"(?:tokio::time::|std::time::)?Instant::now\(\) \+ (\w+)"), r"verif_instant_add(self.clock.verif_now(), \1)", "*"),
            # the timed wait on the queue-activity signal: relative (timeout) or absolute (timeout_at)
            ("R8", re.compile(r"let queue_wait_fut = self\.outgoing_queue_activity_notifier\.notified\(\);\s*\n"), "", "*"),
            ("R8", re.compile(r"(?:tokio::time::timeout|tokio_timeout)\((\w+), (?:queue_wait_fut|self\.outgoing_queue_activity_notifier\.notified\(\))\)\.await"), r"self.clock.verif_timeout(\1).await", "*"),
            ("R8", re.compile(r"(?:tokio::time::timeout_at|tokio_timeout_at)\((\w+), (?:queue_wait_fut|self\.outgoing_queue_activity_notifier\.notified\(\))\)\.await"), r"self.clock.verif_timeout_at(\1).await", "*"),
            ("R8", "futures::future::pending().await", "verif_pending().await", "*"),
            ("R8", re.compile(r"\(self\.(?:outgoing_queue_activity_notifier|peer_availability_notifier)\.notified\(\)\)\.await"), "self.verif_wait_notified().await", "*")]),
]

FNS = {p.name: p for p in parts if isinstance(p, Fn)}
unit = Unit("dealertimeo", ["C01", "C14"], parts, safety_props=["C14"], notes="DEALER: SNDTIMEO semantics of the wait for room in the pending queue")
