"""U-hsout: what the session actor does with the engine's application-level output DURING the handshake phase
(sessionx/actor.rs apply_engine_output_handshake, second loop, extracted as a region R7).

Contract from the property text (C04): "data frames that arrive in the same read as the peer's last handshake bytes are delivered, not
silently dropped": every DeliverMessage the engine emitted (unit engine proves it emits them in the same output as HandshakeComplete
when the bytes came in one read) is appended, in order, to the session's ingress FIFO that the operational loop hands to the socket;
deliveries stop only at a PeerError (the connection is being torn down).
"""
import re
from vlib.vx import Fn, Item, Raw, Region, Scan
from vlib.runner import Unit

ACT = "core/src/protocol/zmtp/actions.rs"
ACTOR = "core/src/sessionx/actor.rs"
TYPES = "core/src/sessionx/types.rs"

GLUE = """
use std::collections::VecDeque;
#[verifier::external_body]
pub struct Blob { b: Vec<u8> }
#[verifier::external_body]
pub struct Instant { x: u8 }
// ---- operational loop (run_loop, ingress-read arm)
// EgressBuffer (proved in unit egress): here only the ghost order of what was queued with priority
pub struct EgressBuffer { pub prio: Ghost<Seq<Seq<u8>>> }
impl EgressBuffer {
  #[verifier::external_body]
  pub fn push_priority(&mut self, data: Bytes) ensures final(self).prio@ == old(self).prio@.push(data@) { unimplemented!() }
}
// The socket's write half.  In the operational loop the byte stream belongs to the EgressBuffer/EgressDriver pair (a chunk may be
// partially written at any time): a direct write would land inside another frame.  The stand-in states that frame condition
// as a contract: no direct write is permitted there.
pub struct IoErr { pub x: u8 }
impl ZmqError { #[verifier::external_body] pub fn from_io_endpoint(e: IoErr, what: &str) -> ZmqError { unimplemented!() } }
pub struct DirectWriter { pub x: u8 }
impl DirectWriter {
  #[verifier::external_body]
  pub async fn write_all(&mut self, data: &Bytes) -> (r: Result<(), IoErr>)
    requires false     // every byte of the operational phase goes through the egress buffer (C01/C19: never inside another frame)
  { unimplemented!() }
}
#[verifier::external_body]
pub struct CorkInfo { x: u8 }
impl CorkInfo { #[verifier::external_body] pub async fn apply_cork_state(&mut self, enable: bool, handle: usize) -> (r: ()) { unimplemented!() } }
#[verifier::external_body]
pub struct Duration { x: u8 }
pub open spec fn sends(acts: Seq<NetAction>, k: int) -> Seq<Seq<u8>>
  decreases k
{
  if k <= 0 { Seq::<Seq<u8>>::empty() } else {
    match acts[k - 1] { NetAction::Send { data, .. } => sends(acts, k - 1).push(data@), _ => sends(acts, k - 1) }
  }
}
pub struct Actor {
  pub handle: usize,
  pub cork_info: Option<CorkInfo>,
  pub pending_peer_identity_from_handshake: Option<Blob>,
  pub pending_peer_socket_type: Option<String>,
  pub current_phase: ConnectionPhaseX,
  pub handshake_deadline: Option<Instant>,
  pub fatal: Ghost<bool>,
}
impl Actor {
  #[verifier::external_body]
  pub async fn set_fatal_error(&mut self, e: ZmqError) -> (r: ()) ensures final(self).fatal@ { unimplemented!() }
  #[verifier::external_body]
  pub async fn transition_to_shutdown_stream(&mut self, e: Option<ZmqError>) -> (r: ()) { unimplemented!() }
  #[verifier::external_body]
  pub async fn check_and_transition_to_operational(&mut self) -> (r: ()) ensures final(self).fatal == old(self).fatal { unimplemented!() }
}
// the deliveries among the first k actions, in order
pub open spec fn deliveries(acts: Seq<AppAction>, k: int) -> Seq<Seq<Msg>>
  decreases k
{
  if k <= 0 { Seq::<Seq<Msg>>::empty() } else {
    match acts[k - 1] { AppAction::DeliverMessage(b) => deliveries(acts, k - 1).push(b@), _ => deliveries(acts, k - 1) }
  }
}
pub open spec fn no_error_before(acts: Seq<AppAction>, k: int) -> bool { forall|i: int| 0 <= i < k ==> !(#[trigger] acts[i] is PeerError) }
pub open spec fn views(q: Seq<FrameBatch>) -> Seq<Seq<Msg>> { q.map_values(|b: FrameBatch| b@) }
"""

parts = [
  Raw("prelude/core.rs"),
  Raw("prelude/std.rs"),
  Raw("prelude/bytes.rs"),
  Raw("prelude/msg.rs"),
  Raw("prelude/framebatch.rs"),
  Item(TYPES, "enum", "ConnectionPhaseX"),
  Raw(text="#[verifier::external_body]\npub struct BlobFwd { x: u8 }\n", label="hsout-pre"),
  Raw(text=GLUE.split("pub struct Actor")[0], label="hsout-glue-a"),
  Item(ACT, "enum", "AppAction", keep_derive=()),
  Item(ACT, "enum", "NetAction", keep_derive=()),
  Raw(text="pub struct Actor" + GLUE.split("pub struct Actor")[1], label="hsout-glue-b"),
  Region(ACTOR, "hs_app_actions", "apply_engine_output_handshake", r"for action in output\.app_actions \{", "@fn_end",
         sig="async fn hs_app_actions(&mut self, app_actions: Vec<AppAction>, ingress_buffer: &mut VecDeque<FrameBatch>)",
         impl=r"impl(?:<[^>]*>)?\s+SessionConnectionActorX\b", emit_impl="impl Actor", ret=None,
         attrs=["#[verifier::loop_isolation(false)]"],
         ensures=[
           ("C04:deliveries_made_during_the_handshake_reach_the_ingress_queue_in_order",
            "no_error_before(app_actions@, app_actions@.len() as int) ==> views(final(ingress_buffer)@) =~= views(old(ingress_buffer)@) + deliveries(app_actions@, app_actions@.len() as int)"),
           ("C04:nothing_already_queued_is_lost", "views(final(ingress_buffer)@).len() >= views(old(ingress_buffer)@).len() && views(final(ingress_buffer)@).subrange(0, views(old(ingress_buffer)@).len() as int) =~= views(old(ingress_buffer)@)"),
         ],
         loops={0: {"desugar_owned": True, "invariant": [
           ("C04:loop", "no_error_before(app_actions@, vx_i0 as int) && views(ingress_buffer@) =~= views(old(ingress_buffer)@) + deliveries(app_actions@, vx_i0 as int)"),
         ]}},
         hints=[("snap", "re:match action \\{", 0, "before", "let ghost vx_act = action; let ghost vx_q0 = ingress_buffer@;"),
                ("step", "@loop_end:0", 0, "",
                 "proof { let k = vx_i0 as int; assert(vx_o0[k - 1] == vx_act); "
                 "match vx_act { AppAction::DeliverMessage(b) => { if ingress_buffer@ =~= vx_q0.push(b) { assert(views(ingress_buffer@) =~= views(vx_q0).push(b@)); } }, _ => { } } }")],
         extra=[("R7", "output.app_actions", "app_actions", 1)]),
  # ---- the operational loop's handling of the same engine output (run_loop, ingress-read arm of its select!)
  Region(ACTOR, "op_net_actions", "run_loop", r"for action in engine_out\.net_actions \{", r"for action in engine_out\.app_actions \{",
         sig="async fn op_net_actions(&mut self, net_actions: Vec<NetAction>, egress_buffer: &mut EgressBuffer, write_half: &mut DirectWriter)",
         impl=r"impl(?:<[^>]*>)?\s+SessionConnectionActorX\b", emit_impl="impl Actor", ret=None, attrs=["#[verifier::loop_isolation(false)]"],
         ensures=[("C01+C19:protocol_replies_are_queued_through_the_egress_buffer_in_order_never_written_directly",
                   "final(egress_buffer).prio@ =~= old(egress_buffer).prio@ + sends(net_actions@, net_actions@.len() as int)")],
         loops={0: {"desugar_owned": True, "invariant": [("C01+C19:loop", "egress_buffer.prio@ =~= old(egress_buffer).prio@ + sends(net_actions@, vx_i0 as int)")]}},
         hints=[("snap", "re:match action \\{", 0, "before", "let ghost vx_act = action;"),
                ("step", "@loop_end:0", 0, "", "proof { let k = vx_i0 as int; assert(vx_o0[k - 1] == vx_act); }")],
         extra=[("R7", "engine_out.net_actions", "net_actions", 1), ("R4", '#[cfg(target_os = "linux")]', "", "*")]),
  Region(ACTOR, "op_app_actions", "run_loop", r"for action in engine_out\.app_actions \{", r"\}\s*\n\s*Err\(ZmqError::ConnectionClosed\) => \{",
         sig="async fn op_app_actions(&mut self, app_actions: Vec<AppAction>, ingress_buffer: &mut VecDeque<FrameBatch>)",
         impl=r"impl(?:<[^>]*>)?\s+SessionConnectionActorX\b", emit_impl="impl Actor", ret=None, attrs=["#[verifier::loop_isolation(false)]"],
         ensures=[("C01+C04:every_decoded_message_reaches_the_ingress_queue_in_order",
                   "views(final(ingress_buffer)@) =~= views(old(ingress_buffer)@) + deliveries(app_actions@, app_actions@.len() as int)")],
         loops={0: {"desugar_owned": True, "invariant": [("C04:loop", "views(ingress_buffer@) =~= views(old(ingress_buffer)@) + deliveries(app_actions@, vx_i0 as int)")]}},
         hints=[("snap", "re:match action \\{", 0, "before", "let ghost vx_act = action; let ghost vx_q0 = ingress_buffer@;"),
                ("step", "@loop_end:0", 0, "",
                 "proof { let k = vx_i0 as int; assert(vx_o0[k - 1] == vx_act); "
                 "match vx_act { AppAction::DeliverMessage(b) => { if ingress_buffer@ =~= vx_q0.push(b) { assert(views(ingress_buffer@) =~= views(vx_q0).push(b@)); } }, _ => { } } }")],
         extra=[("R7", "engine_out.app_actions", "app_actions", 1)]),
]

FNS = {p.name: p for p in parts if isinstance(p, Fn)}
unit = Unit("hsout", ["C04", "C01", "C19"], parts, safety_props=["C04", "C01", "C19"], notes="session actor: engine output during the handshake")
