"""U-framing: automatic envelope delimiters (socket/patterns/framing.rs) and REP's routing-prefix split
(socket/rep_socket.rs): payload frames pass unchanged in both directions, empty frames inside the payload included."""
import re
from vlib.vx import Fn, Item, Raw
from vlib.runner import Unit

FG = "core/src/socket/patterns/framing.rs"
REP = "core/src/socket/rep_socket.rs"

SPEC = """
pub open spec fn payloads(s: Seq<Msg>) -> Seq<Seq<u8>> { s.map_values(|m: Msg| payload(m)) }
pub open spec fn empty_frame(m: Msg) -> bool { payload(m).len() == 0 }
pub open spec fn first_empty(s: Seq<Msg>) -> int
  decreases s.len()
{ if s.len() == 0 { -1 } else if empty_frame(s[0]) { 0 } else { let r = first_empty(s.skip(1)); if r < 0 { -1 } else { r + 1 } } }

pub proof fn lemma_first_empty_push(s: Seq<Msg>, m: Msg)
  ensures
    first_empty(s) >= 0 ==> first_empty(s.push(m)) == first_empty(s),
    first_empty(s) < 0 && empty_frame(m) ==> first_empty(s.push(m)) == s.len(),
    first_empty(s) < 0 && !empty_frame(m) ==> first_empty(s.push(m)) < 0,
    first_empty(s) < s.len(),
  decreases s.len()
{
  if s.len() == 0 {
    assert(s.push(m).skip(1) =~= Seq::<Msg>::empty());
    assert(s.push(m)[0] == m);
    assert(first_empty(Seq::<Msg>::empty()) == -1);
    assert(first_empty(s) == -1);
  } else {
    assert(s.push(m).skip(1) =~= s.skip(1).push(m));
    assert(s.push(m)[0] == s[0]);
    lemma_first_empty_push(s.skip(1), m);
  }
}
"""

# R6: `batch[i].set_flags(f)` (IndexMut on a user type is outside Verus' subset) -- any occurrence, any index expression
SETF = [("R6", re.compile(r"(\w+)\[([^\]]+)\]\.set_flags\(([^;]*)\);"), r"\1.verif_set_flags(\2, \3);", None)]

parts = [
  Raw("prelude/core.rs"),
  Raw("prelude/std.rs"),
  Raw("prelude/bytes.rs"),
  Raw("prelude/msg.rs"),
  Raw("prelude/framebatch.rs"),
  Raw(text=SPEC, label="framing-spec", lemmas=True, props=["C11"]),
  Fn(FG, "router_auto_encode",
     requires=["old(frames)@.len() < 255"],
     ensures=[
       ("C11:empty_stays_empty", "old(frames)@.len() == 0 ==> final(frames)@ == old(frames)@"),
       ("C11:delimiter_inserted_after_identity",
        "old(frames)@.len() > 0 ==> final(frames)@.len() == old(frames)@.len() + 1 && empty_frame(final(frames)@[1]) && final(frames)@[1].flags.more == (old(frames)@.len() > 1) "
        "&& final(frames)@[0].data == old(frames)@[0].data && final(frames)@[0].flags.more"),
       ("C11:payload_frames_unchanged", "old(frames)@.len() > 0 ==> final(frames)@.skip(2) == old(frames)@.skip(1)"),
     ],
     extra=SETF,
     ),
  Fn(FG, "router_auto_decode", extra=SETF,
     ensures=[("C11:removes_only_the_delimiter_slot", "old(frames)@.len() > 1 ==> final(frames)@ == old(frames)@.remove(1)"),
              ("C11:short_message_untouched", "old(frames)@.len() <= 1 ==> final(frames)@ == old(frames)@")]),
  Fn(FG, "dealer_auto_encode", extra=SETF,
     requires=["old(frames)@.len() < 255"],
     ensures=[("C11:delimiter_prepended", "final(frames)@.len() == old(frames)@.len() + 1 && empty_frame(final(frames)@[0]) && final(frames)@[0].flags.more == (old(frames)@.len() > 0)"),
              ("C11:payload_frames_unchanged", "final(frames)@.skip(1) == old(frames)@")]),
  Fn(FG, "dealer_auto_decode", extra=SETF,
     ensures=[("C11:strips_first_frame_only", "old(frames)@.len() > 0 ==> final(frames)@ == old(frames)@.skip(1)"),
              ("C11:empty_untouched", "old(frames)@.len() == 0 ==> final(frames)@ == old(frames)@")]),
  # REP: split [routing prefix up to and including the first empty frame | payload]; without an empty frame everything is payload
  Fn(REP, "extract_routing_prefix", impl=r"impl\s+RepSocket\b",
     requires=["raw_batch@.len() <= 255"],
     ensures=[
       ("C10+C11:nothing_lost_or_reordered", "r.0@ + r.1@ == raw_batch@"),
       ("C10+C11:prefix_ends_at_first_empty_frame", "first_empty(raw_batch@) >= 0 ==> r.0@.len() == first_empty(raw_batch@) + 1"),
       ("C10+C11:no_delimiter_means_all_payload", "first_empty(raw_batch@) < 0 ==> r.0@.len() == 0"),
     ],
     loops={0: {"ghost_iter": "it", "iter_sub": ("raw_batch", "raw_batch.verif_into_vec()"),
                "invariant": [
                  "routing_prefix@ + payload_frames@ == raw_batch@.take(it.index@)", "it.index@ <= raw_batch@.len()", "raw_batch@.len() <= 255",
                  "!delimiter_found ==> payload_frames@.len() == 0 && first_empty(raw_batch@.take(it.index@)) < 0",
                  "delimiter_found ==> first_empty(raw_batch@.take(it.index@)) >= 0 && routing_prefix@.len() == first_empty(raw_batch@.take(it.index@)) + 1",
                ]}},
     hints=[("top", "@loop_start:0", 0, "",
             "proof { assert(raw_batch@.take(it.index@ + 1) =~= raw_batch@.take(it.index@).push(raw_batch@[it.index@])); lemma_first_empty_push(raw_batch@.take(it.index@), raw_batch@[it.index@]); }"),
            ("end", "@loop_end:0", 0, "", "proof { assert(routing_prefix@ + payload_frames@ =~= raw_batch@.take(it.index@ + 1)); }"),
            ("fin", "re:if !delimiter_found \\{", 0, "before", "proof { assert(raw_batch@.take(raw_batch@.len() as int) =~= raw_batch@); }"),
            ("fin2", "re:\\(routing_prefix, payload_frames\\)\\s*\\n", 0, "before", "proof { assert(routing_prefix@ + payload_frames@ =~= raw_batch@); }")]),
]

FNS = {p.name: p for p in parts if isinstance(p, Fn)}
unit = Unit("framing", ["C11"], parts, safety_props=["C11"], notes="auto delimiter framing")
