"""U-routerrecv: RouterSocket::recv_logical_finalized (socket/router_socket.rs), the receive loop behind ROUTER recv()/recv_multipart():
a loop around tokio::select! (rewrite R12: any enabled arm may complete) that races the ingress queue against the
identity-finalized signal and the RCVTIMEO deadline.

Contracts from the property texts:
  C11  a batch is handed to the application only from a pipe whose identity is finalized (so it is never labelled with a
       placeholder for a peer that announced an identity); batches of unfinalized pipes are held, not dropped;
  C14  RCVTIMEO = 0 never waits; timeout is answered only for a positive RCVTIMEO and not before the deadline; EVERY timer the
       call arms expires at the one deadline fixed from its first look at the clock (first read + RCVTIMEO), however often the
       loop goes round ("not unboundedly later"); RCVTIMEO = -1 never answers timeout or would-block;
  C08-style: the finalize signal is subscribed to BEFORE the last check for releasable held data (no lost wake-up window).

The clock is a ghost stand-in (R8: tokio::time::Instant::now / sleep_until / sleep -> methods of `self.clock`): it logs every
reading and every timer armed (with the latest instant at which that timer can fire); time passes arbitrarily between statements.
"""
import re
from vlib.vx import Fn, Item, Raw, Scan
from vlib.runner import Unit

RS = "core/src/socket/router_socket.rs"
IMPL = r"impl\s+RouterSocket\b"

GLUE = """
pub struct Elapsed { pub x: u8 }
// ---- identity gate: pipe_finalized (DashMap) + held_ingress (mutex-protected map of per-pipe FIFOs) + held_count, abstract.
// finalized() only ever grows (finalize_pipe inserts, nothing removes while the pipe is attached); epoch() counts finalize events.
#[verifier::external_body]
pub struct Gate { x: u8 }
impl Gate {
  pub uninterp spec fn finalized(&self, pid: usize) -> bool;
  pub uninterp spec fn held_log(&self) -> Seq<(usize, Seq<Msg>)>;   // ghost: every batch ever parked with hold_pending_batch, in order (append-only)
}
pub struct Notified { pub since: Ghost<nat>, pub enabled: Ghost<bool> }
#[verifier::external_body]
pub struct Notify { x: u8 }
pub struct Ingress { pub q: Ghost<Seq<(usize, Seq<Msg>)>>, pub waits: Ghost<nat> }   // AddressedIngressEngine: batches it will hand out, in order; number of waits on it
impl Ingress {
  #[verifier::external_body]
  pub async fn recv_logical_message(&mut self, t: Option<Duration>) -> (r: Result<(usize, FrameBatch), ZmqError>)
    requires t matches Some(d) && d.ns() == 0        // only ever called non-blocking here; contract proved in unit anon
    ensures final(self).waits@ == old(self).waits@,
      r is Err ==> final(self).q@ == old(self).q@, r matches Err(e) ==> !(e is Timeout),
      r matches Ok(p) ==> old(self).q@.len() > 0 && p.0 == old(self).q@[0].0 && p.1@ == old(self).q@[0].1 && final(self).q@ == old(self).q@.skip(1),
  { unimplemented!() }
  #[verifier::external_body]
  pub async fn pop(&mut self) -> (r: Result<(usize, FrameBatch), ZmqError>)
    ensures final(self).waits@ == old(self).waits@ + 1,
      r is Err ==> final(self).q@ == old(self).q@, r matches Err(e) ==> !(e is Timeout) && !(e is ResourceLimitReached),
      r matches Ok(p) ==> old(self).q@.len() > 0 && p.0 == old(self).q@[0].0 && p.1@ == old(self).q@[0].1 && final(self).q@ == old(self).q@.skip(1),
  { unimplemented!() }
}
pub struct RouterSocket {
  pub ingress_engine: Ingress,
  pub gate: Gate,
  pub clock: Clock,
  pub identity_finalized_notify: Notify,
  pub epoch: Ghost<nat>,            // ghost: number of finalize events so far (other tasks bump it at any time)
  pub checked_at: Ghost<nat>,       // ghost: epoch at which take_finalized_held last answered None
}
impl RouterSocket {
  // batches this call took from the queue / parked in the gate
  pub open spec fn consumed(&self, o: &RouterSocket) -> Seq<(usize, Seq<Msg>)> { o.ingress_engine.q@.subrange(0, o.ingress_engine.q@.len() - self.ingress_engine.q@.len()) }
  pub open spec fn parked(&self, o: &RouterSocket) -> Seq<(usize, Seq<Msg>)> { self.gate.held_log().subrange(o.gate.held_log().len() as int, self.gate.held_log().len() as int) }
  #[verifier::external_body]
  pub fn take_finalized_held(&mut self) -> (r: Option<(usize, FrameBatch)>)
    ensures final(self).ingress_engine == old(self).ingress_engine, final(self).clock == old(self).clock,
      final(self).epoch@ >= old(self).epoch@, final(self).gate.held_log() == old(self).gate.held_log(),
      forall|p: usize| old(self).gate.finalized(p) ==> final(self).gate.finalized(p),
      r is None ==> final(self).checked_at@ == final(self).epoch@,
      r matches Some(x) ==> final(self).gate.finalized(x.0) && final(self).checked_at == old(self).checked_at,
  { unimplemented!() }
  #[verifier::external_body]
  pub fn hold_pending_batch(&mut self, pipe_read_id: usize, batch: FrameBatch)
    ensures final(self).ingress_engine == old(self).ingress_engine, final(self).clock == old(self).clock,
      final(self).epoch@ >= old(self).epoch@, final(self).checked_at == old(self).checked_at,
      forall|p: usize| old(self).gate.finalized(p) ==> final(self).gate.finalized(p),
      final(self).gate.held_log() == old(self).gate.held_log().push((pipe_read_id, batch@)),
  { unimplemented!() }
  // R8: self.pipe_finalized.contains_key(&pid)
  #[verifier::external_body]
  pub fn verif_is_finalized(&self, pid: &usize) -> (r: bool) ensures r ==> self.gate.finalized(*pid) { unimplemented!() }
  // R8: self.identity_finalized_notify.notified() -- a subscription to finalize events from the current epoch on
  #[verifier::external_body]
  pub fn verif_notified(&mut self) -> (n: Notified)
    ensures n.since@ == final(self).epoch@, !n.enabled@, final(self).epoch@ >= old(self).epoch@,
      final(self).ingress_engine == old(self).ingress_engine, final(self).clock == old(self).clock,
      final(self).gate == old(self).gate, final(self).checked_at == old(self).checked_at,
  { unimplemented!() }
}
impl Notified {
  // R8: notified.as_mut().enable()
  pub fn verif_enable(&mut self) ensures final(self).since == old(self).since, final(self).enabled@ { proof { self.enabled = Ghost(true); } }
}
// R8: `_ = &mut notified` arm of select!: waiting for the signal is only safe from losing a wake-up if the subscription was made (and
// enabled) no later than the check that found nothing to do
#[verifier::external_body]
pub async fn verif_wait_notified(n: &mut Notified, sock: &RouterSocket) -> (r: ())
  requires old(n).enabled@, old(n).since@ <= sock.checked_at@
{ unimplemented!() }
"""

ATTRS = ["#[verifier::loop_isolation(false)]", "#[verifier::exec_allows_no_decreases_clause]"]
R8 = [
  ("R8", "tokio::time::Instant::now() + d", "verif_instant_add(self.clock.verif_now(), d)", 1),
  ("R8", re.compile(r"tokio::time::sleep_until\((\w+)\)\.await"), r"self.clock.verif_sleep_until(\1).await", "*"),
  ("R8", re.compile(r"tokio::time::sleep\((\w+)\)\.await"), r"self.clock.verif_sleep(\1).await", "*"),
  ("R8", "std::future::pending::<()>().await", "verif_pending().await", 1),
  ("R8", "self.pipe_finalized.contains_key(&pid)", "self.verif_is_finalized(&pid)", "+"),
  ("R8", "self.identity_finalized_notify.notified()", "self.verif_notified()", 1),
  ("R8", "let notified = self.verif_notified();", "let mut notified = self.verif_notified();", 1),
  ("R8", "tokio::pin!(notified);", "", 1),
  ("R8", "notified.as_mut().enable();", "notified.verif_enable();", 1),
  ("R8", "(&mut notified).await", "verif_wait_notified(&mut notified, &*self).await", 1),
  ("R5", "use std::time::Duration;", "", 1),
  ("R5", "Some(Duration::ZERO)", "Some(Duration::verif_zero())", "+"),
]

# The invariants speak about the ghost clock / gate only (never about the function's own temporaries: a renamed local must not
# make the unit undecided).  r0/t0 = clock readings / timers at loop entry (ghost snapshot taken right before the loop).
INV = [
  ("C14:clock_not_read_again", "self.clock.reads@ == r0"),
  ("C14:deadline_fixed_from_the_first_reading", "(rcvtimeo_opt matches Some(d) && d.ns() > 0) ==> r0.len() > old(self).clock.reads@.len()"),
  ("C14:timers_len", "self.clock.timers@.len() >= old(self).clock.timers@.len()"),
  ("C14:no_timer_without_positive_rcvtimeo", "!(rcvtimeo_opt matches Some(d) && d.ns() > 0) ==> self.clock.timers@.len() == old(self).clock.timers@.len()"),
  ("C14:timers_so_far", "rcvtimeo_opt matches Some(d) ==> forall|i: int| old(self).clock.timers@.len() <= i < self.clock.timers@.len() ==> #[trigger] self.clock.timers@[i] == r0[old(self).clock.reads@.len() as int] + d.ns()"),
  ("C14:timers_prefix", "self.clock.timers@.subrange(0, old(self).clock.timers@.len() as int) =~= old(self).clock.timers@"),
  ("C14:no_wait_when_non_blocking", "(rcvtimeo_opt matches Some(d) && d.ns() == 0) ==> self.ingress_engine.waits@ == old(self).ingress_engine.waits@"),
  ("C11:every_batch_taken_from_the_queue_so_far_is_parked", "self.gate.held_log().len() >= old(self).gate.held_log().len() && self.gate.held_log().subrange(0, old(self).gate.held_log().len() as int) =~= old(self).gate.held_log() "
                                                            "&& old(self).ingress_engine.q@.len() >= self.ingress_engine.q@.len() && self.ingress_engine.q@ =~= old(self).ingress_engine.q@.skip(old(self).ingress_engine.q@.len() - self.ingress_engine.q@.len()) "
                                                            "&& self.consumed(old(self)) =~= self.parked(old(self))"),
  ("C11:finalized_monotone", "forall|p: usize| old(self).gate.finalized(p) ==> self.gate.finalized(p)"),
  ("C14:now_monotone", "self.clock.now@ >= old(self).clock.now@"),
]

parts = [
  Raw("prelude/core.rs"),
  Raw("prelude/std.rs"),
  Raw("prelude/bytes.rs"),
  Raw("prelude/msg.rs"),
  Raw("prelude/framebatch.rs"),
  Raw("prelude/time.rs"),
  Raw("prelude/clock.rs"),
  Raw(text=GLUE, label="routerrecv-glue"),
  Fn(RS, "recv_logical_finalized", impl=IMPL, emit_impl="impl RouterSocket", sig_sub=[("&self", "&mut self"), ("std::time::Duration", "Duration")], attrs=ATTRS,
     requires=["rcvtimeo_opt matches Some(d) ==> d.ns() <= 2_147_483_647nat * 1_000_000"],   # what parse_timeout_option can produce (i32 milliseconds)
     ensures=[
       ("C11:delivers_only_from_pipes_whose_identity_is_finalized", "r matches Ok(p) ==> final(self).gate.finalized(p.0)"),
       ("C11:a_batch_taken_from_the_queue_is_returned_or_parked_never_dropped",
        "old(self).ingress_engine.q@.len() >= final(self).ingress_engine.q@.len() && final(self).ingress_engine.q@ =~= old(self).ingress_engine.q@.skip(old(self).ingress_engine.q@.len() - final(self).ingress_engine.q@.len()) "
        "&& (final(self).consumed(old(self)) =~= final(self).parked(old(self)) || (r matches Ok(p) && final(self).consumed(old(self)) =~= final(self).parked(old(self)).push((p.0, p.1@))))"),
       ("C11+C14:failed_recv_loses_nothing", "r is Err ==> final(self).consumed(old(self)) =~= final(self).parked(old(self))"),
       ("C14:zero_rcvtimeo_never_waits", "rcvtimeo_opt matches Some(d) && d.ns() == 0 ==> final(self).ingress_engine.waits@ == old(self).ingress_engine.waits@ && final(self).clock.timers@ =~= old(self).clock.timers@ && !(r matches Err(ZmqError::Timeout))"),
       ("C14:timeout_only_for_positive_rcvtimeo_and_not_before_the_deadline",
        "r matches Err(ZmqError::Timeout) ==> (rcvtimeo_opt matches Some(d) && d.ns() > 0 && final(self).clock.now@ >= old(self).clock.now@ + d.ns())"),
       ("C14:every_timer_armed_expires_at_the_one_deadline_first_clock_reading_plus_rcvtimeo",
        "rcvtimeo_opt matches Some(d) ==> forall|i: int| old(self).clock.timers@.len() <= i < final(self).clock.timers@.len() ==> "
        "final(self).clock.reads@.len() > old(self).clock.reads@.len() && #[trigger] final(self).clock.timers@[i] == final(self).clock.reads@[old(self).clock.reads@.len() as int] + d.ns()"),
       ("C14:infinite_rcvtimeo_arms_no_timer_and_never_times_out", "rcvtimeo_opt is None ==> final(self).clock.timers@ =~= old(self).clock.timers@ && !(r matches Err(ZmqError::Timeout)) && !(r matches Err(ZmqError::ResourceLimitReached))"),
     ],
     loops={0: {"invariant": INV}},
     hints=[("snap", "@loop_before:0", 0, "", "let ghost r0 = self.clock.reads@;")],
     extra=R8),
]

FNS = {p.name: p for p in parts if isinstance(p, Fn)}
unit = Unit("routerrecv", ["C11", "C14"], parts, safety_props=["C14"], notes="ROUTER receive loop: identity gate + RCVTIMEO deadline (select! desugared, R12)")
