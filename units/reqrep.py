"""U-reqrep: the REQ and REP lock-step state machines (socket/req_socket.rs, socket/rep_socket.rs), for every call history and
every interleaving of calls on clones of one socket.

Lock model with interference (R6h): the protocol state lives in a mutex that is released between the critical sections of
one call.  Every `self.state.lock()` becomes `self.verif_state_acquire()`: the protected value is then ARBITRARY (other
tasks ran), except for what the rely condition keeps; every write through a guard becomes `self.verif_state_write(v)`,
whose precondition is the guarantee condition every function of the socket must honour, and which appends the pair
(value found, value written) to a ghost log.  The contracts are statements about that log:

  * an out-of-turn call returns InvalidState and writes nothing;
  * a successful call performs exactly one write, and that write is the legal transition, taken from the value that was
    in the mutex IN THE SAME critical section (atomic: no other call can have used the same turn);
  * rely/guarantee: only send() leaves ReadyToSend and only while it holds the send turn (REQ); only recv()/recv_multipart()
    leave ReadyToReceive and only while holding the recv turn (REP).  The turn locks (tokio::sync::Mutex<()>) are modelled by
    a ghost flag `held` = held by this call."""
import re
from vlib.vx import Fn, Item, Raw, Region, Scan
from vlib.runner import Unit

REQ = "core/src/socket/req_socket.rs"
REP = "core/src/socket/rep_socket.rs"
REQ_IMPL = r"impl\s+ISocket\s+for\s+ReqSocket\b"
REP_IMPL = r"impl\s+ISocket\s+for\s+RepSocket\b"

COMMON = """
// ---- shared stand-ins (abstract: nothing assumed but the signatures)
pub struct TurnGuard { pub x: u8 }
// tokio::sync::Mutex<()> used as a turn lock; `held` = held by THIS call (ghost).  Acquisition goes through the socket-level
// stand-in verif_turn_lock (rewrite of exactly `let _name = self.<turn>.lock().await;`, a named binding that lives to the end
// of the function; `let _ = ..` would drop the guard at once and is deliberately not matched).
pub struct TurnLock { pub held: Ghost<bool> }
#[verifier::external_body]
pub struct MailboxRef { x: u8 }
impl MailboxRef { #[verifier::external_body] pub fn is_closed(&self) -> bool { unimplemented!() } }
#[verifier::external_body]
pub struct CoreRef { x: u8 }
impl CoreRef {
  #[verifier::external_body] pub fn is_running(&self) -> bool { unimplemented!() }
  #[verifier::external_body] pub fn command_sender(&self) -> MailboxRef { unimplemented!() }
  // R8: self.core.core_state.read().options.{sndtimeo, rcvtimeo}
  #[verifier::external_body] pub fn verif_sndtimeo(&self) -> Option<Duration> { unimplemented!() }
  #[verifier::external_body] pub fn verif_rcvtimeo(&self) -> Option<Duration> { unimplemented!() }
}
#[verifier::external_body]
pub struct IfaceRef { x: u8 }
impl IfaceRef { #[verifier::external_body] pub async fn send_multipart(&self, frames: FrameBatch) -> Result<(), ZmqError> { unimplemented!() } }
pub struct PeerRef { pub uri: String, pub iface: IfaceRef }
#[verifier::external_body]
pub struct LoadBalancer { x: u8 }
pub struct Elapsed { pub x: u8 }
impl LoadBalancer {
  #[verifier::external_body] pub fn get_next_connection(&self) -> Option<PeerRef> { unimplemented!() }
  #[verifier::external_body] pub async fn wait_for_connection(&self) -> Result<(), ZmqError> { unimplemented!() }
  #[verifier::external_body] pub fn remove_connection(&self, uri: &String) { unimplemented!() }
  // R8: tokio_timeout(d, self.load_balancer.wait_for_connection()).await
  #[verifier::external_body] pub async fn verif_timed_wait(&self, d: Duration) -> Result<Result<(), ZmqError>, Elapsed> { unimplemented!() }
}
#[verifier::external_body]
pub struct Notifier { x: u8 }
impl Notifier {
  #[verifier::external_body] pub fn notify_waiters(&self) { unimplemented!() }
  #[verifier::external_body] pub fn clone(&self) -> Notifier { unimplemented!() }
  #[verifier::external_body] pub async fn notified(&self) -> (r: ()) { unimplemented!() }
}
#[verifier::external_body]
pub struct Ingress { x: u8 }
impl Ingress {
  #[verifier::external_body] pub async fn recv_logical_message(&self, t: Option<Duration>) -> Result<(usize, FrameBatch), ZmqError> { unimplemented!() }
}
"""

REQ_GLUE = """
pub struct ReqSocket {
  pub core: CoreRef, pub load_balancer: LoadBalancer, pub ingress_engine: Ingress, pub reply_available_notifier: Notifier,
  pub state: ReqState,            // R6h: ParkingLotMutex<ReqState>
  pub send_turn: TurnLock,        // tokio::sync::Mutex<()>
  pub log: Ghost<Seq<(ReqState, ReqState)>>,   // ghost: (value found, value written) of every write to `state`, in order
  pub seen: Ghost<Seq<ReqState>>,              // ghost: value found at every acquisition of the state mutex, in order
  pub under: Ghost<bool>,                      // ghost: the value in `state` was observed while this call already held the send turn
}
// what other tasks may do to the state between two of my critical sections: nobody leaves ReadyToSend while I hold the send turn --
// usable only for a value I observed when I ALREADY held the turn (`under`); anything seen before taking the turn is stale
pub open spec fn req_rely(before: ReqState, after: ReqState, held_since_before: bool) -> bool { held_since_before && before is ReadyToSend ==> after is ReadyToSend }
// what every write of every function must honour for that to be true
pub open spec fn req_guarantee(found: ReqState, written: ReqState, held: bool) -> bool { found is ReadyToSend && !(written is ReadyToSend) ==> held }
impl ReqSocket {
  pub open spec fn frame(&self, o: &ReqSocket) -> bool {
    self.core == o.core && self.load_balancer == o.load_balancer && self.ingress_engine == o.ingress_engine
    && self.reply_available_notifier == o.reply_available_notifier && self.send_turn == o.send_turn
  }
  #[verifier::external_body]
  pub fn verif_state_acquire(&mut self)
    ensures final(self).frame(old(self)), final(self).log == old(self).log,
      req_rely(old(self).state, final(self).state, old(self).send_turn.held@ && old(self).under@),
      final(self).seen@ == old(self).seen@.push(final(self).state),
      final(self).under@ == old(self).send_turn.held@,
  { unimplemented!() }
  // taking the turn is an await: other calls run meanwhile, whatever was observed before is stale
  #[verifier::external_body]
  pub async fn verif_turn_lock(&mut self) -> (g: TurnGuard)
    requires !old(self).send_turn.held@,
    ensures final(self).send_turn.held@, !final(self).under@, final(self).state == old(self).state, final(self).log == old(self).log, final(self).seen == old(self).seen,
      final(self).core == old(self).core, final(self).load_balancer == old(self).load_balancer, final(self).ingress_engine == old(self).ingress_engine,
      final(self).reply_available_notifier == old(self).reply_available_notifier,
  { unimplemented!() }
  pub fn verif_state_write(&mut self, v: ReqState)
    requires req_guarantee(old(self).state, v, old(self).send_turn.held@),
    ensures final(self).frame(old(self)), final(self).seen == old(self).seen, final(self).state == v, final(self).under == old(self).under,
      final(self).log@ == old(self).log@.push((old(self).state, v)),
  {
    proof { self.log = Ghost(self.log@.push((self.state, v))); }
    self.state = v;
  }
  #[verifier::external_body]
  pub fn process_incoming_zmtp_message_for_req(&self, pipe_read_id: usize, raw_zmtp_message: FrameBatch) -> Result<FrameBatch, ZmqError> { unimplemented!() }
}
// R8: `received_msg_result.as_ref().map_or(true, |m| !m.is_more())`
pub fn verif_reply_finished(r: &Result<Msg, ZmqError>) -> (b: bool)
  ensures b == (match *r { Ok(m) => !m.flags.more, Err(_) => true })
{ match r { Ok(m) => !m.is_more(), Err(_) => true } }

pub open spec fn req_no_write(a: &ReqSocket, b: &ReqSocket) -> bool { b.log@ == a.log@ }
pub open spec fn req_one_write(a: &ReqSocket, b: &ReqSocket) -> bool { b.log@.len() == a.log@.len() + 1 && b.log@.subrange(0, a.log@.len() as int) =~= a.log@ }
pub open spec fn req_first_seen(a: &ReqSocket, b: &ReqSocket) -> ReqState { b.seen@[a.seen@.len() as int] }
"""

REP_GLUE = """
pub struct RepSocket {
  pub core: CoreRef, pub ingress_engine: Ingress,
  pub state: RepState,            // R6h: ParkingLotMutex<RepState>
  pub recv_turn: TurnLock,        // tokio::sync::Mutex<()>
  pub log: Ghost<Seq<(RepState, RepState)>>,
  pub seen: Ghost<Seq<RepState>>,
  pub under: Ghost<bool>,         // ghost: the value in `state` was observed while this call already held the recv turn
}
// while I hold the recv turn nobody leaves ReadyToReceive; leaving ReadyToReceive requires holding the recv turn
pub open spec fn rep_rely(before: RepState, after: RepState, held_since_before: bool) -> bool { held_since_before && before is ReadyToReceive ==> after is ReadyToReceive }
pub open spec fn rep_guarantee(found: RepState, written: RepState, held: bool) -> bool { found is ReadyToReceive && !(written is ReadyToReceive) ==> held }
impl RepSocket {
  pub open spec fn frame(&self, o: &RepSocket) -> bool { self.core == o.core && self.ingress_engine == o.ingress_engine && self.recv_turn == o.recv_turn }
  #[verifier::external_body]
  pub fn verif_state_acquire(&mut self)
    ensures final(self).frame(old(self)), final(self).log == old(self).log,
      rep_rely(old(self).state, final(self).state, old(self).recv_turn.held@ && old(self).under@),
      final(self).seen@ == old(self).seen@.push(final(self).state),
      final(self).under@ == old(self).recv_turn.held@,
  { unimplemented!() }
  #[verifier::external_body]
  pub async fn verif_turn_lock(&mut self) -> (g: TurnGuard)
    requires !old(self).recv_turn.held@,
    ensures final(self).recv_turn.held@, !final(self).under@, final(self).state == old(self).state, final(self).log == old(self).log, final(self).seen == old(self).seen,
      final(self).core == old(self).core, final(self).ingress_engine == old(self).ingress_engine,
  { unimplemented!() }
  pub fn verif_state_write(&mut self, v: RepState)
    requires rep_guarantee(old(self).state, v, old(self).recv_turn.held@),
    ensures final(self).frame(old(self)), final(self).seen == old(self).seen, final(self).state == v, final(self).under == old(self).under,
      final(self).log@ == old(self).log@.push((old(self).state, v)),
  {
    proof { self.log = Ghost(self.log@.push((self.state, v))); }
    self.state = v;
  }
  // R6h: std::mem::replace(&mut *guard, v)
  pub fn verif_state_replace(&mut self, v: RepState) -> (r: RepState)
    requires rep_guarantee(old(self).state, v, old(self).recv_turn.held@),
    ensures final(self).frame(old(self)), final(self).seen == old(self).seen, final(self).state == v, r == old(self).state, final(self).under == old(self).under,
      final(self).log@ == old(self).log@.push((old(self).state, v)),
  {
    proof { self.log = Ghost(self.log@.push((self.state, v))); }
    core::mem::replace(&mut self.state, v)
  }
  // body outside Verus (closure in ok_or_else, for-loop over an owned FrameBatch): signature only
  #[verifier::external_body]
  pub async fn recv_complete_request(&self, rcvtimeo_opt: Option<Duration>) -> Result<(PeerInfo, FrameBatch), ZmqError> { unimplemented!() }
}
pub open spec fn rep_no_write(a: &RepSocket, b: &RepSocket) -> bool { b.log@ == a.log@ }
pub open spec fn rep_one_write(a: &RepSocket, b: &RepSocket) -> bool { b.log@.len() == a.log@.len() + 1 && b.log@.subrange(0, a.log@.len() as int) =~= a.log@ }
pub open spec fn rep_first_seen(a: &RepSocket, b: &RepSocket) -> RepState { b.seen@[a.seen@.len() as int] }
// "changes nothing": every write made is ReadyToReceive over ReadyToReceive
pub open spec fn rep_only_identity_writes(a: &RepSocket, b: &RepSocket) -> bool {
  b.log@.len() >= a.log@.len() && b.log@.subrange(0, a.log@.len() as int) =~= a.log@
  && forall|i: int| a.log@.len() <= i < b.log@.len() ==> (#[trigger] b.log@[i]).0 is ReadyToReceive && b.log@[i].1 is ReadyToReceive
}
"""

INVALID = ("R2", re.compile(r'ZmqError::InvalidState\(\s*"([^"]*)"\.into\(\)\s*\)'), r'ZmqError::InvalidState("\1")', "*", "pre")
# R6h rewrites of the guard idiom (declared; the guard names are the ones in the source)
def guard_rules(names):
  # `*self.state.lock() = v;` (store through a temporary guard): one acquisition + one write, whatever function it appears in
  rules = [("R6h", re.compile(r"\*self\.state\.lock\(\)\s*=\s*([^;]*);"), r"{ self.verif_state_acquire(); self.verif_state_write(\1); }", "*")]
  for g in names:
    rules.append(("R6h", re.compile(r"let (?:mut )?%s = self\.state\.lock\(\);" % g), "self.verif_state_acquire();", "+"))
    rules.append(("R6h", re.compile(r"\*%s\s*=\s*([^;]*);" % g, re.S), r"self.verif_state_write(\1);", "*"))
    rules.append(("R6h", re.compile(r"\*%s\b" % g), "self.state", "*"))
  return rules

REP_RULES = [INVALID, ("R6h", re.compile(r"let (_[a-z][a-z_0-9]*) = self\.recv_turn\.lock\(\)\.await;"), r"let \1 = self.verif_turn_lock().await;", "*"),
             ("R8", "self.core_state_read().options.rcvtimeo", "self.core.verif_rcvtimeo()", 1),
             ("R6h", re.compile(r"\*self\.state\.lock\(\)\s*=\s*([^;]*);"), r"{ self.verif_state_acquire(); self.verif_state_write(\1); }", 1)] + guard_rules(["guard"])
def turn_rule(field):
  return ("R6h", re.compile(r"let (_[a-z][a-z_0-9]*) = self\.%s\.lock\(\)\.await;" % field), r"let \1 = self.verif_turn_lock().await;", "*")
SELF_MUT = [("&self", "&mut self")]
# C09: a future can only be dropped where it returned Pending, i.e. at an await.  If no write to the protocol state has
# happened before any await of a call, dropping the call at any point leaves the protocol state exactly as it found it.
AWAIT_REQ = [("C09+C10:cancel_at_any_await_leaves_protocol_state_untouched", "self.log@ == old(self).log@")]
AWAIT_REP = AWAIT_REQ
ATTRS = ["#[verifier::loop_isolation(false)]", "#[verifier::allow_complex_invariants]", "#[verifier::exec_allows_no_decreases_clause]"]

parts = [
  Raw("prelude/core.rs"),
  Raw("prelude/std.rs"),
  Raw("prelude/bytes.rs"),
  Raw("prelude/msg.rs"),
  Raw("prelude/framebatch.rs"),
  Raw("prelude/time.rs"),
  Raw(text=COMMON, label="reqrep-common"),
  Item(REQ, "enum", "ReqState", keep_derive=()),
  Raw(text=REQ_GLUE, label="req-glue"),
  Fn(REQ, "send", impl=REQ_IMPL, emit_impl="impl ReqSocket", sig_sub=SELF_MUT, mut_params=["msg"], attrs=ATTRS, await_inv=AWAIT_REQ,
     requires=["!old(self).send_turn.held@"],
     ensures=[
       ("C10:failed_send_changes_nothing", "r is Err ==> req_no_write(old(self), final(self))"),
       ("C10:send_out_of_turn_is_invalid_state",
        "final(self).seen@.len() > old(self).seen@.len() && !(req_first_seen(old(self), final(self)) is ReadyToSend) ==> r matches Err(ZmqError::InvalidState(_))"),
       ("C10:successful_send_is_one_atomic_transition",
        "r is Ok ==> req_one_write(old(self), final(self)) && final(self).log@.last().0 is ReadyToSend && final(self).log@.last().1 is ExpectingReply"),
     ],
     extra=[INVALID, turn_rule("send_turn"),
            ("R8", "self.core.core_state.read().options.sndtimeo", "self.core.verif_sndtimeo()", 1),
            ("R8", re.compile(r"tokio_timeout\(duration, self\.load_balancer\.wait_for_connection\(\)\)\.await"), "self.load_balancer.verif_timed_wait(duration).await", 1),
            ] + guard_rules(["current_state_guard"]),
     loops={0: {"break_value": True}}),
  # ---- REQ recv() as a whole: its tokio::select! is desugared by R12 (any arm may complete); the read-only state access inside the
  # select body is an acquisition like any other (the value found is arbitrary up to the rely)
  Fn(REQ, "recv", impl=REQ_IMPL, emit_impl="impl ReqSocket", sig_sub=SELF_MUT, attrs=ATTRS, await_inv=AWAIT_REQ,
     ensures=[
       ("C10:recv_out_of_turn_is_invalid_state_and_changes_nothing",
        "final(self).seen@.len() > old(self).seen@.len() && !(req_first_seen(old(self), final(self)) is ExpectingReply) ==> (r matches Err(ZmqError::InvalidState(_))) && req_no_write(old(self), final(self))"),
       ("C10:recv_only_transition_is_ExpectingReply_to_ReadyToSend_atomically",
        "req_no_write(old(self), final(self)) || (req_one_write(old(self), final(self)) && final(self).log@.last().0 is ExpectingReply && final(self).log@.last().1 is ReadyToSend)"),
       ("C02:KF_recv_never_hands_out_a_frame_that_says_MORE_while_keeping_nothing_of_the_rest", "r matches Ok(m) ==> !m.flags.more"),
       ("C10:partial_reply_keeps_expecting", "(r matches Ok(m) && m.flags.more) ==> req_no_write(old(self), final(self))"),
       ("C10:complete_reply_in_turn_returns_to_ReadyToSend",
        "(r matches Ok(m) && !m.flags.more) && final(self).seen@.len() >= old(self).seen@.len() + 2 && final(self).seen@.last() is ExpectingReply ==> req_one_write(old(self), final(self))"),
       # recorded finding: a recv() that FAILS (timeout, closed peer) also returns the socket to ReadyToSend
       ("C10:KF_failed_recv_changes_nothing", "r is Err ==> req_no_write(old(self), final(self))"),
     ],
     extra=[INVALID, ("R2", re.compile(r'ZmqError::Internal\(\s*"([^"]*)"\.into\(\)\s*\)'), r'ZmqError::Internal(verif_fmt())', "*", "pre"),
            ("R8", "self.core.core_state.read().options.rcvtimeo", "self.core.verif_rcvtimeo()", 1),
            ("R6h", "matches!(*self.state.lock(), ReqState::ReadyToSend)", "{ self.verif_state_acquire(); matches!(self.state, ReqState::ReadyToSend) }", 1),
            ("R8", "received_msg_result.as_ref().map_or(true, |m| !m.is_more())", "verif_reply_finished(&received_msg_result)", 1),
            ("R5", "Some(Duration::ZERO)", "Some(Duration::verif_zero())", "+"),
            ("R6h", re.compile(r"\*self\.state\.lock\(\)\s*=\s*([^;]*);"), r"{ self.verif_state_acquire(); self.verif_state_write(\1); }", "*"),
            ] + guard_rules(["op_state_guard", "state_guard"])),
  Fn(REQ, "recv_multipart", impl=REQ_IMPL, emit_impl="impl ReqSocket", sig_sub=SELF_MUT, attrs=ATTRS, await_inv=AWAIT_REQ,
     ensures=[
       ("C10:recv_multipart_out_of_turn_is_invalid_state_and_changes_nothing",
        "final(self).seen@.len() > old(self).seen@.len() && !(req_first_seen(old(self), final(self)) is ExpectingReply) ==> (r matches Err(ZmqError::InvalidState(_))) && req_no_write(old(self), final(self))"),
       ("C10:recv_multipart_only_transition_is_ExpectingReply_to_ReadyToSend_atomically",
        "req_no_write(old(self), final(self)) || (req_one_write(old(self), final(self)) && final(self).log@.last().0 is ExpectingReply && final(self).log@.last().1 is ReadyToSend)"),
       ("C10:KF_failed_recv_multipart_changes_nothing", "r is Err ==> req_no_write(old(self), final(self))"),
     ],
     extra=[INVALID, ("R8", "self.core.core_state.read().options.rcvtimeo", "self.core.verif_rcvtimeo()", 1)] + guard_rules(["state_guard"])),
  # ---------------------------------------------------------------- REP
  Item(REP, "struct", "PeerInfo", keep_derive=()),
  Item(REP, "enum", "RepState", keep_derive=()),
  Raw(text=REP_GLUE, label="rep-glue"),
  Fn(REP, "recv", impl=REP_IMPL, emit_impl="impl RepSocket", sig_sub=SELF_MUT, attrs=ATTRS, await_inv=AWAIT_REP,
     requires=["!old(self).recv_turn.held@"],
     ensures=[
       ("C10:recv_out_of_turn_is_invalid_state_and_changes_nothing",
        "final(self).seen@.len() > old(self).seen@.len() && !(rep_first_seen(old(self), final(self)) is ReadyToReceive) ==> (r matches Err(ZmqError::InvalidState(_))) && rep_no_write(old(self), final(self))"),
       ("C10:failed_recv_changes_nothing", "r is Err ==> rep_no_write(old(self), final(self))"),
       ("C10:successful_recv_is_one_atomic_transition",
        "r is Ok ==> rep_one_write(old(self), final(self)) && final(self).log@.last().0 is ReadyToReceive && final(self).log@.last().1 is ReceivedRequest"),
       # KNOWN FINDING: recv() hands out the first payload frame and drops the others (the socket keeps nothing of the message)
       ("C02:KF_recv_never_hands_out_a_frame_that_says_MORE_while_keeping_nothing_of_the_rest", "r matches Ok(m) ==> !m.flags.more"),
     ],
     extra=REP_RULES),
  Fn(REP, "recv_multipart", impl=REP_IMPL, emit_impl="impl RepSocket", sig_sub=SELF_MUT, attrs=ATTRS, await_inv=AWAIT_REP,
     requires=["!old(self).recv_turn.held@"],
     ensures=[
       ("C10:recv_multipart_out_of_turn_is_invalid_state_and_changes_nothing",
        "final(self).seen@.len() > old(self).seen@.len() && !(rep_first_seen(old(self), final(self)) is ReadyToReceive) ==> (r matches Err(ZmqError::InvalidState(_))) && rep_no_write(old(self), final(self))"),
       ("C10:failed_recv_multipart_changes_nothing", "r is Err ==> rep_no_write(old(self), final(self))"),
       ("C10:successful_recv_multipart_is_one_atomic_transition",
        "r is Ok ==> rep_one_write(old(self), final(self)) && final(self).log@.last().0 is ReadyToReceive && final(self).log@.last().1 is ReceivedRequest"),
     ],
     extra=REP_RULES),
  # REP send_multipart(): the MORE-flag loop uses iter_mut().enumerate() (outside Verus); the critical section is a region
  Region(REP, "send_take_request", "send_multipart", r"let peer_to_reply_to = \{", r"let conn_iface: Arc<dyn ISocketConnection> = \{",
         sig="fn send_take_request(&mut self, user_payload_frames: &FrameBatch) -> (r: Result<PeerInfo, ZmqError>)", tail="Ok(peer_to_reply_to)",
         impl=REP_IMPL, emit_impl="impl RepSocket",
         ensures=[
           ("C10:reply_takes_the_pending_request_atomically",
            "r matches Ok(p) ==> rep_one_write(old(self), final(self)) && final(self).log@.last().0 == RepState::ReceivedRequest(p) && final(self).log@.last().1 is ReadyToReceive"),
           ("C10:send_out_of_turn_is_invalid_state_and_changes_nothing",
            "r is Err ==> ((r matches Err(ZmqError::InvalidState(_))) || (r matches Err(ZmqError::InvalidMessage(_)))) && rep_only_identity_writes(old(self), final(self))"),
           ("C10:invalid_state_only_out_of_turn", "r matches Err(ZmqError::InvalidState(_)) ==> rep_first_seen(old(self), final(self)) is ReadyToReceive"),
           # a reply that cannot fit one message together with the request's routing envelope is refused and the request stays pending
           ("C02+C10:oversized_reply_is_refused_and_the_request_stays_pending", "r matches Err(ZmqError::InvalidMessage(_)) ==> rep_no_write(old(self), final(self)) && rep_first_seen(old(self), final(self)) is ReceivedRequest"),
           ("C02:accepted_reply_fits_one_message_with_its_envelope", "r matches Ok(p) ==> p.routing_prefix@.len() + user_payload_frames@.len() <= 255"),
           ("C10:send_in_turn_proceeds", "rep_first_seen(old(self), final(self)) matches RepState::ReceivedRequest(q) && q.routing_prefix@.len() + user_payload_frames@.len() <= 255 ==> r is Ok"),
         ],
         extra=[INVALID, ("R2", re.compile(r'ZmqError::InvalidMessage\(\s*"([^"]*)"\.into\(\)\s*\)', re.S), r'ZmqError::InvalidMessage(verif_fmt())', "*", "pre"),
                ("R5", "FrameBatch::MAX_FRAMES", "255", "*"),
                ("R6h", "std::mem::replace(&mut *guard, RepState::ReadyToReceive)", "self.verif_state_replace(RepState::ReadyToReceive)", 1)] + guard_rules(["guard"])),
  Scan(REP, "send_multipart", r"self\.state\b", 1, impl=REP_IMPL, why="the only access is inside the region"),
]

# Scans only where a REGION is verified (REP send_multipart): for whole functions every access to the state is in the extracted text, and a form of
# access the R6h rules do not know is a Verus error (undecided), never a silent pass.
unit = Unit("reqrep", ["C02", "C10", "C09"], parts, safety_props=["C10"], notes="REQ/REP lock-step state machines under interference")
