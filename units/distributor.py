"""U-distributor: PUB's fan-out, `Distributor::send_to_all_multipart` (socket/patterns/distributor.rs), whole.

Contract from the property text (C12: a slow, stalled or vanished subscriber never ... delays delivery to other subscribers; PUB sends
to every peer; would-block / timeout on one peer is ignored, errors remove only that peer): for the snapshot of registered peers, in
order, every peer is looked up once and -- iff its connection exists -- offered the WHOLE message exactly once, WHATEVER happened with
the peers before it (a refusal or failure of one peer never ends the loop); a would-block or timeout answer of a peer is never reported
as a failure (the caller removes exactly the reported peers: unit flags, PUB send / send_multipart cleanup loops); an empty peer set or an
empty message sends nothing.  Whether a send to one peer can WAIT is the connection's business (unit iface; known finding for SNDTIMEO -1).
"""
import re
from vlib.vx import Fn, Item, Raw, Region, Scan
from vlib.runner import Unit

DI = "core/src/socket/patterns/distributor.rs"

GLUE = """
pub struct ConnRef { pub x: u8 }
pub enum Ev { Lookup { uri: Seq<char>, found: bool }, Offer { uri: Seq<char>, frames: Seq<Msg> } }
// CoreState.endpoints behind its RwLock + the connections: ghost log of lookups and offers, in order
pub struct Endpoints { pub log: Ghost<Seq<Ev>> }
impl Endpoints {
  // R8: the read-locked block `core_s_read.endpoints.get(&uri).map(|ep| ep.connection_iface.clone())`
  #[verifier::external_body]
  pub fn verif_lookup(&mut self, uri: &String) -> (r: Option<ConnRef>)
    ensures final(self).log@ == old(self).log@.push(Ev::Lookup { uri: uri@, found: r is Some })
  { unimplemented!() }
  // R8: conn_iface.send_multipart(frames).await on the connection just looked up
  #[verifier::external_body]
  pub async fn verif_offer(&mut self, c: &ConnRef, uri: &String, frames: FrameBatch) -> (r: Result<(), ZmqError>)
    ensures final(self).log@ == old(self).log@.push(Ev::Offer { uri: uri@, frames: frames@ })
  { unimplemented!() }
}
impl Endpoints {
  // R8: conn_iface.send_message(msg).await on the connection just looked up (the single-frame fan-out)
  #[verifier::external_body]
  pub async fn verif_offer_one(&mut self, c: &ConnRef, uri: &String, msg: Msg) -> (r: Result<(), ZmqError>)
    ensures final(self).log@ == old(self).log@.push(Ev::Offer { uri: uri@, frames: seq![msg] })
  { unimplemented!() }
}
pub struct Distributor { pub x: u8 }
impl Distributor {
  pub uninterp spec fn peers(&self) -> Seq<Seq<char>>;      // the registered peers at the moment of the snapshot, in the snapshot's order
  // get_peer_uris(): a snapshot of the registered peers (read lock, cloned)
  #[verifier::external_body]
  pub fn get_peer_uris(&self) -> (r: Vec<String>) ensures views(r@) == self.peers() { unimplemented!() }
}
// what the loop must do for the peers uris[0..n), given which lookups found a connection
pub open spec fn trace(uris: Seq<Seq<char>>, found: Seq<bool>, frames: Seq<Msg>) -> Seq<Ev>
  decreases uris.len()
{
  if uris.len() == 0 || found.len() != uris.len() { Seq::<Ev>::empty() }
  else {
    trace(uris.drop_last(), found.drop_last(), frames)
      + (if found.last() { seq![Ev::Lookup { uri: uris.last(), found: true }, Ev::Offer { uri: uris.last(), frames: frames }] } else { seq![Ev::Lookup { uri: uris.last(), found: false }] })
  }
}
pub open spec fn views(v: Seq<String>) -> Seq<Seq<char>> { v.map_values(|s: String| s@) }
pub proof fn lemma_trace_step(uris: Seq<Seq<char>>, found: Seq<bool>, frames: Seq<Msg>, u: Seq<char>, f: bool)
  requires found.len() == uris.len()
  ensures trace(uris.push(u), found.push(f), frames)
    =~= trace(uris, found, frames) + (if f { seq![Ev::Lookup { uri: u, found: true }, Ev::Offer { uri: u, frames: frames }] } else { seq![Ev::Lookup { uri: u, found: false }] })
{
  assert(uris.push(u).drop_last() =~= uris); assert(found.push(f).drop_last() =~= found);
  assert(uris.push(u).last() == u); assert(found.push(f).last() == f);
}
pub open spec fn no_flow_control_error(v: Seq<(String, ZmqError)>) -> bool {
  forall|j: int| 0 <= j < v.len() ==> !((#[trigger] v[j]).1 is ResourceLimitReached) && !(v[j].1 is Timeout)
}
"""

parts = [
  Raw("prelude/core.rs"),
  Raw("prelude/std.rs"),
  Raw("prelude/bytes.rs"),
  Raw("prelude/msg.rs"),
  Raw("prelude/framebatch.rs"),
  Raw(text=GLUE, label="distributor-glue"),
  Fn(DI, "send_to_all_multipart", impl=r"impl\s+Distributor\b", emit_impl="impl Distributor",
     sig_sub=[("core_state_accessor: &parking_lot::RwLock<CoreState>", "core_state_accessor: &mut Endpoints")],
     attrs=["#[verifier::loop_isolation(false)]"],
     ensures=[
       ("C12:every_registered_peer_is_offered_the_whole_message_exactly_once_in_order_whatever_happened_with_the_peers_before_it",
        "zmtp_frames@.len() > 0 ==> exists|found: Seq<bool>| found.len() == self.peers().len() && final(core_state_accessor).log@ =~= old(core_state_accessor).log@ + trace(self.peers(), found, zmtp_frames@)"),
       ("C12:would_block_or_timeout_of_a_subscriber_is_never_reported_as_a_failure", "r matches Err(v) ==> no_flow_control_error(v@)"),
       ("C12:an_empty_message_sends_nothing", "zmtp_frames@.len() == 0 ==> final(core_state_accessor).log@ == old(core_state_accessor).log@ && r is Ok"),
     ],
     loops={0: {"desugar_owned": True, "invariant": [
       ("C12:fan_out_loop_follows_the_snapshot_in_order", "fnd.len() == vx_i0 && done =~= views(vx_o0).subrange(0, vx_i0 as int) && core_state_accessor.log@ =~= old(core_state_accessor).log@ + trace(done, fnd, zmtp_frames@)"),
       ("C12:no_flow_control_error_collected_so_far", "no_flow_control_error(failed_uris@)"),
     ]}},
     hints=[
       ("empty", "re:if uris_to_send_to\\.is_empty\\(\\) \\|\\| zmtp_frames\\.is_empty\\(\\) \\{", 0, "before", "proof { assert(uris_to_send_to@.len() == 0 ==> self.peers() =~= Seq::<Seq<char>>::empty()); assert(trace(Seq::<Seq<char>>::empty(), Seq::<bool>::empty(), zmtp_frames@) =~= Seq::<Ev>::empty()); assert(core_state_accessor.log@ + Seq::<Ev>::empty() =~= core_state_accessor.log@); }"),
       ("init", "@loop_before:0", 0, "", "let ghost mut fnd: Seq<bool> = Seq::empty(); let ghost mut done: Seq<Seq<char>> = Seq::empty(); proof { assert(views(uris_to_send_to@).subrange(0, 0) =~= Seq::<Seq<char>>::empty()); }"),
       ("C12:every_peer_of_the_snapshot_was_visited_before_the_result_is_built", "re:if failed_uris\\.is_empty\\(\\) \\{", 0, "before", "proof { assert(done =~= self.peers()); }"),
       ("looked", "re:if let Some\\(conn_iface\\) = conn_iface_opt \\{", 0, "before",
        "let ghost was = conn_iface_opt is Some;\n"
        "      proof { assert(views(vx_o0).subrange(0, vx_i0 as int) =~= done.push(uri_to_send@)); lemma_trace_step(done, fnd, zmtp_frames@, uri_to_send@, was); fnd = fnd.push(was); done = done.push(uri_to_send@); }"),
     ],
     extra=[
       ("R8", re.compile(r"let conn_iface_opt: Option<Arc<dyn ISocketConnection>> = \{.*?\n      \};", re.S), "let conn_iface_opt: Option<ConnRef> = core_state_accessor.verif_lookup(&uri_to_send);", 1),
       ("R8", "conn_iface.send_multipart(frames_for_this_peer).await", "core_state_accessor.verif_offer(&conn_iface, &uri_to_send, frames_for_this_peer).await", 1),
       ("R5", "Err(e @ ZmqError::ConnectionClosed) => {", "Err(ZmqError::ConnectionClosed) => { let e = ZmqError::ConnectionClosed;", 1),
     ]),
  Fn(DI, "send_to_all", impl=r"impl\s+Distributor\b", emit_impl="impl Distributor",
     sig_sub=[("core_state_accessor: &parking_lot::RwLock<CoreState>", "core_state_accessor: &mut Endpoints")],
     attrs=["#[verifier::loop_isolation(false)]"],
     ensures=[
       ("C12:every_registered_peer_is_offered_the_whole_message_exactly_once_in_order_whatever_happened_with_the_peers_before_it",
        "exists|found: Seq<bool>| found.len() == self.peers().len() && final(core_state_accessor).log@ =~= old(core_state_accessor).log@ + trace(self.peers(), found, seq![*msg])"),
       ("C12:would_block_or_timeout_of_a_subscriber_is_never_reported_as_a_failure", "r matches Err(v) ==> no_flow_control_error(v@)"),
     ],
     loops={0: {"desugar_owned": True, "invariant": [
       ("C12:fan_out_loop_follows_the_snapshot_in_order", "fnd.len() == vx_i0 && done =~= views(vx_o0).subrange(0, vx_i0 as int) && core_state_accessor.log@ =~= old(core_state_accessor).log@ + trace(done, fnd, seq![*msg])"),
       ("C12:no_flow_control_error_collected_so_far", "no_flow_control_error(failed_uris@)"),
     ]}},
     hints=[
       ("empty", "re:if uris_to_send_to\\.is_empty\\(\\) \\{", 0, "before", "proof { assert(uris_to_send_to@.len() == 0 ==> self.peers() =~= Seq::<Seq<char>>::empty()); assert(trace(Seq::<Seq<char>>::empty(), Seq::<bool>::empty(), seq![*msg]) =~= Seq::<Ev>::empty()); assert(core_state_accessor.log@ + Seq::<Ev>::empty() =~= core_state_accessor.log@); }"),
       ("init", "@loop_before:0", 0, "", "let ghost mut fnd: Seq<bool> = Seq::empty(); let ghost mut done: Seq<Seq<char>> = Seq::empty(); proof { assert(views(uris_to_send_to@).subrange(0, 0) =~= Seq::<Seq<char>>::empty()); }"),
       ("C12:every_peer_of_the_snapshot_was_visited_before_the_result_is_built", "re:if failed_uris\\.is_empty\\(\\) \\{", 0, "before", "proof { assert(done =~= self.peers()); }"),
       ("looked", "re:if let Some\\(conn_iface\\) = conn_iface_opt \\{", 0, "before",
        "let ghost was = conn_iface_opt is Some;\n"
        "      proof { assert(views(vx_o0).subrange(0, vx_i0 as int) =~= done.push(uri_to_send@)); lemma_trace_step(done, fnd, seq![*msg], uri_to_send@, was); fnd = fnd.push(was); done = done.push(uri_to_send@); }"),
     ],
     extra=[
       ("R8", re.compile(r"let conn_iface_opt: Option<Arc<dyn ISocketConnection>> = \{.*?\n      \};", re.S), "let conn_iface_opt: Option<ConnRef> = core_state_accessor.verif_lookup(&uri_to_send);", 1),
       ("R8", "conn_iface.send_message(msg_clone).await", "core_state_accessor.verif_offer_one(&conn_iface, &uri_to_send, msg_clone).await", 1),
       ("R5", "Err(e @ ZmqError::ConnectionClosed) => {", "Err(ZmqError::ConnectionClosed) => { let e = ZmqError::ConnectionClosed;", 1),
     ]),
]

FNS = {p.name: p for p in parts if isinstance(p, Fn)}
unit = Unit("distributor", ["C12"], parts, safety_props=["C12"], notes="PUB fan-out: every peer offered once, flow-control refusals ignored")
