"""U-dealerproc: DealerSocketOutgoingProcessor::run (socket/dealer_socket.rs), the background task that drains DEALER's
`pending_outgoing_queue` -- the whole function, loop and nested `tokio::select!` included (R12).

Contract from the property text (C01: every accepted message is delivered once, in the order accepted; back-pressure delays, never
reorders).  Ghost world shared with the senders: `acc` = every message the socket accepted, in order; `delivered` = every message the
orchestrator took, in order.  Invariant carried round the loop and across every await:

        delivered ++ [the message this task holds, if any] ++ queue  ==  acc          (nothing lost, duplicated or reordered)
        in-flight flag  ==  "this task holds a message"                               (what the senders' check relies on)

Rely (what the senders may do while this task is not looking; it is what unit dealerq PROVES of send_logical_message / try_send_sync /
queue_step): they append at the back of the queue, or route directly -- the latter only when the queue was empty and the flag clear.
All of that is applied at the next acquisition of the queue lock (`verif_queue_lock`), the only place this task observes the queue.
Guarantee (checked here): the flag is written only under the queue lock (precondition of the store stand-in).
"""
import re
from vlib.vx import Fn, Item, Raw, Region, Scan, ScopeEnd
from vlib.runner import Unit

DS = "core/src/socket/dealer_socket.rs"
IMPL = r"impl\s+DealerSocketOutgoingProcessor\b"

GLUE = """
use std::collections::VecDeque;
pub assume_specification<T, A: core::alloc::Allocator>[ VecDeque::<T, A>::is_empty ](v: &VecDeque<T, A>) -> (r: bool)
  ensures r == (v@.len() == 0);
pub open spec fn views(q: Seq<FrameBatch>) -> Seq<Seq<Msg>> { q.map_values(|b: FrameBatch| b@) }
pub struct Notifier { pub x: u8 }
impl Notifier {
  #[verifier::external_body] pub fn notify_one(&self) { unimplemented!() }
  #[verifier::external_body] pub async fn notified(&self) -> (r: ()) { unimplemented!() }
}
#[verifier::external_body]
pub struct MemOrdering { x: u8 }
#[verifier::external_body]
pub fn verif_release() -> MemOrdering { unimplemented!() }
// the ghost world: what the socket accepted, what the orchestrator took, whether the queue lock is held by this task
pub struct World { pub acc: Seq<Seq<Msg>>, pub delivered: Seq<Seq<Msg>>, pub locked: bool }
pub struct DealerSocketOutgoingProcessor {
  pub core_handle: usize,
  pub pending_queue: VecDeque<FrameBatch>,           // R6t: Arc<TokioMutex<VecDeque<FrameBatch>>>
  pub queued_message_in_flight: bool,                // AtomicBool, written by this task only
  pub queue_activity_notifier: Notifier, pub peer_availability_notifier: Notifier, pub stop_signal: Notifier,
  pub w: Ghost<World>,
}
impl DealerSocketOutgoingProcessor {
  // delivered ++ holding ++ queue == acc
  pub open spec fn conserved(&self, holding: Seq<Seq<Msg>>) -> bool { self.w@.delivered + holding + views(self.pending_queue@) =~= self.w@.acc }
  // R6t + rely: `self.pending_queue.lock().await` -- other tasks ran; appends at the back, direct routes only past an empty queue and a clear flag
  #[verifier::external_body]
  pub async fn verif_queue_lock(&mut self) -> (r: ())
    ensures final(self).queued_message_in_flight == old(self).queued_message_in_flight, final(self).w@.locked,
      final(self).core_handle == old(self).core_handle,
      exists|direct: Seq<Seq<Msg>>, appended: Seq<FrameBatch>|
        final(self).pending_queue@ == old(self).pending_queue@ + appended
        && final(self).w@.delivered == old(self).w@.delivered + direct
        && final(self).w@.acc == old(self).w@.acc + direct + views(appended)
        && (direct.len() > 0 ==> old(self).pending_queue@.len() == 0 && !old(self).queued_message_in_flight),
  { unimplemented!() }
  // the guard going out of scope
  pub fn verif_queue_unlock(&mut self)
    ensures final(self).pending_queue == old(self).pending_queue, final(self).queued_message_in_flight == old(self).queued_message_in_flight,
      final(self).w@.acc == old(self).w@.acc, final(self).w@.delivered == old(self).w@.delivered, !final(self).w@.locked, final(self).core_handle == old(self).core_handle,
  { proof { self.w@ = World { acc: self.w@.acc, delivered: self.w@.delivered, locked: false }; } }
  // guarantee: the in-flight flag is written only under the queue lock
  pub fn verif_flag_store(&mut self, v: bool, o: MemOrdering)
    requires old(self).w@.locked,
    ensures final(self).queued_message_in_flight == v, final(self).pending_queue == old(self).pending_queue, final(self).w == old(self).w, final(self).core_handle == old(self).core_handle,
  { self.queued_message_in_flight = v; }
  #[verifier::external_body]
  pub fn verif_has_connections(&self) -> bool { unimplemented!() }
  // outgoing_orchestrator.route_message(fb, false): taken by a peer (Ok) or handed back whole (Err); the queue is not looked at meanwhile
  #[verifier::external_body]
  pub async fn verif_route(&mut self, fb: FrameBatch, wait_for_peer: bool) -> (r: Result<(), (FrameBatch, ZmqError)>)
    requires !old(self).w@.locked,
    ensures final(self).pending_queue == old(self).pending_queue, final(self).queued_message_in_flight == old(self).queued_message_in_flight,
      final(self).w@.acc == old(self).w@.acc, final(self).w@.locked == old(self).w@.locked, final(self).core_handle == old(self).core_handle,
      r is Ok ==> final(self).w@.delivered == old(self).w@.delivered.push(fb@),
      // what unit route PROVES of route_message: the batch comes back intact only with would-block (timeout / closed: an EMPTY batch)
      r is Err ==> final(self).w@.delivered == old(self).w@.delivered,
      r matches Err(p) ==> ((p.1 is ResourceLimitReached) ==> p.0@ == fb@),
  { unimplemented!() }
}
pub proof fn lemma_views_push_front(q: Seq<FrameBatch>, x: FrameBatch)
  ensures views(seq![x] + q) =~= seq![x@] + views(q) {}
pub proof fn lemma_views_concat(a: Seq<FrameBatch>, b: Seq<FrameBatch>)
  ensures views(a + b) =~= views(a) + views(b) {}
pub proof fn lemma_views_pop_front(q: Seq<FrameBatch>)
  requires q.len() > 0
  ensures views(q) =~= seq![q[0]@] + views(q.subrange(1, q.len() as int)) {}
"""

INV = [("C01:nothing_held_at_the_loop_head_flag_clear", "!self.queued_message_in_flight && !self.w@.locked"),
       ("C01:delivered_then_queue_is_everything_accepted_in_order", "self.conserved(seq![])")]

parts = [
  Raw("prelude/core.rs"),
  Raw("prelude/std.rs"),
  Raw("prelude/bytes.rs"),
  Raw("prelude/msg.rs"),
  Raw("prelude/framebatch.rs"),
  Raw(text=GLUE, label="dealerproc-glue"),
  Fn(DS, "run", impl=IMPL, emit_impl="impl DealerSocketOutgoingProcessor", attrs=["#[verifier::exec_allows_no_decreases_clause]"], sig_sub=[("(self)", "(&mut self) -> ()")],
     requires=["!old(self).queued_message_in_flight && !old(self).w@.locked", "old(self).conserved(seq![])"],
     ensures=[("C01:on_stop_nothing_is_held_and_delivered_then_queue_is_everything_accepted_in_order",
               "!final(self).queued_message_in_flight && final(self).conserved(seq![])")],
     loops={0: {"invariant": INV}},
     extra=[("R6s", ScopeEnd(r"let (mut )?queue_guard = self\.pending_queue\.lock\(\)\.await;", "queue_guard"), "self.verif_queue_unlock(); ", "*"),
            ("R6t", re.compile(r"let (mut )?queue_guard = self\.pending_queue\.lock\(\)\.await;"), "self.verif_queue_lock().await;", "+"),
            ("R6t", re.compile(r"\bqueue_guard\."), "self.pending_queue.", "*"),
            ("R6t", re.compile(r"drop\(queue_guard\);"), "self.verif_queue_unlock();", "*"),
            ("R8", re.compile(r"self\s*\.\s*queued_message_in_flight\s*\.\s*store\("), "self.verif_flag_store(", "+"),
            ("R8", "std::sync::atomic::Ordering::Release", "verif_release()", "+"),
            ("R8", "self.outgoing_orchestrator.has_connections()", "self.verif_has_connections()", 1),
            ("R8", re.compile(r"self\s*\.\s*outgoing_orchestrator\s*\.\s*route_message\("), "self.verif_route(", 1)]),
]

FNS = {p.name: p for p in parts if isinstance(p, Fn)}
unit = Unit("dealerproc", ["C01"], parts, safety_props=["C01"], notes="DEALER queue processor task: conservation and order of the pending queue")
