"""U-framer: NullFramer (C03 entry points) and LengthPrefixedFramer (C18 record layer) of security/framer/mod.rs."""
from vlib.vx import Fn, Item, Raw, as_contract
from vlib.runner import Unit
from units import dec, enc

FR = "core/src/security/framer/mod.rs"
MP = dec.MP
NULL = r"impl\s+ISecureFramer\s+for\s+NullFramer\b"
LPF = r"impl\s+ISecureFramer\s+for\s+LengthPrefixedFramer\b"

# a well-formed record: 2-byte big-endian length prefix that equals the number of bytes that follow
RECORD_OK = "r matches Ok(out) ==> out@.len() >= 2 && be16(out@.subrange(0, 2)) == out@.len() - 2"

def lpf_write(name):
  return Fn(FR, name, impl=LPF, emit_impl="impl LengthPrefixedFramer",
            requires=["wire_batches(batch@) <= usize::MAX" if name == "write_msg_batch" else "wire_all(msgs@) <= usize::MAX"],
            ensures=[("C18:record_length_prefix_matches_ciphertext", RECORD_OK)],
            extra=[("R6", "self.cipher.encrypt(&plaintext)", "self.cipher.encrypt(plaintext.as_slice())", 1),
                   ("R6", "out.extend_from_slice(&ciphertext)", "out.extend_from_slice(ciphertext.as_slice())", 1)]
                  + ([("R6", "frame_contiguous(&[msgs])", "frame_contiguous(verif_one(&msgs))", 1)] if name == "write_msg_multipart" else []),
            hints=([("one", "self.framer.frame_contiguous(", 0, "before", "proof { lemma_enc_batches_one(msgs); }")] if name == "write_msg_multipart" else []) +
                  [("rec", "Ok(out.freeze())", 0, "before",
                    "proof { if ciphertext@.len() <= 0xffff { lemma_be16_roundtrip(ciphertext@.len() as nat); assert(out@.subrange(0, 2) =~= to_be16(ciphertext@.len() as nat)); } }")])

parts = [
  Raw("prelude/core.rs"),
  Raw("prelude/be_lemmas.rs"),
  Raw("prelude/std.rs"),
  Raw("prelude/bytes.rs"),
  Raw("prelude/msg.rs"),
  Raw("prelude/framebatch.rs"),
  Raw("prelude/zmtp_spec.rs"),
  Raw("prelude/enc_glue.rs"),
  Raw("prelude/cipher.rs"),
  Raw("prelude/c03_lemmas.rs"),
  Raw(text="""
// R6: `&[msgs]` (array-of-one to slice coercion)
#[verifier::external_body]
pub fn verif_one(m: &FrameBatch) -> (r: &[FrameBatch]) ensures r@ =~= seq![*m] { unimplemented!() }
pub proof fn lemma_enc_batches_one(m: FrameBatch)
  ensures enc_batches(seq![m]) == enc_all(m@), wire_batches(seq![m]) == wire_all(m@)
{
  assert(seq![m].drop_last() =~= Seq::<FrameBatch>::empty());
  assert(enc_batches(Seq::<FrameBatch>::empty()) =~= Seq::<u8>::empty());
  assert(enc_batches(seq![m]) =~= enc_all(m@));
  assert(wire_batches(Seq::<FrameBatch>::empty()) == 0);
  assert(seq![m].last() == m);
}
""", label="framer-glue"),
  Item(MP, "enum", "ManualDecodingState"),
  Item(MP, "struct", "ZmtpManualParser"),
  Item(enc.ENC, "struct", "ZmtpFrameEncoder"),
  as_contract(dec.FNS["decode_from_buffer"]),
  as_contract(enc.FNS["frame_contiguous"]),
  as_contract(enc.FNS["frame_vectored"]),
  Item(FR, "struct", "NullFramer"),
  Item(FR, "struct", "LengthPrefixedFramer"),
  # ---- NullFramer
  Fn(FR, "try_read_msg", impl=NULL, emit_impl="impl NullFramer",
     requires=["old(self).parser.state is ReadHeader"],
     ensures=[
       ("C03+C04+C07:dec_step", "dec_step(old(network_buffer)@, old(self).parser.max_msg_size, match r { Ok(None) => 0int, Ok(Some(_)) => 1int, Err(_) => 2int }, "
                                "match r { Ok(Some(m)) => frame_of(m), _ => first_frame(old(network_buffer)@) }, final(network_buffer)@)"),
       ("C03:state_frame", "final(self).parser.state is ReadHeader && final(self).parser.max_msg_size == old(self).parser.max_msg_size"),
       ("C04:consumes_from_the_front_of_the_buffer_only", "final(network_buffer).stream() =~= old(network_buffer).stream()"),
     ]),
  Fn(FR, "write_msg_multipart", impl=NULL, emit_impl="impl NullFramer",
     requires=["wire_all(msgs@) <= usize::MAX"],
     ensures=[("C03:ok", "r is Ok"), ("C01+C03:bytes", "r matches Ok(b) ==> b@ == enc_all(msgs@)")],
     extra=[("R6", "frame_contiguous(&[msgs])", "frame_contiguous(verif_one(&msgs))", 1)],
     hints=[("one", "self.framer.frame_contiguous(", 0, "before", "proof { lemma_enc_batches_one(msgs); }")]),
  Fn(FR, "write_msg_batch", impl=NULL, emit_impl="impl NullFramer",
     requires=["wire_batches(batch@) <= usize::MAX"],
     ensures=[("C03:ok", "r is Ok"), ("C01+C03:bytes", "r matches Ok(b) ==> b@ == enc_batches(batch@)")]),
  Fn(FR, "write_msg_split", impl=NULL, emit_impl="impl NullFramer",
     requires=["!msg.flags.command"],
     ensures=[("C03:ok", "r is Ok"),
              ("C03:header_then_payload", "r matches Ok(p) ==> p.1 is Some && p.0@ + p.1->0@ == enc_msg(msg)")],
     extra=[("R8", "msg.data_bytes().unwrap_or_default()", "verif_unwrap_or_default(msg.data_bytes())", 1)],
     hints=[("bits", "if payload_len <= 255 {", 0, "before", "proof { lemma_bits_or(); }"),
            ("ext", "Ok((hdr.freeze(), Some(payload)))", 0, "before", "proof { assert(hdr@ + payload@ =~= enc_msg(msg)); }")]),
  Fn(FR, "frame_vectored", impl=NULL, emit_impl="impl NullFramer",
     requires=["old(self).framer.header_slab@.len() == 0", "total_frames(batch@) * 9 <= usize::MAX", "no_commands_b(batch@)"],
     ensures=[("C03:ok", "r is Ok"), ("C01+C03:chunks", "r matches Ok(v) ==> concat_bytes(v@) == enc_batches(batch@)"),
              ("C03:slab_left_empty", "final(self).framer.header_slab@.len() == 0")]),
  # trait default method `ISecureFramer::try_read_msgs_from_bytes`, checked with NullFramer as the implementor:
  # the "append; decode until None" loop equals the spec function drain() of the C03/C04 lemmas
  Fn(FR, "try_read_msgs_from_bytes", impl=r"trait\s+ISecureFramer\b", emit_impl="impl NullFramer",
     requires=["old(self).parser.state is ReadHeader"],
     ensures=[
       ("C03+C04:err_iff_drain_err", "r is Err <==> drain(old(accumulator)@ + data@, old(self).parser.max_msg_size).err"),
       ("C03+C04:frames_are_drain_of_all_bytes", "r matches Ok(v) ==> frames_of(v@) == drain(old(accumulator)@ + data@, old(self).parser.max_msg_size).frames"),
       ("C03+C04:leftover_is_undecoded_tail", "r matches Ok(v) ==> final(accumulator)@ == drain(old(accumulator)@ + data@, old(self).parser.max_msg_size).rest"),
       ("C03:state_frame", "final(self).parser.state is ReadHeader && final(self).parser.max_msg_size == old(self).parser.max_msg_size"),
     ],
     extra=[("R6", "accumulator.extend_from_slice(&data)", "accumulator.extend_from_slice(data.as_slice())", 1)],
     loops={0: {
       "invariant": [
         "self.parser.state is ReadHeader", "self.parser.max_msg_size == old(self).parser.max_msg_size",
         ("C03+C04:loop_frames", "drain(old(accumulator)@ + data@, self.parser.max_msg_size).frames == frames_of(msgs@) + drain(accumulator@, self.parser.max_msg_size).frames"),
         ("C03+C04:loop_rest", "drain(old(accumulator)@ + data@, self.parser.max_msg_size).rest == drain(accumulator@, self.parser.max_msg_size).rest"),
         ("C03+C04:loop_err", "drain(old(accumulator)@ + data@, self.parser.max_msg_size).err == drain(accumulator@, self.parser.max_msg_size).err"),
       ],
       "ensures": [("C03+C04:loop_exit", "!frame_complete(accumulator@) && !oversize(accumulator@, self.parser.max_msg_size)")],
       "decreases": "accumulator@.len()"}},
     hints=[
       ("init", "let mut msgs = Vec::new();", 0, "after",
        "proof { assert(frames_of(msgs@) =~= Seq::<Frame>::empty()); assert(frames_of(msgs@) + drain(accumulator@, self.parser.max_msg_size).frames =~= drain(accumulator@, self.parser.max_msg_size).frames); }\nlet ghost mut acc_prev = accumulator@;"),
       ("push", "msgs.push(msg);", 0, "before", "let ghost m0 = msgs@; let ghost acc_before = acc_prev;"),
       ("push2", "msgs.push(msg);", 0, "after",
        "proof { assert(frames_of(msgs@) =~= frames_of(m0).push(frame_of(msg))); "
        "assert(frames_of(m0).push(frame_of(msg)) + drain(accumulator@, self.parser.max_msg_size).frames =~= frames_of(m0) + (seq![frame_of(msg)] + drain(accumulator@, self.parser.max_msg_size).frames)); acc_prev = accumulator@; }"),
     ]),
  # ---- LengthPrefixedFramer (record layer of CURVE / Noise)
  Fn(FR, "try_read_msg", impl=LPF, emit_impl="impl LengthPrefixedFramer", rename="LengthPrefixedFramer::try_read_msg",
     requires=["old(self).parser.state is ReadHeader"],
     ensures=[
       # records are cut exactly at their announced length, consumed whole and in order, each handed to the cipher once;
       # an incomplete record is left untouched in the buffer (so the result does not depend on read boundaries)
       ("C18+C04:whole_records_consumed_in_order",
        "exists|n: nat| #[trigger] n_ok(old(network_buffer)@, n) && final(network_buffer)@ == old(network_buffer)@.skip(consumed(old(network_buffer)@, n) as int) "
        "&& final(self).cipher.dec_inputs() == old(self).cipher.dec_inputs() + bodies(old(network_buffer)@, n)"),
       ("C18+C04:none_means_no_complete_record_left", "r matches Ok(None) ==> !rec_complete(final(network_buffer)@)"),
       ("C04:consumes_from_the_front_of_the_buffer_only", "final(network_buffer).stream() =~= old(network_buffer).stream()"),
       ("C18:state_frame", "final(self).parser.state is ReadHeader && final(self).parser.max_msg_size == old(self).parser.max_msg_size"),
     ],
     extra=[("R8", "network_buffer.as_ref().get_u16()", "verif_peek_u16(network_buffer)", 1),
            ("R6", "self.cipher.decrypt(&encrypted_frame)", "self.cipher.decrypt(encrypted_frame.as_slice())", 1),
            ("R6", "self.decrypted_buffer.extend_from_slice(&plaintext)", "self.decrypted_buffer.extend_from_slice(plaintext.as_slice())", 1)],
     loops={0: {
       "invariant": [
         "self.parser.state is ReadHeader", "self.parser.max_msg_size == old(self).parser.max_msg_size",
         ("C04:loop_stream", "network_buffer.stream() =~= old(network_buffer).stream()"),
         ("C18:loop_records", "n_ok(old(network_buffer)@, vn) && consumed(old(network_buffer)@, vn) <= old(network_buffer)@.len() "
                              "&& network_buffer@ == old(network_buffer)@.skip(consumed(old(network_buffer)@, vn) as int) "
                              "&& self.cipher.dec_inputs() == old(self).cipher.dec_inputs() + bodies(old(network_buffer)@, vn)"),
       ],
       "decreases": "network_buffer@.len()"}},
     hints=[("n", "@fn_start", 0, "", "let ghost mut vn: nat = 0; proof { assert(old(network_buffer)@.skip(0) =~= old(network_buffer)@); assert(old(self).cipher.dec_inputs() + Seq::<Seq<u8>>::empty() =~= old(self).cipher.dec_inputs()); }"),
            ("rec", "re:network_buffer\\.advance\\(2\\);", 0, "before",
             "proof { lemma_records_snoc(old(network_buffer)@, vn); }\nlet ghost nb0 = network_buffer@; let ghost di0 = self.cipher.dec_inputs(); let ghost bd = bodies(old(network_buffer)@, vn);"),
            ("dec", "re:let plaintext = self\\.cipher\\.decrypt\\(", 0, "before",
             "proof { assert(encrypted_frame@ =~= rec_body(nb0)); assert(network_buffer@ =~= nb0.skip(rec_len(nb0) as int)); "
             "assert(nb0.skip(rec_len(nb0) as int) =~= old(network_buffer)@.skip(consumed(old(network_buffer)@, vn + 1) as int)); "
             "assert((old(self).cipher.dec_inputs() + bd).push(rec_body(nb0)) =~= old(self).cipher.dec_inputs() + bd.push(rec_body(nb0))); "
             "assert(di0.push(encrypted_frame@) == old(self).cipher.dec_inputs() + bodies(old(network_buffer)@, vn + 1)); }"),
            ("inc", "re:self\\.decrypted_buffer\\.extend_from_slice\\(", 0, "before", "proof { vn = vn + 1; }")]),
  lpf_write("write_msg_multipart"),
  lpf_write("write_msg_batch"),
]

FNS = {p.name: p for p in parts if isinstance(p, Fn)}

unit = Unit("framer", ["C01", "C03", "C04", "C07", "C18"], parts, safety_props=["C03", "C07", "C18"],
            notes="NullFramer and LengthPrefixedFramer wrappers")
