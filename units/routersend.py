"""U-routersend: the payload branch of ROUTER's frame-by-frame send (socket/router_socket.rs `send`, the `if let Some(active_info) = ..`
block, extracted as a region): what happens to a payload frame once the identity frame has selected a connection.

Contract from the property text (C02: a multipart message is delivered as exactly the frames that were sent ... never truncated):
the frames of the message in progress go to the connection the identity frame selected, and the fragmented send is CLOSED only when
the frame just handed to the connection ends a message (no MORE) or the connection is gone.  The last clause is a KNOWN FINDING: when the
connection refuses a payload frame that carries MORE (SNDTIMEO 0 / timeout at the high-water mark) the send in progress is dropped
although the earlier frames of the message are already on their way -- the peer is left with a dangling partial message that the
frames of the next message are appended to (witness/c02_router_frame_by_frame_under_hwm.rs).
"""
import re
from vlib.vx import Fn, Item, Raw, Region, Scan
from vlib.runner import Unit

RS = "core/src/socket/router_socket.rs"

GLUE = """
pub struct ConnRef { pub id: usize }
pub struct RouterSocket {
  pub current_send_target: Option<String>,     // R6t: TokioMutex<Option<ActiveFragmentedSend>>: the target uri of the send in progress
  pub handed: Ghost<Seq<(Seq<char>, Msg)>>,    // ghost: (uri, frame) of every frame a connection accepted, in order
  pub found: Ghost<bool>,                      // ghost: whether the last connection lookup found the target
}
impl RouterSocket {
  // R8: the block that looks the connection up in core_state.endpoints
  #[verifier::external_body]
  pub fn verif_lookup_conn(&mut self, uri: &String) -> (r: Option<ConnRef>)
    ensures final(self).current_send_target == old(self).current_send_target, final(self).handed == old(self).handed, final(self).found@ == (r is Some)
  { unimplemented!() }
  // R8: conn_iface.send_message(msg).await on the connection looked up for `uri`
  #[verifier::external_body]
  pub async fn verif_conn_send(&mut self, c: &ConnRef, uri: &String, msg: Msg) -> (r: Result<(), ZmqError>)
    ensures final(self).current_send_target == old(self).current_send_target, final(self).found == old(self).found,
      r is Ok ==> final(self).handed@ == old(self).handed@.push((uri@, msg)), r is Err ==> final(self).handed@ == old(self).handed@
  { unimplemented!() }
}
// ZmqError::HostUnreachable carries a String in the real crate; the common prelude's variant takes a &'static str
"""

INVALID = ("R2", re.compile(r'ZmqError::HostUnreachable\(\s*"([^"]*)"\.into\(\)\s*,?\s*\)', re.S), r'ZmqError::HostUnreachable("\1")', "*", "pre")

parts = [
  Raw("prelude/core.rs"),
  Raw("prelude/std.rs"),
  Raw("prelude/bytes.rs"),
  Raw("prelude/msg.rs"),
  Raw(text=GLUE, label="routersend-glue"),
  Region(RS, "router_payload_frame", "send", r"if let Some\(active_info\) = &\*current_send_target_guard \{", r"\} else \{\s*\n\s*if !msg\.is_more\(\) \{\s*\n\s*drop\(current_send_target_guard\);",
         sig="async fn router_payload_frame(&mut self, msg: Msg, router_mandatory_opt: bool, active_target: String) -> (r: Result<(), ZmqError>)",
         expr=True, impl=r"impl\s+ISocket\s+for\s+RouterSocket\b", emit_impl="impl RouterSocket",
         # R11: dropping the future at an await must not leave the send closed while the message on the connection is still open
         await_inv=[("C02+C09:cancel_at_any_await_never_leaves_the_send_closed_with_a_partial_message_on_the_connection",
                     "self.current_send_target is None ==> !self.handed@.last().1.flags.more")],
         requires=["old(self).current_send_target matches Some(t) && t@ == active_target@",
                   "old(self).handed@.len() > 0 && old(self).handed@.last().1.flags.more && old(self).handed@.last().0 == active_target@"],   # a message is in progress on that connection
         ensures=[
           ("C02+C11:a_payload_frame_goes_to_the_connection_the_identity_frame_selected",
            "final(self).handed@ == old(self).handed@ || final(self).handed@ == old(self).handed@.push((active_target@, msg))"),
           ("C02+C11:the_last_frame_closes_the_send_in_progress_so_the_next_identity_frame_is_looked_up_afresh", "!msg.flags.more ==> final(self).current_send_target is None"),
           ("C02:an_accepted_frame_with_MORE_keeps_the_send_in_progress",
            "msg.flags.more && final(self).handed@.len() > old(self).handed@.len() ==> final(self).current_send_target == old(self).current_send_target"),
           # KNOWN FINDING: a refused MORE frame closes the send in progress and leaves the partial message on the connection
           ("C02:KF_the_send_in_progress_is_closed_only_when_the_message_on_the_connection_is_complete_or_the_connection_is_gone",
            "final(self).current_send_target is None && final(self).found@ ==> !final(self).handed@.last().1.flags.more"),
         ],
         extra=[
                ("R8", "active_info.target_endpoint_uri.clone()", "active_target.clone()", 1),
                ("R6t", re.compile(r"\n\s*drop\(current_send_target_guard\);"), "", 1),
                ("R8", re.compile(r"let conn_iface_for_payload: Option<Arc<dyn ISocketConnection>> = \{.*?\n      \};", re.S), "let conn_iface_for_payload: Option<ConnRef> = self.verif_lookup_conn(&target_uri_for_payload);", 1),
                ("R6t", re.compile(r"let mut (\w+) = self\.current_send_target\.lock\(\)\.await;\s*\n\s*\*\1 = None;"), "self.current_send_target = None;", "+"),
                ("R8", "conn_iface.send_message(msg).await", "self.verif_conn_send(&conn_iface, &target_uri_for_payload, msg).await", 1)]),
]

FNS = {p.name: p for p in parts if isinstance(p, Fn)}
unit = Unit("routersend", ["C02", "C09", "C11"], parts, safety_props=["C02"], notes="ROUTER frame-by-frame send: the payload branch")
