"""U-dealersend: DealerSocket::send (socket/dealer_socket.rs), the frame-by-frame send transaction of DEALER: frames sent with MORE
are buffered in `current_send_transaction` (a tokio::sync::Mutex) and the final frame hands the whole message to the router path.

Contracts from the property texts:
  C02  the message handed on is exactly the buffered frames followed by the final frame, in order (contiguous, nothing dropped);
       a message with more frames than the container supports is refused with an error, never a panic (FrameBatch::push
       precondition len < 255 must be discharged at every push);
  C09  (await-point rule R11) a future can be dropped only at an `.await`: at EVERY await of send() the transaction is either exactly as
       this call found it (nothing happened yet) or closed (Idle) -- never half-consumed, so a cancelled send() cannot leave the DEALER
       in a state that makes the next valid call wait for a completion signal nobody will send.
Lock model: the tokio mutex is held from `lock().await` to `drop(guard)` / end of scope and every access goes through the guard, so
while held the state is only changed by this call (exact); rewrites R6t below.
"""
import re
from vlib.vx import Fn, Item, Raw, Scan
from vlib.runner import Unit

DS = "core/src/socket/dealer_socket.rs"
IMPL = r"impl\s+ISocket\s+for\s+DealerSocket\b"

GLUE = """
use std::sync::Arc;
#[verifier::external_body]
pub struct Notify { x: u8 }
impl Notify {
  #[verifier::external_body] pub fn new() -> Notify { unimplemented!() }
  #[verifier::external_body] pub fn notify_waiters(&self) { unimplemented!() }
}
#[verifier::external_body]
pub struct CoreRef { x: u8 }
impl CoreRef { #[verifier::external_body] pub fn is_running(&self) -> bool { unimplemented!() } }
pub struct TxGuard { pub x: u8 }
pub struct DealerSocket {
  pub core: CoreRef,
  pub tx: DealerSendTransaction,          // R6t: current_send_transaction: TokioMutex<DealerSendTransaction>
  pub tx_held: Ghost<bool>,               // ghost: this call holds the transaction mutex
  pub handed_on: Ghost<Seq<Seq<Msg>>>,    // ghost: application-level messages handed to the router path (send_logical_message), in order
}
pub open spec fn tx_parts(t: DealerSendTransaction) -> Seq<Msg> { match t { DealerSendTransaction::Idle => Seq::<Msg>::empty(), DealerSendTransaction::Buffering { parts, .. } => parts@ } }
impl DealerSocket {
  // R6t: `self.current_send_transaction.lock().await` (other calls may have run while we waited: the state found is arbitrary,
  // but everything this call has done so far is nothing)
  #[verifier::external_body]
  pub async fn verif_tx_lock(&mut self) -> (g: TxGuard)
    requires !old(self).tx_held@
    ensures final(self).tx_held@, final(self).tx == old(self).tx, final(self).handed_on == old(self).handed_on, final(self).core == old(self).core
  { unimplemented!() }
  // R6t: drop(guard)
  pub fn verif_tx_unlock(&mut self, g: TxGuard)
    requires old(self).tx_held@
    ensures !final(self).tx_held@, final(self).tx == old(self).tx, final(self).handed_on == old(self).handed_on, final(self).core == old(self).core
  { proof { self.tx_held = Ghost(false); } }
  // MORE normalisation + automatic delimiter (framing unit / iter_mut().enumerate() loop: outside this unit): signature only,
  // the ghost `app_view` remembers which application frames the wire batch was built from
  #[verifier::external_body]
  pub fn prepare_full_multipart_send_sequence(&self, frames: FrameBatch) -> (r: WireBatch)
    ensures r.app@ == frames@
  { unimplemented!() }
  #[verifier::external_body]
  pub async fn send_logical_message(&mut self, zmtp_wire_frames: WireBatch) -> (r: Result<(), ZmqError>)
    ensures final(self).tx == old(self).tx, final(self).tx_held == old(self).tx_held, final(self).core == old(self).core,
      final(self).handed_on@ == old(self).handed_on@.push(zmtp_wire_frames.app@)
  { unimplemented!() }
}
// the wire form of one application message (FrameBatch after framing), with the ghost record of the application frames
pub struct WireBatch { pub fb: FrameBatch, pub app: Ghost<Seq<Msg>> }
"""

INVALID = ("R2", re.compile(r'ZmqError::InvalidState\(\s*"([^"]*)"\.into\(\)\s*\)'), r'ZmqError::InvalidState("\1")', "*", "pre")
R6T = [
  INVALID,
  ("R6t", "let mut transaction_guard = self.current_send_transaction.lock().await;", "let transaction_guard = self.verif_tx_lock().await;", 1),
  ("R6t", re.compile(r"\*self\.current_send_transaction\.lock\(\)\.await\s*=\s*([^;]*);"), r"{ let vx_g = self.verif_tx_lock().await; self.tx = \1; self.verif_tx_unlock(vx_g); }", "*"),
  ("R6t", re.compile(r"drop\(transaction_guard\);"), "self.verif_tx_unlock(transaction_guard);", "+"),
  ("R6t", re.compile(r"\*transaction_guard\s*=\s*"), "self.tx = ", "*"),
  ("R6t", re.compile(r"&mut \*transaction_guard"), "&mut self.tx", "*"),
]
# C09: what every cancellation point (await) of send() must leave behind
AWAIT = [("C09:cancel_at_any_await_leaves_the_send_transaction_untouched_or_closed",
          "self.tx == old(self).tx || self.tx is Idle")]

parts = [
  Raw("prelude/core.rs"),
  Raw("prelude/std.rs"),
  Raw("prelude/bytes.rs"),
  Raw("prelude/msg.rs"),
  Raw("prelude/framebatch.rs"),
  Raw(text="pub struct PartsDummy { pub x: u8 }\n", label="dealersend-pre"),
  Item(DS, "const", "MAX_DEALER_SEND_BUFFER_PARTS"),
  Item(DS, "enum", "DealerSendTransaction", keep_derive=()),
  Raw(text=GLUE, label="dealersend-glue"),
  Fn(DS, "send", impl=IMPL, emit_impl="impl DealerSocket", sig_sub=[("&self", "&mut self")], await_inv=AWAIT,
     # state invariant of the transaction: the buffered parts leave room for the final frame and the automatic delimiter
     requires=["!old(self).tx_held@", "tx_parts(old(self).tx).len() <= MAX_DEALER_SEND_BUFFER_PARTS"],
     hints=[("C02:send_buffer_limit_fits_the_frame_container", "@fn_start", 0, "", "proof { assert(MAX_DEALER_SEND_BUFFER_PARTS + 2 <= 255); }")],
     ensures=[
       ("C02:buffered_parts_leave_room_for_final_frame_and_delimiter", "tx_parts(final(self).tx).len() <= MAX_DEALER_SEND_BUFFER_PARTS"),
       ("C02:more_frame_is_buffered_in_order", "msg.flags.more && r is Ok ==> tx_parts(final(self).tx) =~= tx_parts(old(self).tx).push(msg) && final(self).handed_on == old(self).handed_on"),
       ("C02:final_frame_hands_on_exactly_the_buffered_frames_plus_itself",
        "!msg.flags.more && final(self).handed_on@.len() > old(self).handed_on@.len() ==> final(self).handed_on@ == old(self).handed_on@.push(tx_parts(old(self).tx).push(msg))"),
       ("C02+C09:final_frame_closes_the_transaction", "!msg.flags.more && final(self).handed_on@.len() > old(self).handed_on@.len() ==> final(self).tx is Idle"),
       ("C02:refused_frame_buffers_nothing", "r is Err ==> final(self).handed_on@.len() <= old(self).handed_on@.len() + 1 && (msg.flags.more ==> final(self).handed_on == old(self).handed_on && (final(self).tx == old(self).tx || final(self).tx is Idle))"),
     ],
     extra=R6T),
  Scan(DS, "send", r"current_send_transaction(?!\.lock\(\)\.await)", 0, impl=IMPL, why="every access to the transaction goes through the tokio mutex (`.lock().await`), which the rewrites R6t model"),
]

FNS = {p.name: p for p in parts if isinstance(p, Fn)}
unit = Unit("dealersend", ["C02", "C09"], parts, safety_props=["C02"], notes="DEALER frame-by-frame send transaction")
