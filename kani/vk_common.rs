// Shared by every harness module. Under Kani, `vk_any` is `kani::any`; under a plain `cargo test`
// (replay of a CBMC counterexample against the real code) values are read, in the same order, from
// the JSON list in $VK_REPLAY ([[bytes of 1st any()], [bytes of 2nd any()], ...], little endian).
#[allow(dead_code)]
pub(crate) fn vk_format(_a: core::fmt::Arguments<'_>) -> String {
  String::new()
}

// Instant::now() calls clock_gettime, which Kani cannot model: a fixed instant stands in (Kani runs only)
#[cfg(kani)]
#[allow(dead_code)]
pub(crate) fn vk_fixed_now() -> std::time::Instant {
  unsafe { core::mem::transmute::<[u64; 2], std::time::Instant>([5, 7]) }
}

#[cfg(kani)]
#[allow(dead_code)]
pub(crate) fn vk_any<T: kani::Arbitrary>() -> T {
  kani::any()
}

#[cfg(kani)]
#[allow(dead_code)]
pub(crate) fn vk_assume(c: bool) {
  kani::assume(c)
}

#[cfg(not(kani))]
pub(crate) trait VkDecode: Sized {
  fn vk_decode(src: &mut std::collections::VecDeque<Vec<u8>>) -> Self;
}

#[cfg(not(kani))]
macro_rules! vk_int {
  ($($t:ty),*) => {$(
    impl VkDecode for $t {
      fn vk_decode(src: &mut std::collections::VecDeque<Vec<u8>>) -> Self {
        let v = src.pop_front().expect("VK_REPLAY exhausted");
        let mut b = [0u8; core::mem::size_of::<$t>()];
        for (i, x) in v.iter().enumerate().take(b.len()) { b[i] = *x; }
        <$t>::from_le_bytes(b)
      }
    }
  )*};
}
#[cfg(not(kani))]
vk_int!(u8, u16, u32, u64, u128, usize, i8, i16, i32, i64, i128, isize);

#[cfg(not(kani))]
impl VkDecode for bool {
  fn vk_decode(src: &mut std::collections::VecDeque<Vec<u8>>) -> Self {
    let v = src.pop_front().expect("VK_REPLAY exhausted");
    v.first().copied().unwrap_or(0) != 0
  }
}

#[cfg(not(kani))]
impl<T: VkDecode, const N: usize> VkDecode for [T; N] {
  fn vk_decode(src: &mut std::collections::VecDeque<Vec<u8>>) -> Self {
    core::array::from_fn(|_| T::vk_decode(src))
  }
}

#[cfg(not(kani))]
thread_local! {
  static VK_SRC: std::cell::RefCell<Option<std::collections::VecDeque<Vec<u8>>>> = const { std::cell::RefCell::new(None) };
}

#[cfg(not(kani))]
#[allow(dead_code)]
pub(crate) fn vk_any<T: VkDecode>() -> T {
  VK_SRC.with(|s| {
    let mut s = s.borrow_mut();
    if s.is_none() {
      let txt = std::env::var("VK_REPLAY").expect("set VK_REPLAY to the JSON list of concrete values");
      let mut out = std::collections::VecDeque::new();
      // minimal parser for [[1,2],[3]]
      let mut cur: Option<Vec<u8>> = None;
      let mut num = String::new();
      let mut depth = 0;
      for ch in txt.chars() {
        match ch {
          '[' => {
            depth += 1;
            if depth == 2 {
              cur = Some(Vec::new());
            }
          }
          ']' => {
            if depth == 2 {
              if !num.is_empty() {
                cur.as_mut().unwrap().push(num.parse::<u16>().unwrap() as u8);
                num.clear();
              }
              out.push_back(cur.take().unwrap());
            }
            depth -= 1;
          }
          ',' => {
            if depth == 2 && !num.is_empty() {
              cur.as_mut().unwrap().push(num.parse::<u16>().unwrap() as u8);
              num.clear();
            }
          }
          c if c.is_ascii_digit() => num.push(c),
          _ => {}
        }
      }
      *s = Some(out);
    }
    T::vk_decode(s.as_mut().unwrap())
  })
}

/// In replay mode a violated assumption means the recorded values do not belong to this harness.
#[cfg(not(kani))]
#[allow(dead_code)]
pub(crate) fn vk_assume(c: bool) {
  if !c {
    eprintln!("VK_REPLAY: assumption not met by the recorded values -- replay is void");
    std::process::exit(3);
  }
}
