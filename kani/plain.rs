// C06 / PLAIN: the server side of PlainMechanism accepts a HELLO only if BOTH credentials equal the configured ones.
// Bounded stand-in (never counted as proved): expected credentials of 0..=1 byte each, token of at most VK_TOK bytes,
// all bytes symbolic.  Independent of how the comparison is written (closures, iterators, helper functions).
const VK_TOK: usize = 10;

// diagnostics only: String::from_utf8_lossy(command_name) feeds error texts (its UTF-8 scanning loop is costly for CBMC)
#[allow(dead_code)]
fn vk_lossy(_v: &[u8]) -> std::borrow::Cow<'_, str> {
  std::borrow::Cow::Borrowed("")
}

fn vk_expected_hello(tok: &[u8]) -> Option<(&[u8], &[u8])> {
  if tok.len() < 6 || tok[0] != 5 || &tok[1..6] != b"HELLO" {
    return None;
  }
  let body = &tok[6..];
  if body.len() < 2 {
    return None;
  }
  let ul = body[0] as usize;
  if body.len() < 1 + ul + 1 {
    return None;
  }
  let user = &body[1..1 + ul];
  let pl = body[1 + ul] as usize;
  if body.len() < 1 + ul + 1 + pl {
    return None;
  }
  let pass = &body[2 + ul..2 + ul + pl];
  Some((user, pass))
}

#[cfg_attr(kani, kani::proof)]
#[cfg_attr(not(kani), test)]
#[cfg_attr(kani, kani::unwind(12))]
#[cfg_attr(kani, kani::stub(alloc::fmt::format, vk_format))]
#[cfg_attr(kani, kani::stub(alloc::string::String::from_utf8_lossy, vk_lossy))]
fn vk_plain_server_accepts_only_configured_credentials() {
  let eu: [u8; 1] = vk_any();
  let ep: [u8; 1] = vk_any();
  let eul: usize = vk_any();
  let epl: usize = vk_any();
  vk_assume(eul <= 1 && epl <= 1);
  let have_user: bool = vk_any();
  let have_pass: bool = vk_any();
  let tok: [u8; VK_TOK] = vk_any();
  let n: usize = vk_any();
  vk_assume(n <= VK_TOK);

  let mut m = PlainMechanism::new(true);
  m.set_server_expected_credentials(
    if have_user { Some(eu[..eul].to_vec()) } else { None },
    if have_pass { Some(ep[..epl].to_vec()) } else { None },
  );
  assert!(!m.is_complete());
  let r = m.process_token(&tok[..n]);
  if r.is_ok() {
    // accepted: the token must be a well-formed HELLO carrying exactly the configured credentials
    let parsed = vk_expected_hello(&tok[..n]);
    assert!(parsed.is_some(), "accepted something that is not a HELLO");
    let (u, p) = parsed.unwrap();
    assert!(have_user && have_pass, "accepted although no credentials are configured");
    assert!(u == &eu[..eul], "accepted a wrong username");
    assert!(p == &ep[..epl], "accepted a wrong password");
    // and completion is reported only after the WELCOME has been produced
    assert!(!m.is_complete());
  } else {
    assert!(!m.is_complete());
    assert!(m.is_error());
    // a rejected peer cannot recover on the same mechanism
    let r2 = m.process_token(&tok[..n]);
    assert!(r2.is_err());
    assert!(!m.is_complete());
  }
}
