// C05: the ZMTP/2.0 compatibility verdict of ZmtpEngine::validate_v2_compatibility against the ZeroMQ pairing table
// (RFC 28 REQ/REP/DEALER/ROUTER, RFC 29 PUB/SUB/XPUB/XSUB, RFC 30 PUSH/PULL, RFC 31 PAIR), for every local
// socket-type name the engine can carry x every peer byte 0..=255.  Complete: the input space is finite and fully covered.
fn vk_rfc_compatible(own: u8, peer: u8) -> bool {
  // codes: PAIR 0, PUB 1, SUB 2, REQ 3, REP 4, DEALER 5, ROUTER 6, PULL 7, PUSH 8, XPUB 9, XSUB 10
  matches!(
    (own, peer),
    (0, 0)
      | (1, 2) | (2, 1) | (1, 10) | (10, 1) | (9, 2) | (2, 9) | (9, 10) | (10, 9)
      | (3, 4) | (4, 3) | (3, 6) | (6, 3) | (4, 5) | (5, 4) | (5, 6) | (6, 5) | (5, 5) | (6, 6)
      | (7, 8) | (8, 7)
  )
}

#[cfg_attr(kani, kani::proof)]
#[cfg_attr(not(kani), test)]
#[cfg_attr(kani, kani::unwind(12))]
#[cfg_attr(kani, kani::stub(alloc::fmt::format, vk_format))]
#[cfg_attr(kani, kani::stub(std::time::Instant::now, vk_fixed_now))]
fn vk_v2_compat_table() {
  const NAMES: [&str; 11] = ["PAIR", "PUB", "SUB", "REQ", "REP", "DEALER", "ROUTER", "PULL", "PUSH", "XPUB", "XSUB"];
  let own: u8 = vk_any();
  vk_assume(own < 11);
  let peer: u8 = vk_any();
  let mut cfg = crate::socket::options::ZmtpEngineConfig::default();
  cfg.socket_type_name = NAMES[own as usize].to_string();
  let e = ZmtpEngine::new(false, std::sync::Arc::new(cfg));
  let r = e.validate_v2_compatibility(peer);
  assert!(r.is_ok() == vk_rfc_compatible(own, peer), "v2 verdict differs from the ZeroMQ pairing table");
}
