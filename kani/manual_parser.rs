// Kani harnesses for core/src/protocol/zmtp/manual_parser.rs (included into the real module under cfg(kani)).
// The assertions are the executable form of the Verus contracts of unit `dec` (C03/C07).

struct VkRef {
  hdr_complete: bool,
  hl: usize,
  body: u64,
  oversize: bool,
}

fn vk_ref(buf: &[u8], max: i64) -> VkRef {
  if buf.is_empty() {
    return VkRef { hdr_complete: false, hl: 0, body: 0, oversize: false };
  }
  let long = buf[0] & 2 != 0;
  let hl = if long { 9 } else { 2 };
  if buf.len() < hl {
    return VkRef { hdr_complete: false, hl, body: 0, oversize: false };
  }
  let body = if long {
    let mut v: u64 = 0;
    let mut i = 1;
    while i < 9 {
      v = (v << 8) | buf[i] as u64;
      i += 1;
    }
    v
  } else {
    buf[1] as u64
  };
  VkRef { hdr_complete: true, hl, body, oversize: max >= 0 && body > max as u64 }
}

/// complete over all headers (<= 9 bytes) x all limits: no panic, Err iff oversize (or the total length is
/// not representable), Some(total) iff header complete.
#[cfg_attr(kani, kani::proof)]
#[cfg_attr(not(kani), test)]
#[cfg_attr(kani, kani::unwind(10))]
#[cfg_attr(kani, kani::stub(alloc::fmt::format, vk_format))]
fn vk_peek_frame_len() {
  let hdr: [u8; 9] = vk_any();
  let n: usize = vk_any();
  vk_assume(n <= 9);
  let max: i64 = vk_any();
  let p = ZmtpManualParser::new(max);
  let r = p.peek_frame_len(&hdr[..n]);
  let rf = vk_ref(&hdr[..n], max);
  let total = rf.hl as u128 + rf.body as u128;
  let unrepresentable = rf.hdr_complete && total > usize::MAX as u128;
  assert!(r.is_err() == (rf.oversize || unrepresentable));
  match r {
    Ok(Some(t)) => {
      assert!(rf.hdr_complete);
      assert!(t as u128 == total);
    }
    Ok(None) => assert!(!rf.hdr_complete),
    Err(_) => {}
  }
}

// NOTE: harnesses for decode_frame_from_slice / decode_frame_from_bytes / decode_from_buffer were tried
// (10-12 symbolic bytes, and the long-header-only path with 9 bytes): every path that can construct a
// `bytes::Bytes` (vtable drop glue, Vec allocation) makes CBMC 6.11 exceed 400-1500 s, so they are not kept.
// Those three functions are decided by Verus alone (unit `dec`); peek_frame_len above shares their header logic.
