// Harnesses for core/src/security/framer/mod.rs (C18 record layer).
// vk_lpf_record_prefix: executable form of obligation LengthPrefixedFramer::write_msg_*.record_length_prefix_matches_ciphertext
// with the pass-through cipher.  CBMC cannot explore 64 KiB allocations, so under Kani the size is bounded (<= 8);
// for replay any size can be supplied through VK_REPLAY (e.g. [[112,17,1,0]] = 70000 bytes).
#[cfg_attr(kani, kani::proof)]
#[cfg_attr(not(kani), test)]
#[cfg_attr(kani, kani::unwind(12))]
#[cfg_attr(kani, kani::stub(alloc::fmt::format, vk_format))]
fn vk_lpf_record_prefix() {
  let size: u32 = vk_any();
  #[cfg(kani)]
  vk_assume(size <= 8);
  let use_batch: bool = vk_any();
  let cipher = Box::new(crate::security::cipher::PassThroughDataCipher::default());
  let mut f = LengthPrefixedFramer::new(cipher, -1, 4, 1024);
  let msg = Msg::from_vec(vec![0xabu8; size as usize]);
  let mut fb = FrameBatch::new();
  fb.push(msg);
  let r = if use_batch { f.write_msg_batch(&[fb]) } else { f.write_msg_multipart(fb) };
  match r {
    Ok(out) => {
      assert!(out.len() >= 2);
      let announced = u16::from_be_bytes([out[0], out[1]]) as usize;
      assert!(announced == out.len() - 2, "record announces {} bytes but carries {}", announced, out.len() - 2);
    }
    Err(_) => {} // refused with an error at the sender: allowed by C18
  }
}
