// Harnesses for core/src/protocol/zmtp/engine.rs.
//
// vk_engine_more_frames: executable form of obligation ZmtpEngine::process_data.safety (C02/C07): a peer that sends
// n frames with MORE set must never panic the engine; the connection is closed with a PeerError or the (complete)
// message is delivered whole.  CBMC cannot explore the engine (HashMap/SipHash/Arc in the cone: >7 min for 12 bytes),
// so under Kani n is tiny; for replay n comes from VK_REPLAY (e.g. [[0,1,0,0]] = 256).
#[cfg_attr(kani, kani::proof)]
#[cfg_attr(not(kani), test)]
#[cfg_attr(kani, kani::unwind(6))]
#[cfg_attr(kani, kani::stub(alloc::fmt::format, vk_format))]
fn vk_engine_more_frames() {
  let n: u32 = vk_any();
  #[cfg(kani)]
  vk_assume(n <= 2);
  let cfg = std::sync::Arc::new(crate::socket::options::ZmtpEngineConfig::default());
  let mut e = ZmtpEngine::new(false, cfg);
  e.phase = ZmtpPhase::Data;
  e.version = Some(ZmtpVersion::V3);
  let mut wire = Vec::new();
  for _ in 0..n {
    wire.extend_from_slice(&[0x01, 0x00]); // short frame, MORE, empty body
  }
  wire.extend_from_slice(&[0x00, 0x00]); // final frame
  let out = e.on_network_bytes(Bytes::from(wire));
  let mut delivered = 0usize;
  let mut errors = 0usize;
  for a in out.app_actions.iter() {
    match a {
      AppAction::DeliverMessage(b) => {
        delivered += 1;
        assert!(b.len() == n as usize + 1, "delivered truncated: {} of {}", b.len(), n + 1);
      }
      AppAction::PeerError(_) => errors += 1,
      _ => {}
    }
  }
  assert!(delivered + errors >= 1);
  assert!(errors == 0 || e.phase == ZmtpPhase::Closed);
}
