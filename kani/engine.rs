// Harnesses for core/src/protocol/zmtp/engine.rs.
//
// vk_engine_more_frames: executable form of obligation ZmtpEngine::process_data.safety (C02/C07): a peer that sends
// n frames with MORE set must never panic the engine; the connection is closed with a PeerError or the (complete)
// message is delivered whole.  CBMC cannot explore the engine (HashMap/SipHash/Arc in the cone: >7 min for 12 bytes),
// so under Kani n is tiny; for replay n comes from VK_REPLAY (e.g. [[0,1,0,0]] = 256).
#[cfg_attr(kani, kani::proof)]
#[cfg_attr(not(kani), test)]
#[cfg_attr(kani, kani::unwind(6))]
#[cfg_attr(kani, kani::stub(alloc::fmt::format, vk_format))]
fn vk_engine_more_frames() {
  let n: u32 = vk_any();
  #[cfg(kani)]
  vk_assume(n <= 2);
  let cfg = std::sync::Arc::new(crate::socket::options::ZmtpEngineConfig::default());
  let mut e = ZmtpEngine::new(false, cfg);
  e.phase = ZmtpPhase::Data;
  e.version = Some(ZmtpVersion::V3);
  let mut wire = Vec::new();
  for _ in 0..n {
    wire.extend_from_slice(&[0x01, 0x00]); // short frame, MORE, empty body
  }
  wire.extend_from_slice(&[0x00, 0x00]); // final frame
  let out = e.on_network_bytes(Bytes::from(wire));
  let mut delivered = 0usize;
  let mut errors = 0usize;
  for a in out.app_actions.iter() {
    match a {
      AppAction::DeliverMessage(b) => {
        delivered += 1;
        assert!(b.len() == n as usize + 1, "delivered truncated: {} of {}", b.len(), n + 1);
      }
      AppAction::PeerError(_) => errors += 1,
      _ => {}
    }
  }
  assert!(delivered + errors >= 1);
  assert!(errors == 0 || e.phase == ZmtpPhase::Closed);
}

// vk_engine_v2_downgrade: executable form of C06 obligation ZmtpEngine::process_greeting.inv_preserved
// (version == V2 ==> !security_enabled): a listener configured with PLAIN must never report HandshakeComplete
// to a peer that sends a ZMTP/2.0 greeting.  `stype` (peer socket-type byte) and `allow` come from the value source.
#[cfg_attr(kani, kani::proof)]
#[cfg_attr(not(kani), test)]
#[cfg_attr(kani, kani::unwind(6))]
#[cfg_attr(kani, kani::stub(alloc::fmt::format, vk_format))]
fn vk_engine_v2_downgrade() {
  let stype: u8 = vk_any();
  let is_server: bool = vk_any();
  let mut cfg = crate::socket::options::ZmtpEngineConfig::default();
  cfg.socket_type_name = "PULL".to_string();
  cfg.security_enabled = true;
  cfg.use_plain = true;
  cfg.plain_username_for_engine = Some("admin".to_string());
  cfg.plain_password_for_engine = Some("secret".to_string());
  let mut e = ZmtpEngine::new(is_server, std::sync::Arc::new(cfg));
  let _ = e.start();
  // signature, revision 0x01 (ZMTP/2.0), socket type, then an empty anonymous identity frame, then one data frame
  let mut wire = vec![0xFFu8, 0, 0, 0, 0, 0, 0, 0, 0, 0x7F, 0x01, stype, 0x00, 0x00];
  wire.extend_from_slice(&[0x00, 0x03, b'h', b'e', b'y']);
  let out = e.on_network_bytes(Bytes::from(wire));
  for a in out.app_actions.iter() {
    match a {
      AppAction::HandshakeComplete { .. } => panic!("handshake reported complete without PLAIN authentication (peer used ZMTP/2.0)"),
      AppAction::DeliverMessage(_) => panic!("application message delivered from an unauthenticated peer"),
      _ => {}
    }
  }
  assert!(e.phase != ZmtpPhase::Data);
}

// vk_engine_traffic_keeps_alive: executable form of C19 obligation ZmtpEngine::process_data.any_inbound_frame_counts_as_liveness:
// a PING is outstanding, the peer keeps sending data frames, HEARTBEAT_TIMEOUT elapses since the PING:
// the heartbeat logic must not close the connection.
#[cfg_attr(kani, kani::proof)]
#[cfg_attr(not(kani), test)]
#[cfg_attr(kani, kani::unwind(6))]
#[cfg_attr(kani, kani::stub(alloc::fmt::format, vk_format))]
fn vk_engine_traffic_keeps_alive() {
  let extra_ms: u8 = vk_any();
  let mut cfg = crate::socket::options::ZmtpEngineConfig::default();
  cfg.heartbeat_ivl = Some(Duration::from_millis(1000));
  cfg.heartbeat_timeout = Some(Duration::from_millis(1000));
  let mut e = ZmtpEngine::new(false, std::sync::Arc::new(cfg));
  e.phase = ZmtpPhase::Data;
  e.version = Some(ZmtpVersion::V3);
  let t0 = Instant::now();
  e.last_activity_time = t0;
  let out1 = e.on_tick(t0 + Duration::from_millis(1000));
  assert!(out1.net_actions.len() == 1, "PING expected after one idle interval");
  assert!(e.is_waiting_for_pong());
  // the peer is alive: a data frame arrives after the PING (its PONG is still queued behind a large message, say)
  let out2 = e.on_network_bytes(Bytes::from_static(&[0x00, 0x02, b'o', b'k']));
  assert!(out2.app_actions.iter().any(|a| matches!(a, AppAction::DeliverMessage(_))));
  let out3 = e.on_tick(t0 + Duration::from_millis(2000 + extra_ms as u64));
  for a in out3.app_actions.iter() {
    if let AppAction::PeerError(_) = a {
      panic!("heartbeat closed a connection on which traffic is flowing");
    }
  }
  assert!(e.phase == ZmtpPhase::Data);
}
