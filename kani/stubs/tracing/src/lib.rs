//! No-op `tracing` for Kani runs only. rzmq uses only the five level macros; arguments are
//! not evaluated (same as a disabled level in the real crate).
#[macro_export]
macro_rules! trace { ($($t:tt)*) => {{}}; }
#[macro_export]
macro_rules! debug { ($($t:tt)*) => {{}}; }
#[macro_export]
macro_rules! info { ($($t:tt)*) => {{}}; }
#[macro_export]
macro_rules! warn { ($($t:tt)*) => {{}}; }
#[macro_export]
macro_rules! error { ($($t:tt)*) => {{}}; }
