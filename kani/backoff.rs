// C17 back-off law on the real ReconnectState, all (attempts, RECONNECT_IVL, RECONNECT_IVL_MAX) with the option range
// (<= i32::MAX ms): loop-free, full symbolic domain => complete.  Also the counterexample source for unit backoff.
#[cfg_attr(kani, kani::proof)]
#[cfg_attr(not(kani), test)]
#[cfg_attr(kani, kani::unwind(34))]
#[cfg_attr(kani, kani::stub(std::time::Instant::now, vk_fixed_now))]
fn vk_backoff_law() {
  let attempts: u32 = vk_any();
  let base_ms: u32 = vk_any();
  let max_ms: u32 = vk_any();
  vk_assume(base_ms <= i32::MAX as u32 && max_ms <= i32::MAX as u32);
  let base = std::time::Duration::from_millis(base_ms as u64);
  let max = std::time::Duration::from_millis(max_ms as u64);
  let mut st = ReconnectState { current_attempts: attempts, next_attempt_at: None };
  let d = st.on_connection_failure(base, max);
  // reference: base * 2^min(attempts,31), capped by max when max > 0
  let exp = if attempts < 31 { attempts } else { 31 };
  let raw_ms: u128 = (base_ms as u128) << exp;
  let want_ms: u128 = if max_ms > 0 && raw_ms > max_ms as u128 { max_ms as u128 } else { raw_ms };
  assert!(d.as_millis() == want_ms, "delay differs from min(base * 2^min(attempts,31), max)");
  if max_ms > 0 {
    assert!(d <= max, "delay exceeds RECONNECT_IVL_MAX");
  }
  if attempts == 0 {
    assert!(d == if max_ms > 0 && max < base { max } else { base }, "first delay is not RECONNECT_IVL");
  }
  assert!(st.current_attempts == attempts.saturating_add(1));
  assert!(st.next_attempt_at.is_some());
}
