// C06: negotiate_security_mechanism (security/mod.rs) for ALL 20-byte mechanism fields x the configuration flags it reads
// (default feature set: NULL and PLAIN known): a mechanism is returned only if the peer named exactly a locally enabled one,
// NULL only when no security is configured.  Input width is fixed by the protocol (20 bytes): complete, not bounded.
#[cfg_attr(kani, kani::proof)]
#[cfg_attr(not(kani), test)]
#[cfg_attr(kani, kani::unwind(24))]
#[cfg_attr(kani, kani::stub(alloc::fmt::format, vk_format))]
fn vk_negotiate_only_enabled_mechanisms() {
  let field: [u8; 20] = vk_any();
  let security_enabled: bool = vk_any();
  let use_plain: bool = vk_any();
  let is_server: bool = vk_any();
  let mut cfg = crate::socket::options::ZmtpEngineConfig::default();
  cfg.security_enabled = security_enabled;
  cfg.use_plain = use_plain;
  let g = crate::protocol::zmtp::ZmtpGreeting { version: (3, 0), mechanism: field, as_server: !is_server };
  let r = negotiate_security_mechanism(is_server, &cfg, &g, 0);
  let is_null = &field == NullMechanism::NAME_BYTES;
  let is_plain = &field == PlainMechanism::NAME_BYTES;
  match r {
    Ok(m) => {
      if m.name() == "NULL" {
        assert!(is_null && !security_enabled, "NULL accepted although a security mechanism is configured (or the peer did not name NULL)");
      } else {
        assert!(m.name() == "PLAIN");
        assert!(is_plain && use_plain, "PLAIN accepted although it is not enabled locally (or the peer did not name PLAIN)");
      }
    }
    Err(_) => {
      // refused: either an unknown name or a known but locally disabled mechanism
      assert!(!(is_null && !security_enabled));
      assert!(!(is_plain && use_plain));
    }
  }
}
