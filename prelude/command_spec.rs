// ===== prelude/command_spec.rs : PING/PONG command format as spec functions (shared by units command and engine) =====
pub open spec fn starts_with(s: Seq<u8>, p: Seq<u8>) -> bool { p.is_prefix_of(s) }
pub open spec fn PING_TAG() -> Seq<u8> { seq![4u8, 0x50, 0x49, 0x4e, 0x47] }
pub open spec fn PONG_TAG() -> Seq<u8> { seq![4u8, 0x50, 0x4f, 0x4e, 0x47] }
pub open spec fn is_ping(m: Msg) -> bool { m.flags.command && !m.flags.more && m.data is Some && starts_with(payload(m), PING_TAG()) && payload(m).len() >= 7 }
pub open spec fn is_pong(m: Msg) -> bool { m.flags.command && !m.flags.more && m.data is Some && !is_ping(m) && starts_with(payload(m), PONG_TAG()) && payload(m).len() >= 5 }
pub open spec fn ping_ctx(m: Msg) -> Seq<u8> { payload(m).subrange(7, payload(m).len() as int) }
pub open spec fn pong_body(ctx: Seq<u8>) -> Seq<u8> { PONG_TAG() + ctx }
