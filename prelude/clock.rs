// ===== prelude/clock.rs : ghost clock for timeout reasoning (TRUSTED stand-in for tokio::time) =====
// ---- ghost clock: `now` never goes back; reads() = every value returned by now(); timers() = for every timer armed, the latest
// instant at which it can fire (sleep_until(dl): dl; sleep(d): arming instant + d, where the arming instant is whatever the
// clock shows when the statement runs)
pub struct Clock { pub now: Ghost<nat>, pub reads: Ghost<Seq<nat>>, pub timers: Ghost<Seq<nat>> }
impl Clock {
  #[verifier::external_body]
  pub fn verif_now(&mut self) -> (r: Instant)
    ensures r.ns() >= old(self).now@, final(self).now@ == r.ns(), final(self).reads@ == old(self).reads@.push(r.ns()), final(self).timers@ == old(self).timers@,
      r.ns() <= 4_611_686_018_427_387_903nat * 1_000_000_000,
  { unimplemented!() }
  #[verifier::external_body]
  pub async fn verif_sleep_until(&mut self, dl: Instant) -> (r: ())
    ensures final(self).now@ >= old(self).now@, final(self).now@ >= dl.ns(), final(self).reads@ == old(self).reads@, final(self).timers@ == old(self).timers@.push(dl.ns()),
  { unimplemented!() }
  #[verifier::external_body]
  pub async fn verif_sleep(&mut self, d: Duration) -> (r: ())
    ensures final(self).now@ >= old(self).now@ + d.ns(), final(self).reads@ == old(self).reads@,
      final(self).timers@.len() == old(self).timers@.len() + 1, final(self).timers@.drop_last() == old(self).timers@, final(self).timers@.last() >= old(self).now@ + d.ns(),
  { unimplemented!() }
  // tokio::time::timeout(d, fut): a relative timer, armed when the statement runs (whatever the clock shows then); Err(Elapsed) only once it has fired
  #[verifier::external_body]
  pub async fn verif_timeout(&mut self, d: Duration) -> (r: Result<(), ClockElapsed>)
    ensures final(self).now@ >= old(self).now@, final(self).reads@ == old(self).reads@,
      final(self).timers@.len() == old(self).timers@.len() + 1, final(self).timers@.drop_last() == old(self).timers@, final(self).timers@.last() >= old(self).now@ + d.ns(),
      r is Err ==> final(self).now@ >= old(self).now@ + d.ns(),
  { unimplemented!() }
  // tokio::time::timeout_at(deadline, fut): an absolute timer
  #[verifier::external_body]
  pub async fn verif_timeout_at(&mut self, dl: Instant) -> (r: Result<(), ClockElapsed>)
    ensures final(self).now@ >= old(self).now@, final(self).reads@ == old(self).reads@, final(self).timers@ == old(self).timers@.push(dl.ns()),
      r is Err ==> final(self).now@ >= dl.ns(),
  { unimplemented!() }
}
pub struct ClockElapsed { pub x: u8 }
