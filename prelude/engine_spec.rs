// ===== prelude/engine_spec.rs : spec vocabulary for ZmtpEngine contracts (spec only) =====
pub open spec fn all_more(s: Seq<Msg>) -> bool { forall|i: int| 0 <= i < s.len() ==> (#[trigger] s[i]).flags.more }

// a complete logical message: non-empty, MORE on all but the last frame
pub open spec fn complete_msg(s: Seq<Msg>) -> bool { s.len() > 0 && all_more(s.drop_last()) && !s.last().flags.more }

pub open spec fn is_prefix(a: Seq<Msg>, b: Seq<Msg>) -> bool { a.len() <= b.len() && b.subrange(0, a.len() as int) =~= a }

pub open spec fn data_frames(fs: Seq<Msg>) -> Seq<Msg> { fs.filter(|m: Msg| !m.flags.command) }

pub open spec fn is_delivery(a: AppAction) -> bool { a is DeliverMessage }
pub open spec fn is_hs_complete(a: AppAction) -> bool { a is HandshakeComplete }
pub open spec fn is_peer_error(a: AppAction) -> bool { a is PeerError }

// payload frames of all DeliverMessage actions, concatenated in order
pub open spec fn delivered_frames(acts: Seq<AppAction>) -> Seq<Msg>
  decreases acts.len()
{
  if acts.len() == 0 { Seq::<Msg>::empty() } else {
    delivered_frames(acts.drop_last()) + (match acts.last() { AppAction::DeliverMessage(b) => b@, _ => Seq::<Msg>::empty() })
  }
}

pub open spec fn deliveries_complete(acts: Seq<AppAction>) -> bool {
  forall|i: int| 0 <= i < acts.len() ==> ((#[trigger] acts[i]) matches AppAction::DeliverMessage(b) ==> complete_msg(b@))
}

pub open spec fn has_delivery_or_hs(acts: Seq<AppAction>) -> bool {
  exists|i: int| 0 <= i < acts.len() && (is_delivery(#[trigger] acts[i]) || is_hs_complete(acts[i]))
}

// bytes of all Send actions, in order
pub open spec fn sends(acts: Seq<NetAction>) -> Seq<Seq<u8>>
  decreases acts.len()
{
  if acts.len() == 0 { Seq::<Seq<u8>>::empty() } else {
    match acts.last() { NetAction::Send { data, zc_eligible } => sends(acts.drop_last()).push(data@), _ => sends(acts.drop_last()) }
  }
}

// the PONG replies owed for a run of received frames (one per PING, same context bytes, in order)
pub open spec fn pong_replies(fs: Seq<Msg>) -> Seq<Seq<u8>>
  decreases fs.len()
{
  if fs.len() == 0 { Seq::<Seq<u8>>::empty() } else {
    if is_ping(fs.last()) { pong_replies(fs.drop_last()).push(pong_wire(ping_ctx(fs.last()))) } else { pong_replies(fs.drop_last()) }
  }
}

pub open spec fn any_pong(fs: Seq<Msg>) -> bool { exists|i: int| 0 <= i < fs.len() && is_pong(#[trigger] fs[i]) }

pub broadcast proof fn lemma_delivered_push(acts: Seq<AppAction>, a: AppAction)
  ensures
    #[trigger] delivered_frames(acts.push(a)) == delivered_frames(acts) + (match a { AppAction::DeliverMessage(b) => b@, _ => Seq::<Msg>::empty() }),
    deliveries_complete(acts) && (a matches AppAction::DeliverMessage(b) ==> complete_msg(b@)) ==> deliveries_complete(acts.push(a)),
{
  assert(acts.push(a).drop_last() =~= acts);
  assert(acts.push(a).last() == a);
  if deliveries_complete(acts) && (a matches AppAction::DeliverMessage(b) ==> complete_msg(b@)) {
    assert forall|i: int| 0 <= i < acts.push(a).len() implies ((#[trigger] acts.push(a)[i]) matches AppAction::DeliverMessage(b) ==> complete_msg(b@)) by {
      if i < acts.len() { assert(acts.push(a)[i] == acts[i]); }
    }
  }
}

pub broadcast proof fn lemma_sends_push(acts: Seq<NetAction>, a: NetAction)
  ensures #[trigger] sends(acts.push(a)) == (match a { NetAction::Send { data, zc_eligible } => sends(acts).push(data@), _ => sends(acts) })
{
  assert(acts.push(a).drop_last() =~= acts);
  assert(acts.push(a).last() == a);
}

pub proof fn lemma_data_frames_push(fs: Seq<Msg>, m: Msg)
  ensures data_frames(fs.push(m)) == (if m.flags.command { data_frames(fs) } else { data_frames(fs).push(m) })
{
  reveal(Seq::filter);
  assert(fs.push(m).drop_last() =~= fs);
}

pub proof fn lemma_pong_replies_push(fs: Seq<Msg>, m: Msg)
  ensures pong_replies(fs.push(m)) == (if is_ping(m) { pong_replies(fs).push(pong_wire(ping_ctx(m))) } else { pong_replies(fs) })
{
  assert(fs.push(m).drop_last() =~= fs);
  assert(fs.push(m).last() == m);
}
