// ===== prelude/zmtp_spec.rs : the wire format of C03 as mathematical spec functions =====
// Taken from the property text (ZMTP 3.x): payloads of 0..255 bytes use the 2-byte short header,
// larger ones the 9-byte long header with a big-endian 64-bit length; flag bits MORE=1 LONG=2 COMMAND=4.
pub open spec fn flags_byte(more: bool, cmd: bool, long: bool) -> u8 {
  ((if more { 1int } else { 0int }) + (if long { 2int } else { 0int }) + (if cmd { 4int } else { 0int })) as u8
}

pub open spec fn enc_frame(more: bool, cmd: bool, p: Seq<u8>) -> Seq<u8> {
  if p.len() <= 255 {
    seq![flags_byte(more, cmd, false), p.len() as u8] + p
  } else {
    seq![flags_byte(more, cmd, true)] + to_be64(p.len()) + p
  }
}

pub open spec fn enc_hdr(more: bool, cmd: bool, n: nat) -> Seq<u8> {
  if n <= 255 { seq![flags_byte(more, cmd, false), n as u8] } else { seq![flags_byte(more, cmd, true)] + to_be64(n) }
}

pub open spec fn enc_msg(m: Msg) -> Seq<u8> { enc_frame(m.flags.more, m.flags.command, payload(m)) }

pub open spec fn enc_all(fs: Seq<Msg>) -> Seq<u8>
  decreases fs.len()
{
  if fs.len() == 0 { Seq::<u8>::empty() } else { enc_all(fs.drop_last()) + enc_msg(fs.last()) }
}

// ---- decoder side, over raw bytes
pub open spec fn bit_long(b: u8) -> bool { (b & 2u8) != 0 }
pub open spec fn bit_more(b: u8) -> bool { (b & 1u8) != 0 }
pub open spec fn bit_cmd(b: u8) -> bool { (b & 4u8) != 0 }

pub open spec fn hdr_len(s: Seq<u8>) -> nat
  recommends s.len() >= 1
{ if bit_long(s[0]) { 9 } else { 2 } }

pub open spec fn hdr_complete(s: Seq<u8>) -> bool { s.len() >= 1 && s.len() >= hdr_len(s) }

pub open spec fn body_len(s: Seq<u8>) -> nat
  recommends hdr_complete(s)
{ if bit_long(s[0]) { be64(s.subrange(1, 9)) } else { s[1] as nat } }

pub open spec fn frame_len(s: Seq<u8>) -> nat
  recommends hdr_complete(s)
{ hdr_len(s) + body_len(s) }

pub open spec fn frame_complete(s: Seq<u8>) -> bool { hdr_complete(s) && s.len() >= frame_len(s) }

// max < 0 means unlimited (ZMQ_MAXMSGSIZE = -1)
pub open spec fn oversize(s: Seq<u8>, max: i64) -> bool { hdr_complete(s) && max >= 0 && body_len(s) > max as nat }

pub open spec fn frame_body(s: Seq<u8>) -> Seq<u8>
  recommends frame_complete(s)
{ s.subrange(hdr_len(s) as int, frame_len(s) as int) }

pub open spec fn frame_rest(s: Seq<u8>) -> Seq<u8>
  recommends frame_complete(s)
{ s.subrange(frame_len(s) as int, s.len() as int) }

// The decoded frame as a value (flags + payload)
pub struct Frame { pub more: bool, pub cmd: bool, pub body: Seq<u8> }

pub open spec fn frame_of(m: Msg) -> Frame { Frame { more: m.flags.more, cmd: m.flags.command, body: payload(m) } }

pub open spec fn first_frame(s: Seq<u8>) -> Frame
  recommends frame_complete(s)
{ Frame { more: bit_more(s[0]), cmd: bit_cmd(s[0]), body: frame_body(s) } }

pub open spec fn enc_f(f: Frame) -> Seq<u8> { enc_frame(f.more, f.cmd, f.body) }

// What one decode step must do, as a relation (old buffer, limit, result kind, decoded frame, new buffer).
//   kind 0 = Ok(None), 1 = Ok(Some(frame)), 2 = Err
pub open spec fn dec_step(old_buf: Seq<u8>, max: i64, kind: int, f: Frame, new_buf: Seq<u8>) -> bool {
  if oversize(old_buf, max) { kind == 2 }
  else if frame_complete(old_buf) { kind == 1 && f == first_frame(old_buf) && new_buf == frame_rest(old_buf) }
  else { kind == 0 && new_buf == old_buf }
}

pub proof fn lemma_flag_bits(more: bool, cmd: bool, long: bool)
  ensures
    bit_more(flags_byte(more, cmd, long)) == more,
    bit_cmd(flags_byte(more, cmd, long)) == cmd,
    bit_long(flags_byte(more, cmd, long)) == long,
{
  assert((0u8 & 1u8) == 0 && (1u8 & 1u8) != 0 && (2u8 & 1u8) == 0 && (3u8 & 1u8) != 0 && (4u8 & 1u8) == 0 && (5u8 & 1u8) != 0 && (6u8 & 1u8) == 0 && (7u8 & 1u8) != 0) by (bit_vector);
  assert((0u8 & 2u8) == 0 && (1u8 & 2u8) == 0 && (2u8 & 2u8) != 0 && (3u8 & 2u8) != 0 && (4u8 & 2u8) == 0 && (5u8 & 2u8) == 0 && (6u8 & 2u8) != 0 && (7u8 & 2u8) != 0) by (bit_vector);
  assert((0u8 & 4u8) == 0 && (1u8 & 4u8) == 0 && (2u8 & 4u8) == 0 && (3u8 & 4u8) == 0 && (4u8 & 4u8) != 0 && (5u8 & 4u8) != 0 && (6u8 & 4u8) != 0 && (7u8 & 4u8) != 0) by (bit_vector);
}

// ---- batches of logical messages (FrameBatch) on the wire: frames in batch order, batches in slice order
pub open spec fn enc_batches(bs: Seq<FrameBatch>) -> Seq<u8>
  decreases bs.len()
{
  if bs.len() == 0 { Seq::<u8>::empty() } else { enc_batches(bs.drop_last()) + enc_all(bs.last()@) }
}

pub open spec fn wire_len(m: Msg) -> nat { if payload(m).len() <= 255 { 2 + payload(m).len() } else { 9 + payload(m).len() } }

pub open spec fn wire_all(fs: Seq<Msg>) -> nat
  decreases fs.len()
{ if fs.len() == 0 { 0 } else { wire_all(fs.drop_last()) + wire_len(fs.last()) } }

pub open spec fn wire_batches(bs: Seq<FrameBatch>) -> nat
  decreases bs.len()
{ if bs.len() == 0 { 0 } else { wire_batches(bs.drop_last()) + wire_all(bs.last()@) } }

pub proof fn lemma_wire_all_prefix(fs: Seq<Msg>, k: int)
  requires 0 <= k <= fs.len()
  ensures wire_all(fs.take(k)) <= wire_all(fs)
  decreases fs.len() - k
{
  if k == fs.len() { assert(fs.take(k) =~= fs); }
  else {
    lemma_wire_all_prefix(fs, k + 1);
    assert(fs.take(k + 1).drop_last() =~= fs.take(k));
  }
}

pub proof fn lemma_wire_batches_prefix(bs: Seq<FrameBatch>, k: int)
  requires 0 <= k <= bs.len()
  ensures wire_batches(bs.take(k)) <= wire_batches(bs)
  decreases bs.len() - k
{
  if k == bs.len() { assert(bs.take(k) =~= bs); }
  else {
    lemma_wire_batches_prefix(bs, k + 1);
    assert(bs.take(k + 1).drop_last() =~= bs.take(k));
  }
}

pub proof fn lemma_bits_or()
  ensures
    0u8 | 1u8 == 1u8, 0u8 | 4u8 == 4u8, 1u8 | 4u8 == 5u8,
    0u8 | 2u8 == 2u8, 1u8 | 2u8 == 3u8, 4u8 | 2u8 == 6u8, 5u8 | 2u8 == 7u8,
{
  assert(0u8 | 1u8 == 1u8 && 0u8 | 4u8 == 4u8 && 1u8 | 4u8 == 5u8 && 0u8 | 2u8 == 2u8 && 1u8 | 2u8 == 3u8 && 4u8 | 2u8 == 6u8 && 5u8 | 2u8 == 7u8) by (bit_vector);
}

pub proof fn lemma_enc_all_snoc(fs: Seq<Msg>, k: int)
  requires 0 <= k < fs.len()
  ensures enc_all(fs.take(k + 1)) == enc_all(fs.take(k)) + enc_msg(fs[k])
{
  assert(fs.take(k + 1).drop_last() =~= fs.take(k));
  assert(fs.take(k + 1).last() == fs[k]);
}

pub proof fn lemma_enc_batches_snoc(bs: Seq<FrameBatch>, k: int)
  requires 0 <= k < bs.len()
  ensures enc_batches(bs.take(k + 1)) == enc_batches(bs.take(k)) + enc_all(bs[k]@)
{
  assert(bs.take(k + 1).drop_last() =~= bs.take(k));
  assert(bs.take(k + 1).last() == bs[k]);
}

pub proof fn lemma_wire_all_snoc(fs: Seq<Msg>, k: int)
  requires 0 <= k < fs.len()
  ensures wire_all(fs.take(k + 1)) == wire_all(fs.take(k)) + wire_len(fs[k])
{
  assert(fs.take(k + 1).drop_last() =~= fs.take(k));
  assert(fs.take(k + 1).last() == fs[k]);
}

pub proof fn lemma_wire_batches_snoc(bs: Seq<FrameBatch>, k: int)
  requires 0 <= k < bs.len()
  ensures wire_batches(bs.take(k + 1)) == wire_batches(bs.take(k)) + wire_all(bs[k]@)
{
  assert(bs.take(k + 1).drop_last() =~= bs.take(k));
  assert(bs.take(k + 1).last() == bs[k]);
}
