// ===== prelude/framebatch.rs : stand-in for rzmq's FrameBatch when it is a *callee* type (TRUSTED) =====
// The real FrameBatch (core/src/message/mod.rs) is verified against exactly this view in unit `framebatch`
// (push/pop/insert/remove/len/index/iteration order).  Here only its abstract view is used.
#[verifier::external_body]
pub struct FrameBatch { v: Vec<Msg> }

impl View for FrameBatch { type V = Seq<Msg>; uninterp spec fn view(&self) -> Seq<Msg>; }

// capacity of the backing VecU8 (xs_foundation): push/insert beyond it panics
pub open spec fn FB_CAP() -> nat { 255 }

impl FrameBatch {
  #[verifier::external_body]
  pub fn new() -> (r: FrameBatch) ensures r@ =~= Seq::<Msg>::empty() { unimplemented!() }
  #[verifier::external_body]
  pub fn with_capacity(capacity: usize) -> (r: FrameBatch)
    requires capacity <= FB_CAP()     // VecU8::with_capacity asserts cap <= 255
    ensures r@ =~= Seq::<Msg>::empty()
  { unimplemented!() }
  #[verifier::external_body]
  pub fn len(&self) -> (r: usize) ensures r == self@.len(), r <= 255 { unimplemented!() }
  #[verifier::external_body]
  pub fn is_empty(&self) -> (r: bool) ensures r == (self@.len() == 0) { unimplemented!() }
  #[verifier::external_body]
  pub fn push(&mut self, msg: Msg)
    requires old(self)@.len() < FB_CAP()
    ensures final(self)@ == old(self)@.push(msg)
  { unimplemented!() }
  #[verifier::external_body]
  pub fn insert(&mut self, index: usize, msg: Msg)
    requires old(self)@.len() < FB_CAP(), index <= old(self)@.len()
    ensures final(self)@ == old(self)@.insert(index as int, msg)
  { unimplemented!() }
  #[verifier::external_body]
  pub fn remove(&mut self, index: usize) -> (r: Msg)
    requires index < old(self)@.len()
    ensures r == old(self)@[index as int], final(self)@ == old(self)@.remove(index as int)
  { unimplemented!() }
  #[verifier::external_body]
  pub fn pop(&mut self) -> (r: Option<Msg>)
    ensures
      old(self)@.len() == 0 ==> r is None && final(self)@ == old(self)@,
      old(self)@.len() > 0 ==> r == Some(old(self)@.last()) && final(self)@ == old(self)@.drop_last(),
  { unimplemented!() }
  #[verifier::external_body]
  pub fn first(&self) -> (r: Option<&Msg>)
    ensures self@.len() == 0 ==> r is None, self@.len() > 0 ==> r == Some(&self@[0])
  { unimplemented!() }
  #[verifier::external_body]
  pub fn last(&self) -> (r: Option<&Msg>)
    ensures self@.len() == 0 ==> r is None, self@.len() > 0 ==> r == Some(&self@.last())
  { unimplemented!() }
  #[verifier::external_body]
  pub fn last_mut(&mut self) -> (r: Option<&mut Msg>)
    ensures
      old(self)@.len() == 0 ==> r is None && final(self)@ == old(self)@,
      old(self)@.len() > 0 ==> (r matches Some(m) && *m == old(self)@.last() && final(self)@ == old(self)@.drop_last().push(*final(m))),
  { unimplemented!() }
  #[verifier::external_body]
  pub fn get(&self, i: usize) -> (r: Option<&Msg>)
    ensures i >= self@.len() ==> r is None, i < self@.len() ==> r == Some(&self@[i as int])
  { unimplemented!() }
  // R6: `batch[i].set_flags(f)` (IndexMut on a user type is outside Verus' subset)
  #[verifier::external_body]
  pub fn verif_set_flags(&mut self, i: usize, flags: MsgFlags)
    requires i < old(self)@.len()
    ensures final(self)@ == old(self)@.update(i as int, Msg { data: old(self)@[i as int].data, flags: flags })
  { unimplemented!() }
  // Extend<Msg> with another batch (the real one pushes frame by frame: capacity precondition on the total)
  #[verifier::external_body]
  pub fn extend(&mut self, other: FrameBatch)
    requires old(self)@.len() + other@.len() <= FB_CAP()
    ensures final(self)@ == old(self)@ + other@
  { unimplemented!() }
  // From<Vec<Msg>>: VecU8::with_capacity(v.len()) panics beyond the capacity
  #[verifier::external_body]
  pub fn from(v: Vec<Msg>) -> (r: FrameBatch)
    requires v@.len() <= FB_CAP()
    ensures r@ == v@
  { unimplemented!() }
  // R8: `for frame in batch` (by value): the frames in index order
  #[verifier::external_body]
  pub fn verif_into_vec(self) -> (r: Vec<Msg>) ensures r@ == self@ { unimplemented!() }
  // iteration glue (rewrite R8): `for m in &batch` visits exactly self@ in index order
  #[verifier::external_body]
  pub fn verif_frames(&self) -> (r: &[Msg]) ensures r@ == self@ { unimplemented!() }
  #[verifier::external_body]
  pub fn clone(&self) -> (r: FrameBatch) ensures r@ == self@ { unimplemented!() }
}

impl vstd::std_specs::core::IndexSpecImpl<usize> for FrameBatch {
  open spec fn index_req(&self, i: &usize) -> bool { *i < self@.len() }
}
impl core::ops::Index<usize> for FrameBatch {
  type Output = Msg;
  #[verifier::external_body]
  fn index(&self, i: usize) -> (o: &Msg) ensures *o == self@[i as int] { unimplemented!() }
}

// Default (the real one is `FrameBatch::new()`): needed by std::mem::take
impl core::default::Default for FrameBatch {
  #[verifier::external_body]
  fn default() -> (r: FrameBatch) ensures r@ =~= Seq::<Msg>::empty() { unimplemented!() }
}
