// ===== prelude/c03_lemmas.rs : C03 as lemmas over the encoder/decoder contracts (pure, hand-written) =====
// The per-function contracts (units enc, dec, framer) say: every encoder produces enc_frame/enc_all, every decoder
// implements dec_step.  These lemmas derive the property statement from those two spec functions alone:
//   (A) one frame round-trips, (B) any frame sequence round-trips through the "decode until None" loop,
//   (C) the result of that loop does not depend on how the byte stream is cut into reads.

pub open spec fn valid_frame(f: Frame) -> bool { f.body.len() <= 0xffff_ffff_ffff_ffff }

pub proof fn lemma_enc_frame_parses(f: Frame, rest: Seq<u8>)
  requires valid_frame(f)
  ensures
    frame_complete(enc_f(f) + rest),
    first_frame(enc_f(f) + rest) == f,
    frame_rest(enc_f(f) + rest) == rest,
    frame_len(enc_f(f) + rest) == enc_f(f).len(),
{
  let s = enc_f(f) + rest;
  let n = f.body.len();
  if n <= 255 {
    lemma_flag_bits(f.more, f.cmd, false);
    assert(s[0] == flags_byte(f.more, f.cmd, false));
    assert(s[1] == n as u8);
    assert(hdr_len(s) == 2);
    assert(body_len(s) == n);
    assert(frame_body(s) =~= f.body);
    assert(frame_rest(s) =~= rest);
  } else {
    lemma_flag_bits(f.more, f.cmd, true);
    lemma_be64_roundtrip(n);
    assert(s[0] == flags_byte(f.more, f.cmd, true));
    assert(s.subrange(1, 9) =~= to_be64(n));
    assert(hdr_len(s) == 9);
    assert(body_len(s) == n);
    assert(frame_body(s) =~= f.body);
    assert(frame_rest(s) =~= rest);
  }
}

// ---- the "append; decode until None" loop as a spec function (what process_data / try_read_msgs_from_bytes do)
pub struct Drained { pub frames: Seq<Frame>, pub rest: Seq<u8>, pub err: bool }

pub open spec fn drain(buf: Seq<u8>, max: i64) -> Drained
  decreases buf.len()
{
  if oversize(buf, max) { Drained { frames: Seq::empty(), rest: buf, err: true } }
  else if frame_complete(buf) {
    let d = drain(frame_rest(buf), max);
    Drained { frames: seq![first_frame(buf)] + d.frames, rest: d.rest, err: d.err }
  } else { Drained { frames: Seq::empty(), rest: buf, err: false } }
}

pub open spec fn enc_frames(fs: Seq<Frame>) -> Seq<u8>
  decreases fs.len()
{ if fs.len() == 0 { Seq::<u8>::empty() } else { enc_f(fs[0]) + enc_frames(fs.skip(1)) } }

pub open spec fn all_valid(fs: Seq<Frame>) -> bool { forall|i: int| 0 <= i < fs.len() ==> valid_frame(#[trigger] fs[i]) }

// (B) round trip of a whole sequence, with an arbitrary undecodable tail left alone
pub proof fn lemma_roundtrip_all(fs: Seq<Frame>, tail: Seq<u8>)
  requires all_valid(fs), !frame_complete(tail), !oversize(tail, -1i64)
  ensures
    drain(enc_frames(fs) + tail, -1i64).frames == fs,
    drain(enc_frames(fs) + tail, -1i64).rest == tail,
    !drain(enc_frames(fs) + tail, -1i64).err,
  decreases fs.len()
{
  if fs.len() == 0 {
    assert(enc_frames(fs) + tail =~= tail);
  } else {
    let f = fs[0];
    let r = enc_frames(fs.skip(1)) + tail;
    assert(enc_frames(fs) + tail =~= enc_f(f) + r);
    lemma_enc_frame_parses(f, r);
    assert(all_valid(fs.skip(1))) by {
      assert forall|i: int| 0 <= i < fs.skip(1).len() implies valid_frame(#[trigger] fs.skip(1)[i]) by { assert(fs.skip(1)[i] == fs[i + 1]); }
    }
    lemma_roundtrip_all(fs.skip(1), tail);
    assert(seq![f] + fs.skip(1) =~= fs);
  }
}

// prefix stability of the header/frame predicates
pub proof fn lemma_prefix_stable(a: Seq<u8>, b: Seq<u8>, max: i64)
  ensures
    hdr_complete(a) ==> hdr_complete(a + b) && hdr_len(a + b) == hdr_len(a) && body_len(a + b) == body_len(a),
    oversize(a, max) ==> oversize(a + b, max),
    frame_complete(a) ==> frame_complete(a + b) && first_frame(a + b) == first_frame(a) && frame_rest(a + b) == frame_rest(a) + b,
{
  if hdr_complete(a) {
    assert((a + b)[0] == a[0]);
    if bit_long(a[0]) { assert((a + b).subrange(1, 9) =~= a.subrange(1, 9)); } else { assert((a + b)[1] == a[1]); }
    if frame_complete(a) {
      assert(frame_body(a + b) =~= frame_body(a));
      assert(frame_rest(a + b) =~= frame_rest(a) + b);
    }
  }
}

// (C) cut independence: feeding `a`, keeping the undecoded rest, then feeding `b` yields the same frames,
// the same leftover and the same error verdict as feeding `a + b` at once -- for every cut position.
pub proof fn lemma_cut_independent(a: Seq<u8>, b: Seq<u8>, max: i64)
  ensures
    !drain(a, max).err ==> drain(a + b, max).frames == drain(a, max).frames + drain(drain(a, max).rest + b, max).frames,
    !drain(a, max).err ==> drain(a + b, max).rest == drain(drain(a, max).rest + b, max).rest,
    !drain(a, max).err ==> drain(a + b, max).err == drain(drain(a, max).rest + b, max).err,
    drain(a, max).err ==> drain(a + b, max).err && drain(a + b, max).frames == drain(a, max).frames,
  decreases a.len()
{
  lemma_prefix_stable(a, b, max);
  if oversize(a, max) {
  } else if frame_complete(a) {
    lemma_cut_independent(frame_rest(a), b, max);
    let d = drain(frame_rest(a), max);
    assert(!oversize(a + b, max)) by { assert(body_len(a + b) == body_len(a)); }
    if !d.err {
      assert(seq![first_frame(a)] + (d.frames + drain(d.rest + b, max).frames) =~= (seq![first_frame(a)] + d.frames) + drain(d.rest + b, max).frames);
    }
  } else {
    assert(drain(a, max).frames + drain(a + b, max).frames =~= drain(a + b, max).frames);
  }
}

// corollary: any segmentation into reads -- by induction over the list of chunks
pub open spec fn concat_chunks(cs: Seq<Seq<u8>>) -> Seq<u8>
  decreases cs.len()
{ if cs.len() == 0 { Seq::<u8>::empty() } else { cs[0] + concat_chunks(cs.skip(1)) } }

pub open spec fn feed(acc: Seq<u8>, cs: Seq<Seq<u8>>, max: i64) -> Drained
  decreases cs.len()
{
  if cs.len() == 0 { Drained { frames: Seq::empty(), rest: acc, err: false } }
  else {
    let d = drain(acc + cs[0], max);
    if d.err { d } else {
      let e = feed(d.rest, cs.skip(1), max);
      Drained { frames: d.frames + e.frames, rest: e.rest, err: e.err }
    }
  }
}

pub proof fn lemma_any_segmentation(acc: Seq<u8>, cs: Seq<Seq<u8>>, max: i64)
  requires !frame_complete(acc), !oversize(acc, max)
  ensures
    feed(acc, cs, max).frames == drain(acc + concat_chunks(cs), max).frames,
    feed(acc, cs, max).err == drain(acc + concat_chunks(cs), max).err,
    !feed(acc, cs, max).err ==> feed(acc, cs, max).rest == drain(acc + concat_chunks(cs), max).rest,
  decreases cs.len()
{
  if cs.len() == 0 {
    assert(acc + concat_chunks(cs) =~= acc);
  } else {
    let a = acc + cs[0];
    let b = concat_chunks(cs.skip(1));
    assert(acc + concat_chunks(cs) =~= a + b);
    lemma_cut_independent(a, b, max);
    let d = drain(a, max);
    if !d.err {
      lemma_drain_rest_incomplete(a, max);
      lemma_any_segmentation(d.rest, cs.skip(1), max);
    }
  }
}

pub proof fn lemma_drain_rest_incomplete(a: Seq<u8>, max: i64)
  ensures !drain(a, max).err ==> !frame_complete(drain(a, max).rest) && !oversize(drain(a, max).rest, max)
  decreases a.len()
{
  if oversize(a, max) {} else if frame_complete(a) { lemma_drain_rest_incomplete(frame_rest(a), max); } else {}
}

// enc_all (Msg level, snoc-defined as in the encoder invariants) agrees with enc_frames (cons-defined)
pub open spec fn frames_of(ms: Seq<Msg>) -> Seq<Frame> { ms.map_values(|m: Msg| frame_of(m)) }

pub proof fn lemma_enc_frames_snoc(fs: Seq<Frame>, f: Frame)
  ensures enc_frames(fs.push(f)) == enc_frames(fs) + enc_f(f)
  decreases fs.len()
{
  let x = fs.push(f);
  let e = enc_f(f);
  if fs.len() == 0 {
    assert(x.skip(1) =~= Seq::<Frame>::empty());
    assert(x[0] == f);
    assert(enc_frames(x.skip(1)) =~= Seq::<u8>::empty());
    assert(enc_frames(x) == e + enc_frames(x.skip(1)));
    assert(e + Seq::<u8>::empty() =~= e);
    assert(enc_frames(fs) =~= Seq::<u8>::empty());
    assert(Seq::<u8>::empty() + e =~= e);
  } else {
    let h = enc_f(fs[0]);
    let t = enc_frames(fs.skip(1));
    assert(x[0] == fs[0]);
    assert(x.skip(1) =~= fs.skip(1).push(f));
    lemma_enc_frames_snoc(fs.skip(1), f);
    assert(enc_frames(x) == h + enc_frames(x.skip(1)));
    assert(enc_frames(fs) == h + t);
    lemma_seq_assoc(h, t, e);
  }
}

pub proof fn lemma_seq_assoc(a: Seq<u8>, b: Seq<u8>, c: Seq<u8>)
  ensures a + (b + c) == (a + b) + c
{
  assert(a + (b + c) =~= (a + b) + c);
}

pub proof fn lemma_enc_all_is_enc_frames(ms: Seq<Msg>)
  ensures enc_all(ms) == enc_frames(frames_of(ms))
  decreases ms.len()
{
  if ms.len() == 0 {
  } else {
    lemma_enc_all_is_enc_frames(ms.drop_last());
    assert(frames_of(ms) =~= frames_of(ms.drop_last()).push(frame_of(ms.last())));
    lemma_enc_frames_snoc(frames_of(ms.drop_last()), frame_of(ms.last()));
  }
}
