// ===== prelude/engine_env.rs : environment of ZmtpEngine as contract stand-ins (TRUSTED) =====
use std::sync::Arc;
use std::collections::HashMap;

// ---- Blob (message/blob.rs): immutable byte string
#[verifier::external_body]
pub struct Blob { b: Vec<u8> }
impl View for Blob { type V = Seq<u8>; uninterp spec fn view(&self) -> Seq<u8>; }
impl Blob {
  #[verifier::external_body]
  pub fn from(v: Vec<u8>) -> (r: Blob) ensures r@ == v@ { unimplemented!() }
  #[verifier::external_body]
  pub fn is_empty(&self) -> (r: bool) ensures r == (self@.len() == 0) { unimplemented!() }
}
#[verifier::external_body]
pub struct AdaptiveThrottleConfig { x: u8 }

// ---- security mechanism (security/mechanism.rs) as an abstract trait
#[derive(Clone, Copy, PartialEq, Eq)]
pub enum MechKind { Null, Plain, Curve, NoiseXx }

pub enum ProcessTokenAction { ContinueWaiting, ProduceAndSend, HandshakeComplete }

pub trait Mechanism {
  // ghost: which mechanism this object implements (fixed for its lifetime) and whether it has completed
  spec fn kind(&self) -> MechKind;
  spec fn complete(&self) -> bool;
  // ghost: the side of the security handshake this object plays (fixed for its lifetime): the server side is the one that
  // CHECKS the peer's credentials / keys; a client-side mechanism completes on the server's word (PLAIN: a bare WELCOME)
  spec fn role_server(&self) -> bool;
  fn process_token(&mut self, token: &[u8]) -> (r: Result<ProcessTokenAction, ZmqError>)
    ensures final(self).kind() == old(self).kind(), final(self).role_server() == old(self).role_server();
  fn produce_token(&mut self) -> (r: Result<Option<Vec<u8>>, ZmqError>)
    ensures final(self).kind() == old(self).kind(), final(self).role_server() == old(self).role_server();
  fn is_complete(&self) -> (r: bool) ensures r == self.complete();
  fn is_error(&self) -> (r: bool);
  fn error_reason(&self) -> (r: Option<&str>);
  // the data-phase framer remembers which mechanism produced it and whether that mechanism had completed
  fn into_framer(self: Box<Self>, max_msg_size: i64, sndbatch_count: usize, sndbatch_bytes_physical: usize)
    -> (r: Result<(Box<dyn ISecureFramer>, Option<Vec<u8>>), ZmqError>)
    ensures r matches Ok(p) ==> p.0.origin_kind() == self.kind() && p.0.origin_complete() == self.complete() && p.0.origin_role_server() == self.role_server()
      && p.0.max_size() == max_msg_size;
}

pub struct NullMechanism;
impl Mechanism for NullMechanism {
  open spec fn kind(&self) -> MechKind { MechKind::Null }
  open spec fn complete(&self) -> bool { true }
  uninterp spec fn role_server(&self) -> bool;
  #[verifier::external_body]
  fn process_token(&mut self, token: &[u8]) -> (r: Result<ProcessTokenAction, ZmqError>) { unimplemented!() }
  #[verifier::external_body]
  fn produce_token(&mut self) -> (r: Result<Option<Vec<u8>>, ZmqError>) { unimplemented!() }
  #[verifier::external_body]
  fn is_complete(&self) -> (r: bool) { unimplemented!() }
  #[verifier::external_body]
  fn is_error(&self) -> (r: bool) { unimplemented!() }
  #[verifier::external_body]
  fn error_reason(&self) -> (r: Option<&str>) { unimplemented!() }
  #[verifier::external_body]
  fn into_framer(self: Box<Self>, max_msg_size: i64, sndbatch_count: usize, sndbatch_bytes_physical: usize)
    -> (r: Result<(Box<dyn ISecureFramer>, Option<Vec<u8>>), ZmqError>) { unimplemented!() }
}

// ---- framer (security/framer/mod.rs) as an abstract trait with two ghost histories
pub trait ISecureFramer {
  spec fn origin_kind(&self) -> MechKind;
  spec fn origin_complete(&self) -> bool;
  spec fn origin_role_server(&self) -> bool;
  // ghost: the MAXMSGSIZE limit this framer was built with (frames above it are refused; fixed for its lifetime; -1 = none)
  spec fn max_size(&self) -> i64;
  // ghost history: every frame try_read_msg has returned so far, in order
  spec fn read_log(&self) -> Seq<Msg>;
  // ghost termination measure (ASSUMED for trait objects; for NullFramer the buffer length is one)
  spec fn budget(&self, buf: Seq<u8>) -> nat;
  // ghost: "no complete frame is buffered": try_read_msg on this state/buffer returns Ok(None)
  spec fn would_block(&self, buf: Seq<u8>) -> bool;
  fn try_read_msg(&mut self, network_buffer: &mut BytesMut) -> (r: Result<Option<Msg>, ZmqError>)
    ensures
      final(self).origin_kind() == old(self).origin_kind(),
      final(self).origin_complete() == old(self).origin_complete(),
      final(self).origin_role_server() == old(self).origin_role_server(),
      final(self).max_size() == old(self).max_size(),
      r matches Ok(Some(m)) ==> final(self).read_log() == old(self).read_log().push(m)
        && final(self).budget(final(network_buffer)@) < old(self).budget(old(network_buffer)@),
      !(r matches Ok(Some(_))) ==> final(self).read_log() == old(self).read_log(),
      r matches Ok(None) ==> final(self).would_block(final(network_buffer)@),
      // a framer only ever consumes from the front of the buffer it is handed (proved for NullFramer / LengthPrefixedFramer in unit framer)
      final(network_buffer).stream() == old(network_buffer).stream();
  fn write_msg_multipart(&mut self, msgs: FrameBatch) -> (r: Result<Bytes, ZmqError>)
    ensures final(self).origin_kind() == old(self).origin_kind(), final(self).origin_complete() == old(self).origin_complete(),
      final(self).origin_role_server() == old(self).origin_role_server(), final(self).max_size() == old(self).max_size(),
      final(self).read_log() == old(self).read_log();
}

// NullFramer (security/framer/mod.rs; its methods are proved in unit framer): the pass-through framer of the handshake phases and of NULL
#[verifier::external_body]
pub struct NullFramer { x: u8 }
impl ISecureFramer for NullFramer {
  open spec fn origin_kind(&self) -> MechKind { MechKind::Null }
  open spec fn origin_complete(&self) -> bool { true }
  uninterp spec fn origin_role_server(&self) -> bool;
  uninterp spec fn max_size(&self) -> i64;
  uninterp spec fn read_log(&self) -> Seq<Msg>;
  uninterp spec fn budget(&self, buf: Seq<u8>) -> nat;
  uninterp spec fn would_block(&self, buf: Seq<u8>) -> bool;
  #[verifier::external_body]
  fn try_read_msg(&mut self, network_buffer: &mut BytesMut) -> (r: Result<Option<Msg>, ZmqError>) { unimplemented!() }
  #[verifier::external_body]
  fn write_msg_multipart(&mut self, msgs: FrameBatch) -> (r: Result<Bytes, ZmqError>) { unimplemented!() }
}
impl NullFramer {
  #[verifier::external_body]
  pub fn new(max_msg_size: i64, sndbatch_count: usize, sndbatch_bytes_physical: usize) -> (r: NullFramer)
    ensures r.max_size() == max_msg_size
  { unimplemented!() }
}

// ---- READY command / command parser (protocol/zmtp/command.rs): contract stand-ins, proved in unit `command`
#[verifier::external_body]
pub struct ZmtpReady { properties: HashMap<String, Vec<u8>> }

pub enum ZmtpCommand { Ping(Bytes), Pong(Bytes), Ready(ZmtpReady), Error, Unknown(Bytes) }

pub open spec fn pong_wire(ctx: Seq<u8>) -> Seq<u8> { enc_frame(false, true, pong_body(ctx)) }

impl ZmtpReady {
  #[verifier::external_body]
  pub fn create_msg(properties: HashMap<String, Vec<u8>>) -> (r: Msg)
    ensures r.flags == (MsgFlags { more: false, command: true }), r.data is Some
  { unimplemented!() }
}
// R8: `ready_cmd.properties.get("Socket-Type").map(|v| String::from_utf8_lossy(v).into_owned())` and the Identity twin
#[verifier::external_body]
pub fn verif_ready_socket_type(r: &ZmtpReady) -> Option<String> { unimplemented!() }
#[verifier::external_body]
pub fn verif_ready_identity(r: &ZmtpReady) -> Option<Blob> { unimplemented!() }

// Bytes -> &[u8] deref (rewrite R6: `&ctx` where a slice is expected)
// greeting.rs items used by the engine enter as constants/contract stand-ins in the unit file.
