// ===== prelude/bytes.rs : assumed contracts of the `bytes` crate (TRUSTED) =====
// Views are Seq<u8>; every documented panic condition is a precondition, so "rzmq does not
// panic in bytes calls" is proved relative to these contracts.
#[verifier::external_body]
pub struct Bytes { inner: Vec<u8> }

impl View for Bytes { type V = Seq<u8>; uninterp spec fn view(&self) -> Seq<u8>; }

#[verifier::external_body]
pub struct BytesMut { inner: Vec<u8> }

impl View for BytesMut { type V = Seq<u8>; uninterp spec fn view(&self) -> Seq<u8>; }

impl Bytes {
  // R6: Bytes::from_static(&[b]) / Bytes::copy_from_slice(&[b]) with a one-element array literal
  #[verifier::external_body]
  pub fn verif_from_array1(a: [u8; 1]) -> (r: Bytes) ensures r@ == a@ { unimplemented!() }
  #[verifier::external_body]
  pub fn new() -> (r: Bytes) ensures r@ =~= Seq::<u8>::empty() { unimplemented!() }
  #[verifier::external_body]
  pub fn len(&self) -> (r: usize) ensures r == self@.len() { unimplemented!() }
  #[verifier::external_body]
  pub fn is_empty(&self) -> (r: bool) ensures r == (self@.len() == 0) { unimplemented!() }
  #[verifier::external_body]
  pub fn clone(&self) -> (r: Bytes) ensures r@ == self@ { unimplemented!() }
  #[verifier::external_body]
  pub fn slice(&self, range: core::ops::Range<usize>) -> (r: Bytes)
    requires range.start <= range.end, range.end <= self@.len()
    ensures r@ == self@.subrange(range.start as int, range.end as int)
  { unimplemented!() }
  #[verifier::external_body]
  pub fn copy_from_slice(data: &[u8]) -> (r: Bytes) ensures r@ == data@ { unimplemented!() }
  #[verifier::external_body]
  pub fn from_vec(data: Vec<u8>) -> (r: Bytes) ensures r@ == data@ { unimplemented!() }
  #[verifier::external_body]
  pub fn as_slice(&self) -> (r: &[u8]) ensures r@ == self@, r@.len() <= isize::MAX { unimplemented!() }
  #[verifier::external_body]
  pub fn split_to(&mut self, at: usize) -> (r: Bytes)
    requires at <= old(self)@.len()
    ensures r@ == old(self)@.subrange(0, at as int), final(self)@ == old(self)@.subrange(at as int, old(self)@.len() as int)
  { unimplemented!() }
  #[verifier::external_body]
  pub fn advance(&mut self, cnt: usize)
    requires cnt <= old(self)@.len()
    ensures final(self)@ == old(self)@.subrange(cnt as int, old(self)@.len() as int)
  { unimplemented!() }
}

impl vstd::std_specs::core::IndexSpecImpl<usize> for Bytes {
  open spec fn index_req(&self, i: &usize) -> bool { *i < self@.len() }
}
impl core::ops::Index<usize> for Bytes {
  type Output = u8;
  #[verifier::external_body]
  fn index(&self, i: usize) -> (o: &u8) ensures *o == self@[i as int] { unimplemented!() }
}
impl vstd::std_specs::core::IndexSpecImpl<core::ops::Range<usize>> for Bytes {
  open spec fn index_req(&self, r: &core::ops::Range<usize>) -> bool { r.start <= r.end && r.end <= self@.len() }
}
impl core::ops::Index<core::ops::Range<usize>> for Bytes {
  type Output = [u8];
  #[verifier::external_body]
  fn index(&self, r: core::ops::Range<usize>) -> (o: &[u8]) ensures o@ == self@.subrange(r.start as int, r.end as int) { unimplemented!() }
}
impl vstd::std_specs::core::IndexSpecImpl<core::ops::RangeFrom<usize>> for Bytes {
  open spec fn index_req(&self, r: &core::ops::RangeFrom<usize>) -> bool { r.start <= self@.len() }
}
impl core::ops::Index<core::ops::RangeFrom<usize>> for Bytes {
  type Output = [u8];
  #[verifier::external_body]
  fn index(&self, r: core::ops::RangeFrom<usize>) -> (o: &[u8]) ensures o@ == self@.subrange(r.start as int, self@.len() as int) { unimplemented!() }
}
impl vstd::std_specs::core::IndexSpecImpl<core::ops::RangeTo<usize>> for Bytes {
  open spec fn index_req(&self, r: &core::ops::RangeTo<usize>) -> bool { r.end <= self@.len() }
}
impl core::ops::Index<core::ops::RangeTo<usize>> for Bytes {
  type Output = [u8];
  #[verifier::external_body]
  fn index(&self, r: core::ops::RangeTo<usize>) -> (o: &[u8]) ensures o@ == self@.subrange(0, r.end as int) { unimplemented!() }
}

impl BytesMut {
  // ghost history of this buffer object: every byte ever removed from its front (advance / split_to / split / get_* / clear), in order.
  // stream() = taken() ++ view = everything that was ever appended to this buffer, in order: removing from the front keeps it,
  // appending extends it, and REPLACING the buffer object by a fresh one loses it (taken() of a fresh buffer is empty).
  pub uninterp spec fn taken(&self) -> Seq<u8>;
  pub open spec fn stream(&self) -> Seq<u8> { self.taken() + self@ }
  #[verifier::external_body]
  pub fn new() -> (r: BytesMut) ensures r@ =~= Seq::<u8>::empty(), r.taken() =~= Seq::<u8>::empty() { unimplemented!() }
  #[verifier::external_body]
  pub fn with_capacity(cap: usize) -> (r: BytesMut) ensures r@ =~= Seq::<u8>::empty(), r.taken() =~= Seq::<u8>::empty() { unimplemented!() }
  #[verifier::external_body]
  pub fn len(&self) -> (r: usize) ensures r == self@.len() { unimplemented!() }
  #[verifier::external_body]
  pub fn is_empty(&self) -> (r: bool) ensures r == (self@.len() == 0) { unimplemented!() }
  #[verifier::external_body]
  pub fn clear(&mut self) ensures final(self)@ =~= Seq::<u8>::empty(), final(self).taken() == old(self).taken() + old(self)@ { unimplemented!() }
  // reserve: documented to panic only on capacity overflow of usize; not modelled (allocation failure is out of scope)
  #[verifier::external_body]
  pub fn reserve(&mut self, additional: usize) ensures final(self)@ == old(self)@, final(self).taken() == old(self).taken() { unimplemented!() }
  #[verifier::external_body]
  pub fn remaining_mut(&self) -> (r: usize) { unimplemented!() }
  #[verifier::external_body]
  pub fn split_to(&mut self, at: usize) -> (r: BytesMut)
    requires at <= old(self)@.len()
    ensures r@ == old(self)@.subrange(0, at as int), final(self)@ == old(self)@.subrange(at as int, old(self)@.len() as int),
      final(self).taken() == old(self).taken() + old(self)@.subrange(0, at as int)
  { unimplemented!() }
  #[verifier::external_body]
  pub fn split(&mut self) -> (r: BytesMut)
    ensures r@ == old(self)@, final(self)@ =~= Seq::<u8>::empty(), final(self).taken() == old(self).taken() + old(self)@
  { unimplemented!() }
  #[verifier::external_body]
  pub fn freeze(self) -> (r: Bytes) ensures r@ == self@ { unimplemented!() }
  #[verifier::external_body]
  pub fn advance(&mut self, cnt: usize)
    requires cnt <= old(self)@.len()
    ensures final(self)@ == old(self)@.subrange(cnt as int, old(self)@.len() as int), final(self).taken() == old(self).taken() + old(self)@.subrange(0, cnt as int)
  { unimplemented!() }
  #[verifier::external_body]
  pub fn get_u8(&mut self) -> (r: u8)
    requires old(self)@.len() >= 1
    ensures r == old(self)@[0], final(self)@ == old(self)@.subrange(1, old(self)@.len() as int), final(self).taken() == old(self).taken().push(old(self)@[0])
  { unimplemented!() }
  // Buf::get_u16 / get_u32 / get_u64 (big endian; panic when fewer bytes remain)
  #[verifier::external_body]
  pub fn get_u16(&mut self) -> (r: u16)
    requires old(self)@.len() >= 2
    ensures r as nat == be16(old(self)@.subrange(0, 2)), final(self)@ == old(self)@.subrange(2, old(self)@.len() as int), final(self).taken() == old(self).taken() + old(self)@.subrange(0, 2)
  { unimplemented!() }
  #[verifier::external_body]
  pub fn get_u32(&mut self) -> (r: u32)
    requires old(self)@.len() >= 4
    ensures final(self)@ == old(self)@.subrange(4, old(self)@.len() as int), final(self).taken() == old(self).taken() + old(self)@.subrange(0, 4)
  { unimplemented!() }
  #[verifier::external_body]
  pub fn get_u64(&mut self) -> (r: u64)
    requires old(self)@.len() >= 8
    ensures r as nat == be64(old(self)@.subrange(0, 8)), final(self)@ == old(self)@.subrange(8, old(self)@.len() as int), final(self).taken() == old(self).taken() + old(self)@.subrange(0, 8)
  { unimplemented!() }
  #[verifier::external_body]
  pub fn put_u8(&mut self, n: u8) ensures final(self)@ == old(self)@.push(n), final(self).taken() == old(self).taken() { unimplemented!() }
  #[verifier::external_body]
  pub fn put_u16(&mut self, n: u16) ensures final(self)@ == old(self)@ + to_be16(n as nat), final(self).taken() == old(self).taken() { unimplemented!() }
  #[verifier::external_body]
  pub fn put_u32(&mut self, n: u32) ensures final(self)@ == old(self)@ + to_be32(n as nat), final(self).taken() == old(self).taken() { unimplemented!() }
  #[verifier::external_body]
  pub fn put_u64(&mut self, n: u64) ensures final(self)@ == old(self)@ + to_be64(n as nat), final(self).taken() == old(self).taken() { unimplemented!() }
  #[verifier::external_body]
  pub fn put_slice(&mut self, src: &[u8]) ensures final(self)@ == old(self)@ + src@, final(self).taken() == old(self).taken() { unimplemented!() }
  // BufMut::put_bytes(val, cnt): cnt copies of val
  #[verifier::external_body]
  pub fn put_bytes(&mut self, val: u8, cnt: usize) ensures final(self)@ == old(self)@ + Seq::new(cnt as nat, |i: int| val), final(self).taken() == old(self).taken() { unimplemented!() }
  #[verifier::external_body]
  pub fn extend_from_slice(&mut self, src: &[u8]) ensures final(self)@ == old(self)@ + src@, final(self).taken() == old(self).taken() { unimplemented!() }
  // BufMut::put(impl Buf): appends all remaining bytes of the source
  #[verifier::external_body]
  pub fn put(&mut self, src: BytesMut) ensures final(self)@ == old(self)@ + src@, final(self).taken() == old(self).taken() { unimplemented!() }
  #[verifier::external_body]
  pub fn as_slice(&self) -> (r: &[u8]) ensures r@ == self@, r@.len() <= isize::MAX { unimplemented!() }
  // R6: `&buf[..n]`
  #[verifier::external_body]
  pub fn verif_prefix(&self, n: usize) -> (r: &[u8])
    requires n <= self@.len()
    ensures r@ == self@.subrange(0, n as int)
  { unimplemented!() }
}

impl vstd::std_specs::core::IndexSpecImpl<usize> for BytesMut {
  open spec fn index_req(&self, i: &usize) -> bool { *i < self@.len() }
}
impl core::ops::Index<usize> for BytesMut {
  type Output = u8;
  #[verifier::external_body]
  fn index(&self, i: usize) -> (o: &u8) ensures *o == self@[i as int] { unimplemented!() }
}
impl vstd::std_specs::core::IndexSpecImpl<core::ops::Range<usize>> for BytesMut {
  open spec fn index_req(&self, r: &core::ops::Range<usize>) -> bool { r.start <= r.end && r.end <= self@.len() }
}
impl core::ops::Index<core::ops::Range<usize>> for BytesMut {
  type Output = [u8];
  #[verifier::external_body]
  fn index(&self, r: core::ops::Range<usize>) -> (o: &[u8]) ensures o@ == self@.subrange(r.start as int, r.end as int) { unimplemented!() }
}
impl vstd::std_specs::core::IndexSpecImpl<core::ops::RangeFrom<usize>> for BytesMut {
  open spec fn index_req(&self, r: &core::ops::RangeFrom<usize>) -> bool { r.start <= self@.len() }
}
impl core::ops::Index<core::ops::RangeFrom<usize>> for BytesMut {
  type Output = [u8];
  #[verifier::external_body]
  fn index(&self, r: core::ops::RangeFrom<usize>) -> (o: &[u8]) ensures o@ == self@.subrange(r.start as int, self@.len() as int) { unimplemented!() }
}
