// ===== prelude/be_lemmas.rs : big-endian helper lemmas (pure) =====
pub proof fn lemma_be64_bound(s: Seq<u8>)
  requires s.len() == 8
  ensures be64(s) <= 0xffff_ffff_ffff_ffff
{}

pub proof fn lemma_be64_roundtrip(n: nat)
  requires n <= 0xffff_ffff_ffff_ffff
  ensures to_be64(n).len() == 8, be64(to_be64(n)) == n
{
  let a0 = n / 0x100_0000_0000_0000; let a1 = n / 0x1_0000_0000_0000; let a2 = n / 0x100_0000_0000;
  let a3 = n / 0x1_0000_0000; let a4 = n / 0x100_0000; let a5 = n / 0x1_0000; let a6 = n / 0x100;
  assert(a0 < 256);
  assert(a1 == a0 * 256 + a1 % 256);
  assert(a2 == a1 * 256 + a2 % 256);
  assert(a3 == a2 * 256 + a3 % 256);
  assert(a4 == a3 * 256 + a4 % 256);
  assert(a5 == a4 * 256 + a5 % 256);
  assert(a6 == a5 * 256 + a6 % 256);
  assert(n == a6 * 256 + n % 256);
}

