// ===== prelude/be_lemmas.rs : big-endian helper lemmas (pure) =====
pub proof fn lemma_be64_bound(s: Seq<u8>)
  requires s.len() == 8
  ensures be64(s) <= 0xffff_ffff_ffff_ffff
{}

pub proof fn lemma_be64_roundtrip(n: nat)
  requires n <= 0xffff_ffff_ffff_ffff
  ensures to_be64(n).len() == 8, be64(to_be64(n)) == n
{
  let a0 = n / 0x100_0000_0000_0000; let a1 = n / 0x1_0000_0000_0000; let a2 = n / 0x100_0000_0000;
  let a3 = n / 0x1_0000_0000; let a4 = n / 0x100_0000; let a5 = n / 0x1_0000; let a6 = n / 0x100;
  assert(a0 < 256);
  assert(a1 == a0 * 256 + a1 % 256);
  assert(a2 == a1 * 256 + a2 % 256);
  assert(a3 == a2 * 256 + a3 % 256);
  assert(a4 == a3 * 256 + a4 % 256);
  assert(a5 == a4 * 256 + a5 % 256);
  assert(a6 == a5 * 256 + a6 % 256);
  assert(n == a6 * 256 + n % 256);
}


// to_be64 is the inverse of be64 on 8-byte sequences (used by the codec's consumed-header view)
pub proof fn lemma_be64_inj(s: Seq<u8>)
  requires s.len() == 8
  ensures to_be64(be64(s)) =~= s
{
  let n = be64(s) as int;
  let b0 = s[0] as int; let b1 = s[1] as int; let b2 = s[2] as int; let b3 = s[3] as int;
  let b4 = s[4] as int; let b5 = s[5] as int; let b6 = s[6] as int; let b7 = s[7] as int;
  let p0 = b0;
  let p1 = p0 * 256 + b1;
  let p2 = p1 * 256 + b2;
  let p3 = p2 * 256 + b3;
  let p4 = p3 * 256 + b4;
  let p5 = p4 * 256 + b5;
  let p6 = p5 * 256 + b6;
  let p7 = p6 * 256 + b7;
  assert(n == p7);
  let r1 = b7;
  let r2 = b6 * 0x100 + r1;
  let r3 = b5 * 0x1_0000 + r2;
  let r4 = b4 * 0x100_0000 + r3;
  let r5 = b3 * 0x1_0000_0000 + r4;
  let r6 = b2 * 0x100_0000_0000 + r5;
  let r7 = b1 * 0x1_0000_0000_0000 + r6;
  vstd::arithmetic::div_mod::lemma_fundamental_div_mod_converse(n, 0x100_0000_0000_0000, p0, r7);
  vstd::arithmetic::div_mod::lemma_fundamental_div_mod_converse(n, 0x1_0000_0000_0000, p1, r6);
  vstd::arithmetic::div_mod::lemma_fundamental_div_mod_converse(n, 0x100_0000_0000, p2, r5);
  vstd::arithmetic::div_mod::lemma_fundamental_div_mod_converse(n, 0x1_0000_0000, p3, r4);
  vstd::arithmetic::div_mod::lemma_fundamental_div_mod_converse(n, 0x100_0000, p4, r3);
  vstd::arithmetic::div_mod::lemma_fundamental_div_mod_converse(n, 0x1_0000, p5, r2);
  vstd::arithmetic::div_mod::lemma_fundamental_div_mod_converse(n, 0x100, p6, r1);
  vstd::arithmetic::div_mod::lemma_fundamental_div_mod_converse(p1, 256, p0, b1);
  vstd::arithmetic::div_mod::lemma_fundamental_div_mod_converse(p2, 256, p1, b2);
  vstd::arithmetic::div_mod::lemma_fundamental_div_mod_converse(p3, 256, p2, b3);
  vstd::arithmetic::div_mod::lemma_fundamental_div_mod_converse(p4, 256, p3, b4);
  vstd::arithmetic::div_mod::lemma_fundamental_div_mod_converse(p5, 256, p4, b5);
  vstd::arithmetic::div_mod::lemma_fundamental_div_mod_converse(p6, 256, p5, b6);
  vstd::arithmetic::div_mod::lemma_fundamental_div_mod_converse(p7, 256, p6, b7);
  vstd::arithmetic::div_mod::lemma_small_mod(p0 as nat, 256);
  let t = to_be64(be64(s));
  assert(t[0] == s[0]); assert(t[1] == s[1]); assert(t[2] == s[2]); assert(t[3] == s[3]);
  assert(t[4] == s[4]); assert(t[5] == s[5]); assert(t[6] == s[6]); assert(t[7] == s[7]);
}
