// ===== prelude/enc_glue.rs : helpers for the vectored encoders (TRUSTED contracts, rewrite R8) =====
pub open spec fn total_frames(bs: Seq<FrameBatch>) -> nat
  decreases bs.len()
{ if bs.len() == 0 { 0 } else { total_frames(bs.drop_last()) + bs.last()@.len() } }

// R8: `batch.iter().map(|g| g.len()).sum()`  (std iterator adapters are outside Verus' subset)
#[verifier::external_body]
pub fn verif_sum_lens(batch: &[FrameBatch]) -> (r: usize)
  requires total_frames(batch@) <= usize::MAX
  ensures r == total_frames(batch@)
{ unimplemented!() }

pub open spec fn concat_bytes(s: Seq<Bytes>) -> Seq<u8>
  decreases s.len()
{ if s.len() == 0 { Seq::<u8>::empty() } else { concat_bytes(s.drop_last()) + s.last()@ } }

pub proof fn lemma_concat_push(s: Seq<Bytes>, b: Bytes)
  ensures concat_bytes(s.push(b)) == concat_bytes(s) + b@
{
  assert(s.push(b).drop_last() =~= s);
}

pub open spec fn no_commands(fs: Seq<Msg>) -> bool { forall|i: int| 0 <= i < fs.len() ==> !(#[trigger] fs[i]).flags.command }
pub open spec fn no_commands_b(bs: Seq<FrameBatch>) -> bool { forall|i: int| 0 <= i < bs.len() ==> no_commands((#[trigger] bs[i])@) }

// Option<Bytes>::unwrap_or_default(): Bytes::default() is the empty buffer
#[verifier::external_body]
pub fn verif_unwrap_or_default(o: Option<Bytes>) -> (r: Bytes)
  ensures o is Some ==> r == o->0, o is None ==> r@ =~= Seq::<u8>::empty()
{ unimplemented!() }
