// ===== prelude/command_env.rs : std/bytes glue for protocol/zmtp/command.rs (TRUSTED contracts) =====
use std::collections::HashMap;


// std::io::Cursor<&[u8]> used as bytes::Buf: position/remaining/get_u8/get_u32/copy_to_bytes.
// Buf methods panic when fewer bytes remain than requested: preconditions.
#[verifier::external_body]
pub struct VCursor<'a> { c: std::io::Cursor<&'a [u8]> }
impl<'a> VCursor<'a> {
  pub uninterp spec fn data(&self) -> Seq<u8>;
  pub uninterp spec fn pos(&self) -> nat;
  #[verifier::external_body]
  pub fn new(body: &'a [u8]) -> (r: VCursor<'a>) ensures r.data() == body@, r.pos() == 0 { unimplemented!() }
  #[verifier::external_body]
  pub fn position(&self) -> (r: u64) ensures r == self.pos(), self.pos() <= self.data().len() { unimplemented!() }
  #[verifier::external_body]
  pub fn remaining(&self) -> (r: usize) ensures r == self.data().len() - self.pos(), self.pos() <= self.data().len() { unimplemented!() }
  #[verifier::external_body]
  pub fn get_u8(&mut self) -> (r: u8)
    requires old(self).pos() + 1 <= old(self).data().len()
    ensures final(self).data() == old(self).data(), final(self).pos() == old(self).pos() + 1, r == old(self).data()[old(self).pos() as int]
  { unimplemented!() }
  #[verifier::external_body]
  pub fn get_u32(&mut self) -> (r: u32)
    requires old(self).pos() + 4 <= old(self).data().len()
    ensures final(self).data() == old(self).data(), final(self).pos() == old(self).pos() + 4,
      r as nat == be32(old(self).data().subrange(old(self).pos() as int, (old(self).pos() + 4) as int))
  { unimplemented!() }
  // Buf::advance panics when cnt > remaining
  #[verifier::external_body]
  pub fn advance(&mut self, cnt: usize)
    requires old(self).pos() + cnt <= old(self).data().len()
    ensures final(self).data() == old(self).data(), final(self).pos() == old(self).pos() + cnt
  { unimplemented!() }
  #[verifier::external_body]
  pub fn copy_to_bytes(&mut self, len: usize) -> (r: Bytes)
    requires old(self).pos() + len <= old(self).data().len()
    ensures final(self).data() == old(self).data(), final(self).pos() == old(self).pos() + len,
      r@ == old(self).data().subrange(old(self).pos() as int, (old(self).pos() + len) as int)
  { unimplemented!() }
}
impl Bytes {
  #[verifier::external_body]
  pub fn to_vec(&self) -> (r: Vec<u8>) ensures r@ == self@ { unimplemented!() }
}
// String::from_utf8: total (Ok or Err), never panics
#[verifier::external_body]
pub fn verif_string_from_utf8(v: Vec<u8>) -> (r: Result<String, ()>) { unimplemented!() }
#[verifier::external_body]
pub fn verif_props_new() -> HashMap<String, Vec<u8>> { unimplemented!() }
#[verifier::external_body]
pub fn verif_props_insert(m: &mut HashMap<String, Vec<u8>>, k: String, v: Vec<u8>) { unimplemented!() }
