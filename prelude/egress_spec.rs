// ===== prelude/egress_spec.rs : abstract view of EgressBuffer (spec only) + std glue =====
use std::collections::VecDeque;

pub assume_specification<T, A: core::alloc::Allocator>[ VecDeque::<T, A>::front ](v: &VecDeque<T, A>) -> (r: Option<&T>)
  ensures v@.len() == 0 ==> r is None, v@.len() > 0 ==> r == Some(&v@[0]);

pub assume_specification<T, A: core::alloc::Allocator>[ VecDeque::<T, A>::is_empty ](v: &VecDeque<T, A>) -> (r: bool)
  ensures r == (v@.len() == 0);

// R8: `a.max(b)` (Ord::max is a provided trait method: no assume_specification possible)
pub fn verif_max(a: usize, b: usize) -> (r: usize)
  ensures r == (if a >= b { a } else { b })
{ if a >= b { a } else { b } }

pub open spec fn flat(cs: Seq<(Bytes, usize)>) -> Seq<u8>
  decreases cs.len()
{ if cs.len() == 0 { Seq::<u8>::empty() } else { cs[0].0@ + flat(cs.skip(1)) } }

pub open spec fn count_sum(cs: Seq<(Bytes, usize)>) -> nat
  decreases cs.len()
{ if cs.len() == 0 { 0 } else { cs[0].1 as nat + count_sum(cs.skip(1)) } }

pub open spec fn no_empty_chunk(cs: Seq<(Bytes, usize)>) -> bool { forall|i: int| 0 <= i < cs.len() ==> (#[trigger] cs[i]).0@.len() > 0 }

pub proof fn lemma_flat_push(cs: Seq<(Bytes, usize)>, c: (Bytes, usize))
  ensures flat(cs.push(c)) == flat(cs) + c.0@, count_sum(cs.push(c)) == count_sum(cs) + c.1
  decreases cs.len()
{
  let x = cs.push(c);
  if cs.len() == 0 {
    assert(x.skip(1) =~= Seq::<(Bytes, usize)>::empty());
    assert(x[0] == c);
    assert(flat(x.skip(1)) =~= Seq::<u8>::empty());
    assert(flat(x) == c.0@ + flat(x.skip(1)));
    assert(c.0@ + Seq::<u8>::empty() =~= c.0@);
    assert(flat(cs) + c.0@ =~= c.0@);
    assert(count_sum(x.skip(1)) == 0);
  } else {
    assert(x[0] == cs[0]);
    assert(x.skip(1) =~= cs.skip(1).push(c));
    lemma_flat_push(cs.skip(1), c);
    assert(flat(x) == cs[0].0@ + flat(x.skip(1)));
    assert(cs[0].0@ + (flat(cs.skip(1)) + c.0@) =~= (cs[0].0@ + flat(cs.skip(1))) + c.0@);
  }
}

pub proof fn lemma_flat_len(cs: Seq<(Bytes, usize)>)
  ensures flat(cs).len() >= (if cs.len() > 0 { cs[0].0@.len() } else { 0 })
  decreases cs.len()
{ if cs.len() > 0 { lemma_flat_len(cs.skip(1)); } }

pub proof fn lemma_flat_cons(cs: Seq<(Bytes, usize)>)
  requires cs.len() > 0
  ensures
    flat(cs) == cs[0].0@ + flat(cs.skip(1)),
    flat(cs).skip(cs[0].0@.len() as int) =~= flat(cs.skip(1)),
    count_sum(cs) == cs[0].1 + count_sum(cs.skip(1)),
{
}

pub proof fn lemma_flat_insert1(cs: Seq<(Bytes, usize)>, c: (Bytes, usize))
  requires cs.len() > 0
  ensures
    flat(cs.insert(1, c)) == cs[0].0@ + c.0@ + flat(cs.skip(1)),
    count_sum(cs.insert(1, c)) == count_sum(cs) + c.1,
{
  let x = cs.insert(1, c);
  assert(x[0] == cs[0]);
  assert(x.skip(1)[0] == c);
  assert(x.skip(1).skip(1) =~= cs.skip(1));
  assert(flat(x) == cs[0].0@ + flat(x.skip(1)));
  assert(flat(x.skip(1)) == c.0@ + flat(cs.skip(1)));
  assert(cs[0].0@ + (c.0@ + flat(cs.skip(1))) =~= cs[0].0@ + c.0@ + flat(cs.skip(1)));
  assert(count_sum(x) == cs[0].1 + count_sum(x.skip(1)));
  assert(count_sum(x.skip(1)) == c.1 + count_sum(cs.skip(1)));
}

pub proof fn lemma_flat_front(cs: Seq<(Bytes, usize)>, c: (Bytes, usize))
  ensures flat(seq![c] + cs) == c.0@ + flat(cs), count_sum(seq![c] + cs) == c.1 + count_sum(cs)
{
  let x = seq![c] + cs;
  assert(x[0] == c);
  assert(x.skip(1) =~= cs);
}
