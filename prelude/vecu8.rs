// ===== prelude/vecu8.rs : assumed contract of xs_foundation::collections::vec::u8::VecU8<T> (TRUSTED) =====
// Its source (xs_foundation-0.4.10/src/collections/vec/u8/mod.rs) asserts cap <= 255 in with_capacity, panics in
// push/insert at length 255 and on out-of-range indices: those are the preconditions below.
#[verifier::external_body]
#[verifier::reject_recursive_types(T)]
pub struct VecU8<T> { v: Vec<T> }

impl<T> View for VecU8<T> { type V = Seq<T>; uninterp spec fn view(&self) -> Seq<T>; }

impl<T> VecU8<T> {
  #[verifier::external_body]
  pub fn with_capacity(cap: usize) -> (r: VecU8<T>)
    requires cap <= 255
    ensures r@ =~= Seq::<T>::empty()
  { unimplemented!() }
  #[verifier::external_body]
  pub fn len(&self) -> (r: usize) ensures r == self@.len(), r <= 255 { unimplemented!() }
  #[verifier::external_body]
  pub fn push(&mut self, value: T)
    requires old(self)@.len() < 255
    ensures final(self)@ == old(self)@.push(value)
  { unimplemented!() }
  #[verifier::external_body]
  pub fn insert(&mut self, index: usize, value: T)
    requires old(self)@.len() < 255, index <= old(self)@.len()
    ensures final(self)@ == old(self)@.insert(index as int, value)
  { unimplemented!() }
  #[verifier::external_body]
  pub fn remove(&mut self, index: usize) -> (r: T)
    requires index < old(self)@.len()
    ensures r == old(self)@[index as int], final(self)@ == old(self)@.remove(index as int)
  { unimplemented!() }
  #[verifier::external_body]
  pub fn new() -> (r: VecU8<T>) ensures r@ =~= Seq::<T>::empty() { unimplemented!() }
  #[verifier::external_body]
  pub fn is_empty(&self) -> (r: bool) ensures r == (self@.len() == 0) { unimplemented!() }
  // <[T]>::swap through DerefMut: panics when an index is out of bounds
  #[verifier::external_body]
  pub fn swap(&mut self, a: usize, b: usize)
    requires a < old(self)@.len(), b < old(self)@.len()
    ensures final(self)@ == old(self)@.update(a as int, old(self)@[b as int]).update(b as int, old(self)@[a as int])
  { unimplemented!() }
  #[verifier::external_body]
  pub fn swap_remove(&mut self, index: usize) -> (r: T)
    requires index < old(self)@.len()
    ensures r == old(self)@[index as int],
      final(self)@ == (if index as int == old(self)@.len() - 1 { old(self)@.drop_last() } else { old(self)@.update(index as int, old(self)@.last()).drop_last() })
  { unimplemented!() }
  #[verifier::external_body]
  pub fn truncate(&mut self, new_len: usize)
    requires new_len <= 255
    ensures final(self)@ == (if new_len as int >= old(self)@.len() { old(self)@ } else { old(self)@.subrange(0, new_len as int) })
  { unimplemented!() }
  #[verifier::external_body]
  pub fn clear(&mut self) ensures final(self)@ =~= Seq::<T>::empty() { unimplemented!() }
  #[verifier::external_body]
  pub fn pop(&mut self) -> (r: Option<T>)
    ensures
      old(self)@.len() == 0 ==> r is None && final(self)@ == old(self)@,
      old(self)@.len() > 0 ==> r == Some(old(self)@.last()) && final(self)@ == old(self)@.drop_last(),
  { unimplemented!() }
}

impl<T> vstd::std_specs::core::IndexSpecImpl<usize> for VecU8<T> {
  open spec fn index_req(&self, i: &usize) -> bool { *i < self@.len() }
}
impl<T> core::ops::Index<usize> for VecU8<T> {
  type Output = T;
  #[verifier::external_body]
  fn index(&self, i: usize) -> (o: &T) ensures *o == self@[i as int] { unimplemented!() }
}
