// ===== prelude/core.rs : stand-ins shared by all units (TRUSTED: assumed contracts) =====
// VString: opaque stand-in for String values that only carry diagnostics text (rewrite R2).
#[verifier::external_body]
pub struct VString { s: String }

#[verifier::external_body]
pub fn verif_fmt() -> (r: VString) { unimplemented!() }

// ZmqError stand-in: same variant names as core/src/error.rs; payload text is opaque.
pub enum ZmqError {
  InvalidArgument(VString),
  Timeout,
  ConnectionClosed,
  HostUnreachable(VString),
  InvalidOption(i32),
  InvalidOptionValue(i32),
  InvalidSocketType(&'static str),
  InvalidState(&'static str),
  ProtocolViolation(VString),
  InvalidMessage(VString),
  SecurityError(VString),
  InvalidCurveKey,
  AuthenticationFailure(VString),
  EncryptionError(VString),
  ResourceLimitReached,
  UnsupportedFeature(&'static str),
  Internal(VString),
}

// big-endian helpers (rewrite R3): Verus cannot attach a spec to {integer}::from_be_bytes
pub open spec fn be64(s: Seq<u8>) -> nat
  recommends s.len() == 8
{
  (s[0] as nat) * 0x100_0000_0000_0000 + (s[1] as nat) * 0x1_0000_0000_0000 + (s[2] as nat) * 0x100_0000_0000
  + (s[3] as nat) * 0x1_0000_0000 + (s[4] as nat) * 0x100_0000 + (s[5] as nat) * 0x1_0000 + (s[6] as nat) * 0x100 + (s[7] as nat)
}

pub open spec fn to_be64(n: nat) -> Seq<u8> {
  seq![
    ((n / 0x100_0000_0000_0000) % 256) as u8, ((n / 0x1_0000_0000_0000) % 256) as u8,
    ((n / 0x100_0000_0000) % 256) as u8, ((n / 0x1_0000_0000) % 256) as u8,
    ((n / 0x100_0000) % 256) as u8, ((n / 0x1_0000) % 256) as u8,
    ((n / 0x100) % 256) as u8, (n % 256) as u8
  ]
}

pub open spec fn to_be32(n: nat) -> Seq<u8> {
  seq![((n / 0x100_0000) % 256) as u8, ((n / 0x1_0000) % 256) as u8, ((n / 0x100) % 256) as u8, (n % 256) as u8]
}

pub open spec fn be32(s: Seq<u8>) -> nat
  recommends s.len() == 4
{
  (s[0] as nat) * 0x100_0000 + (s[1] as nat) * 0x1_0000 + (s[2] as nat) * 0x100 + (s[3] as nat)
}

pub open spec fn to_be16(n: nat) -> Seq<u8> {
  seq![((n / 0x100) % 256) as u8, (n % 256) as u8]
}

pub open spec fn be16(s: Seq<u8>) -> nat
  recommends s.len() == 2
{
  (s[0] as nat) * 0x100 + (s[1] as nat)
}

#[verifier::external_body]
pub fn verif_u64_from_be(b: [u8; 8]) -> (r: u64)
  ensures r as nat == be64(b@)
{ u64::from_be_bytes(b) }


#[verifier::external_body]
pub fn verif_u16_to_be(n: u16) -> (r: Vec<u8>)
  ensures r@ == to_be16(n as nat)
{ n.to_be_bytes().to_vec() }

// ---- R12 (tokio::select! desugaring): an arbitrary arm index; a future that never completes; a diverging expression
#[verifier::external_body]
pub fn verif_select() -> (r: u8) { unimplemented!() }
#[verifier::external_body]
// (Verus quirk: the ensures of an async fn WITHOUT a named return value is not assumed at the await; hence `-> (r: ())`)
pub async fn verif_pending() -> (r: ()) ensures false { unimplemented!() }
#[verifier::external_body]
pub fn verif_never() -> ! requires false { unimplemented!() }
