// ===== prelude/cipher.rs : IDataCipher as an abstract trait (TRUSTED shape: the trait's signature only) =====
// Nothing is assumed about encrypt/decrypt beyond their types: output length and content are arbitrary,
// either call may fail.  (So every property proved over it holds for CURVE, Noise and any other cipher.)
pub trait IDataCipher {
  // (the only ensures: a Vec never holds more than isize::MAX bytes -- Rust allocation invariant)
  fn encrypt(&mut self, plaintext: &[u8]) -> (r: Result<Vec<u8>, ZmqError>)
    ensures r matches Ok(v) ==> v@.len() <= isize::MAX;
  fn decrypt(&mut self, ciphertext: &[u8]) -> (r: Result<Vec<u8>, ZmqError>)
    ensures r matches Ok(v) ==> v@.len() <= isize::MAX;
}

// R8: `network_buffer.as_ref().get_u16()` -- Buf::get_u16 on a temporary &[u8] (big endian, does not consume the BytesMut)
#[verifier::external_body]
pub fn verif_peek_u16(b: &BytesMut) -> (r: u16)
  requires b@.len() >= 2
  ensures r as nat == be16(b@.subrange(0, 2))
{ unimplemented!() }

pub proof fn lemma_be16_roundtrip(n: nat)
  requires n <= 0xffff
  ensures be16(to_be16(n)) == n, to_be16(n).len() == 2
{}
