// ===== prelude/cipher.rs : IDataCipher as an abstract trait (TRUSTED shape: the trait's signature only) =====
// Nothing is assumed about encrypt/decrypt beyond their types: output length and content are arbitrary,
// either call may fail.  (So every property proved over it holds for CURVE, Noise and any other cipher.)
pub trait IDataCipher {
  // ghost history: every ciphertext block handed to decrypt so far, in order (a history variable, no behaviour assumed)
  spec fn dec_inputs(&self) -> Seq<Seq<u8>>;
  // (the only behavioural ensures: a Vec never holds more than isize::MAX bytes -- Rust allocation invariant)
  fn encrypt(&mut self, plaintext: &[u8]) -> (r: Result<Vec<u8>, ZmqError>)
    ensures r matches Ok(v) ==> v@.len() <= isize::MAX, final(self).dec_inputs() == old(self).dec_inputs();
  fn decrypt(&mut self, ciphertext: &[u8]) -> (r: Result<Vec<u8>, ZmqError>)
    ensures r matches Ok(v) ==> v@.len() <= isize::MAX, final(self).dec_inputs() == old(self).dec_inputs().push(ciphertext@);
}

// R8: `network_buffer.as_ref().get_u16()` -- Buf::get_u16 on a temporary &[u8] (big endian, does not consume the BytesMut)
#[verifier::external_body]
pub fn verif_peek_u16(b: &BytesMut) -> (r: u16)
  requires b@.len() >= 2
  ensures r as nat == be16(b@.subrange(0, 2))
{ unimplemented!() }

pub proof fn lemma_be16_roundtrip(n: nat)
  requires n <= 0xffff
  ensures be16(to_be16(n)) == n, to_be16(n).len() == 2
{}

// ---- the record layer of LengthPrefixedFramer on the read side: <len:u16 be><ciphertext of len bytes>
pub open spec fn rec_complete(s: Seq<u8>) -> bool { s.len() >= 2 && s.len() >= 2 + be16(s.subrange(0, 2)) }
pub open spec fn rec_len(s: Seq<u8>) -> nat recommends s.len() >= 2 { 2 + be16(s.subrange(0, 2)) }
pub open spec fn rec_body(s: Seq<u8>) -> Seq<u8> recommends rec_complete(s) { s.subrange(2, rec_len(s) as int) }
// the first n records of s are complete
pub open spec fn n_ok(s: Seq<u8>, n: nat) -> bool
  decreases n
{ n == 0 || (rec_complete(s) && n_ok(s.skip(rec_len(s) as int), (n - 1) as nat)) }
pub open spec fn consumed(s: Seq<u8>, n: nat) -> nat
  decreases n
{ if n == 0 { 0 } else { rec_len(s) + consumed(s.skip(rec_len(s) as int), (n - 1) as nat) } }
pub open spec fn bodies(s: Seq<u8>, n: nat) -> Seq<Seq<u8>>
  decreases n
{ if n == 0 { Seq::<Seq<u8>>::empty() } else { seq![rec_body(s)] + bodies(s.skip(rec_len(s) as int), (n - 1) as nat) } }

pub proof fn lemma_records_snoc(s: Seq<u8>, n: nat)
  requires n_ok(s, n), consumed(s, n) <= s.len(), rec_complete(s.skip(consumed(s, n) as int))
  ensures
    n_ok(s, n + 1),
    consumed(s, n + 1) == consumed(s, n) + rec_len(s.skip(consumed(s, n) as int)),
    consumed(s, n + 1) <= s.len(),
    bodies(s, n + 1) == bodies(s, n).push(rec_body(s.skip(consumed(s, n) as int))),
  decreases n
{
  if n == 0 {
    assert(s.skip(0) =~= s);
    let t = s.skip(rec_len(s) as int);
    assert(((n + 1) - 1) as nat == 0);
    assert(n_ok(t, 0));
    assert(consumed(t, 0) == 0);
    assert(bodies(t, 0) =~= Seq::<Seq<u8>>::empty());
    assert(n_ok(s, 1));
    assert(consumed(s, 1) == rec_len(s) + 0);
    assert(bodies(s, 1) == seq![rec_body(s)] + bodies(t, 0));
    assert(bodies(s, 0) =~= Seq::<Seq<u8>>::empty());
    assert(seq![rec_body(s)] + Seq::<Seq<u8>>::empty() =~= Seq::<Seq<u8>>::empty().push(rec_body(s)));
  } else {
    let t = s.skip(rec_len(s) as int);
    let m = (n - 1) as nat;
    assert(n_ok(t, m));
    lemma_consumed_bound(t, m);
    assert(consumed(s, n) == rec_len(s) + consumed(t, m));
    assert(t.skip(consumed(t, m) as int) =~= s.skip(consumed(s, n) as int));
    lemma_records_snoc(t, m);
    assert(((n + 1) - 1) as nat == m + 1);
    assert(n_ok(s, n + 1));
    assert(consumed(s, n + 1) == rec_len(s) + consumed(t, m + 1));
    assert(bodies(s, n + 1) == seq![rec_body(s)] + bodies(t, m + 1));
    assert(bodies(s, n) == seq![rec_body(s)] + bodies(t, m));
    let x = rec_body(t.skip(consumed(t, m) as int));
    assert(seq![rec_body(s)] + bodies(t, m).push(x) =~= (seq![rec_body(s)] + bodies(t, m)).push(x));
  }
}

pub proof fn lemma_consumed_bound(s: Seq<u8>, n: nat)
  requires n_ok(s, n)
  ensures consumed(s, n) <= s.len()
  decreases n
{
  if n > 0 { lemma_consumed_bound(s.skip(rec_len(s) as int), (n - 1) as nat); }
}
