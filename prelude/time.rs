// ===== prelude/time.rs : std::time::{Duration, Instant} as nanoseconds on an abstract clock (TRUSTED) =====
#[verifier::external_body]
#[derive(Clone, Copy)]
pub struct Duration { n: u64 }
#[verifier::external_body]
#[derive(Clone, Copy)]
pub struct Instant { n: u64 }
impl Duration {
  pub uninterp spec fn ns(&self) -> nat;
  #[verifier::external_body]
  pub fn from_millis(ms: u64) -> (r: Duration) ensures r.ns() == ms as nat * 1_000_000 { unimplemented!() }
  #[verifier::external_body]
  pub fn from_secs(s: u64) -> (r: Duration) ensures r.ns() == s as nat * 1_000_000_000 { unimplemented!() }
  #[verifier::external_body]
  pub fn as_millis(&self) -> (r: u128) ensures r as nat == self.ns() / 1_000_000 { unimplemented!() }
  #[verifier::external_body]
  pub fn is_zero(&self) -> (r: bool) ensures r == (self.ns() == 0) { unimplemented!() }
}
impl Instant {
  pub uninterp spec fn ns(&self) -> nat;
  // wall clock: any value (the engine must be correct for every reading)
  #[verifier::external_body]
  // ASSUMPTION: the monotonic clock reads below half of its representable range
  pub fn now() -> (r: Instant) ensures r.ns() <= 4_611_686_018_427_387_903nat * 1_000_000_000 { unimplemented!() }
  // std: saturates to zero when `earlier` is later than self
  #[verifier::external_body]
  pub fn duration_since(&self, earlier: Instant) -> (r: Duration)
    ensures r.ns() == (if self.ns() >= earlier.ns() { self.ns() - earlier.ns() } else { 0 })
  { unimplemented!() }
}
impl vstd::std_specs::cmp::PartialEqSpecImpl for Duration {
  open spec fn obeys_eq_spec() -> bool { true }
  open spec fn eq_spec(&self, other: &Duration) -> bool { self.ns() == other.ns() }
}
impl PartialEq for Duration { #[verifier::external_body] fn eq(&self, other: &Duration) -> bool { unimplemented!() } }
impl vstd::std_specs::cmp::PartialOrdSpecImpl for Duration {
  open spec fn obeys_partial_cmp_spec() -> bool { true }
  open spec fn partial_cmp_spec(&self, other: &Duration) -> Option<core::cmp::Ordering> {
    if self.ns() < other.ns() { Some(core::cmp::Ordering::Less) } else if self.ns() == other.ns() { Some(core::cmp::Ordering::Equal) } else { Some(core::cmp::Ordering::Greater) }
  }
}
impl PartialOrd for Duration { #[verifier::external_body] fn partial_cmp(&self, other: &Duration) -> Option<core::cmp::Ordering> { unimplemented!() } }


// ---- additional std::time API used by socket/core/state.rs (reconnect back-off)
pub open spec fn DUR_MAX_NS() -> nat { 18_446_744_073_709_551_615nat * 1_000_000_000 + 999_999_999 }
pub open spec fn INSTANT_MAX_NS() -> nat { 9_223_372_036_854_775_807nat * 1_000_000_000 }
impl Duration {
  #[verifier::external_body]
  // R5: Duration::ZERO
  pub fn verif_zero() -> (r: Duration) ensures r.ns() == 0 { unimplemented!() }
  // Duration::saturating_mul(u32): clamps at Duration::MAX
  #[verifier::external_body]
  pub fn saturating_mul(self, rhs: u32) -> (r: Duration)
    ensures r.ns() == (if self.ns() * rhs as nat <= DUR_MAX_NS() { self.ns() * rhs as nat } else { DUR_MAX_NS() })
  { unimplemented!() }
}
// R8: `a.min(b)` on Duration (Ord::min is a provided trait method)
#[verifier::external_body]
pub fn verif_dur_min(a: Duration, b: Duration) -> (r: Duration)
  ensures r.ns() == (if a.ns() <= b.ns() { a.ns() } else { b.ns() })
{ unimplemented!() }
// R8: `Instant::now() + delay`: std panics ("overflow when adding duration to instant") beyond the platform range
#[verifier::external_body]
pub fn verif_instant_add(t: Instant, d: Duration) -> (r: Instant)
  requires t.ns() + d.ns() <= INSTANT_MAX_NS()
  ensures r.ns() == t.ns() + d.ns()
{ unimplemented!() }
impl vstd::std_specs::cmp::PartialEqSpecImpl for Instant {
  open spec fn obeys_eq_spec() -> bool { true }
  open spec fn eq_spec(&self, other: &Instant) -> bool { self.ns() == other.ns() }
}
impl PartialEq for Instant { #[verifier::external_body] fn eq(&self, other: &Instant) -> bool { unimplemented!() } }
impl vstd::std_specs::cmp::PartialOrdSpecImpl for Instant {
  open spec fn obeys_partial_cmp_spec() -> bool { true }
  open spec fn partial_cmp_spec(&self, other: &Instant) -> Option<core::cmp::Ordering> {
    if self.ns() < other.ns() { Some(core::cmp::Ordering::Less) } else if self.ns() == other.ns() { Some(core::cmp::Ordering::Equal) } else { Some(core::cmp::Ordering::Greater) }
  }
}
impl PartialOrd for Instant { #[verifier::external_body] fn partial_cmp(&self, other: &Instant) -> Option<core::cmp::Ordering> { unimplemented!() } }
