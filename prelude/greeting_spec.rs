// ===== prelude/greeting_spec.rs : the ZMTP/3 greeting layout as spec functions + glue (shared by units greeting and engine) =====

pub open spec fn zeros(n: nat) -> Seq<u8> { Seq::new(n, |i: int| 0u8) }
pub open spec fn sig_bytes() -> Seq<u8> { seq![0xFFu8] + zeros(8) + seq![0x7Fu8] }
pub open spec fn v3_tail(mech: Seq<u8>, as_server: bool) -> Seq<u8> { seq![0u8] + mech + seq![if as_server { 1u8 } else { 0u8 }] + zeros(31) }
pub open spec fn greeting_ok(d: Seq<u8>) -> bool
  recommends d.len() == 64
{
  d[0] == 0xFF && (forall|i: int| 33 <= i < 64 ==> d[i] == 0) && d[10] == 3 && (d[32] == 0 || d[32] == 1)
}
// R8: `slice.try_into().unwrap()` for a 20-byte slice (length established by the preceding range index)
#[verifier::external_body]
pub fn verif_array20(s: &[u8]) -> (r: [u8; 20])
  requires s@.len() == 20
  ensures r@ == s@
{ unimplemented!() }
// R6: `as_server as u8`
pub fn verif_bool_u8(b: bool) -> (r: u8) ensures r == (if b { 1u8 } else { 0u8 }) { if b { 1 } else { 0 } }
