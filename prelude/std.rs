// ===== prelude/std.rs : assumed contracts of std functions vstd has no spec for (TRUSTED) =====
pub assume_specification<T: Clone>[ <[T]>::to_vec ](s: &[T]) -> (r: Vec<T>)
  ensures r@ == s@;

pub assume_specification<T>[ core::mem::replace::<T> ](dest: &mut T, src: T) -> (r: T)
  ensures r == *old(dest), *final(dest) == src;

// std::mem::take(dest) == std::mem::replace(dest, Default::default()); the value left behind is the type's default (for the
// stand-ins: stated by their Default::default contract), the old value is returned
pub assume_specification<T: core::default::Default>[ core::mem::take::<T> ](dest: &mut T) -> (r: T)
  ensures r == *old(dest), T::default.ensures((), *final(dest));
