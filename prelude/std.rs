// ===== prelude/std.rs : assumed contracts of std functions vstd has no spec for (TRUSTED) =====
pub assume_specification<T: Clone>[ <[T]>::to_vec ](s: &[T]) -> (r: Vec<T>)
  ensures r@ == s@;

pub assume_specification<T>[ core::mem::replace::<T> ](dest: &mut T, src: T) -> (r: T)
  ensures r == *old(dest), *final(dest) == src;
