// C02 witness (public API only): a PULL socket that is being read frame by frame with recv() loses the unread frames of the
// current multipart message when ANY peer disconnects (AnonymousIngressEngine::deregister_pipe cleared the frame cache).
use rzmq::socket::options::{LAST_ENDPOINT, LINGER, RCVTIMEO};
use rzmq::{Context, Msg, MsgFlags, SocketType, ZmqError};
use std::time::Duration;

#[tokio::test(flavor = "multi_thread", worker_threads = 2)]
async fn c02_peer_disconnect_must_not_truncate_message_being_read() -> Result<(), ZmqError> {
  let ctx = Context::new()?;
  let pull = ctx.socket(SocketType::Pull)?;
  pull.set_option_raw(RCVTIMEO, &1000i32.to_ne_bytes()).await?;
  pull.set_option_raw(LINGER, &0i32.to_ne_bytes()).await?;
  pull.bind("tcp://127.0.0.1:0").await?;
  let endpoint = String::from_utf8(pull.get_option(LAST_ENDPOINT).await?).unwrap();
  let push_a = ctx.socket(SocketType::Push)?;
  let push_b = ctx.socket(SocketType::Push)?;
  push_a.connect(&endpoint).await?;
  push_b.connect(&endpoint).await?;
  tokio::time::sleep(Duration::from_millis(300)).await;

  let mut f1 = Msg::from_static(b"a1");
  f1.set_flags(MsgFlags::MORE);
  let mut f2 = Msg::from_static(b"a2");
  f2.set_flags(MsgFlags::MORE);
  let f3 = Msg::from_static(b"a3");
  push_a.send_multipart(vec![f1, f2, f3]).await?;
  push_a.send(Msg::from_static(b"next")).await?;

  let first = pull.recv().await?;
  assert_eq!(first.data().unwrap_or(&[]), b"a1");
  assert!(first.is_more());

  // an unrelated peer goes away while the application is in the middle of the message
  push_b.close().await?;
  tokio::time::sleep(Duration::from_millis(500)).await;

  let second = pull.recv().await?;
  assert_eq!(
    String::from_utf8_lossy(second.data().unwrap_or(&[])),
    "a2",
    "second frame of the message was lost when another peer disconnected (message delivered truncated)"
  );
  let third = pull.recv().await?;
  assert_eq!(third.data().unwrap_or(&[]), b"a3");
  assert!(!third.is_more());
  Ok(())
}
