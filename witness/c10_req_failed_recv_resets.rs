// C10 known finding (witness, public API only): a REQ recv() that fails with Timeout returns the socket to ReadyToSend, so
// the history  send() Ok, recv() Err(Timeout), send() Ok  has two successful sends and no successful recv in between.
use rzmq::socket::options::{LAST_ENDPOINT, LINGER, RCVTIMEO, SNDTIMEO};
use rzmq::{Context, Msg, SocketType, ZmqError};
use std::time::Duration;

#[tokio::test(flavor = "multi_thread", worker_threads = 2)]
async fn c10_failed_recv_leaves_req_expecting_reply() -> Result<(), ZmqError> {
  let ctx = Context::new()?;
  let rep = ctx.socket(SocketType::Rep)?; // never answers
  rep.set_option_raw(LINGER, &0i32.to_ne_bytes()).await?;
  rep.bind("tcp://127.0.0.1:0").await?;
  let endpoint = String::from_utf8(rep.get_option(LAST_ENDPOINT).await?).unwrap();
  let req = ctx.socket(SocketType::Req)?;
  req.set_option_raw(SNDTIMEO, &500i32.to_ne_bytes()).await?;
  req.set_option_raw(RCVTIMEO, &100i32.to_ne_bytes()).await?;
  req.set_option_raw(LINGER, &0i32.to_ne_bytes()).await?;
  req.connect(&endpoint).await?;
  tokio::time::sleep(Duration::from_millis(200)).await;

  req.send(Msg::from_static(b"first")).await?;
  let r = req.recv().await;
  assert!(matches!(r, Err(ZmqError::Timeout)), "expected the reply to time out, got {:?}", r);
  let second = req.send(Msg::from_static(b"second")).await;
  assert!(
    matches!(second, Err(ZmqError::InvalidState(_))),
    "second send() after a failed recv() must be refused (no recv succeeded in between), got {:?}",
    second
  );
  Ok(())
}
