// C02 witness (public API only): a multipart request / reply read FRAME BY FRAME with recv() on REP / REQ.
// "A multipart message is delivered ... as exactly the frames that were sent ... whether it is read with recv_multipart() or frame by
// frame with recv()": after recv() returned a frame that says MORE, the next recv() must return the next frame of that message.
use rzmq::socket::options::{LAST_ENDPOINT, LINGER, RCVTIMEO};
use rzmq::{Context, Msg, MsgFlags, SocketType, ZmqError};
use std::time::Duration;

fn two_frames(a: &'static [u8], b: &'static [u8]) -> Vec<Msg> {
  let mut first = Msg::from_static(a);
  first.set_flags(MsgFlags::MORE);
  vec![first, Msg::from_static(b)]
}

#[tokio::test(flavor = "multi_thread", worker_threads = 2)]
async fn c02_req_and_rep_deliver_every_frame_when_read_with_recv() -> Result<(), ZmqError> {
  let ctx = Context::new()?;
  let rep = ctx.socket(SocketType::Rep)?;
  rep.set_option_raw(LINGER, &0i32.to_ne_bytes()).await?;
  rep.set_option_raw(RCVTIMEO, &1000i32.to_ne_bytes()).await?;
  rep.bind("tcp://127.0.0.1:0").await?;
  let endpoint = String::from_utf8(rep.get_option(LAST_ENDPOINT).await?).unwrap();
  let req = ctx.socket(SocketType::Req)?;
  req.set_option_raw(LINGER, &0i32.to_ne_bytes()).await?;
  req.set_option_raw(RCVTIMEO, &1000i32.to_ne_bytes()).await?;
  req.connect(&endpoint).await?;
  tokio::time::sleep(Duration::from_millis(200)).await;

  let mut problems: Vec<String> = Vec::new();

  // REP reads a two-frame request (from a DEALER; REQ itself sends single-part requests only) frame by frame
  let dealer = ctx.socket(SocketType::Dealer)?;
  dealer.set_option_raw(LINGER, &0i32.to_ne_bytes()).await?;
  dealer.set_option_raw(RCVTIMEO, &1000i32.to_ne_bytes()).await?;
  dealer.connect(&endpoint).await?;
  tokio::time::sleep(Duration::from_millis(200)).await;
  dealer.send_multipart(two_frames(b"q1", b"q2")).await?;
  let f1 = rep.recv().await?;
  if !(f1.data() == Some(&b"q1"[..]) && f1.is_more()) { problems.push(format!("REP first frame: {:?} more={}", f1.data(), f1.is_more())); }
  match rep.recv().await {
    Ok(f2) if f2.data() == Some(&b"q2"[..]) && !f2.is_more() => {}
    other => problems.push(format!("REP: the frame after [q1 MORE] should be q2, got {:?}", other.map(|m| m.data().map(|d| d.to_vec())))),
  }

  // finish that exchange, whatever state the REP socket is in now
  let _ = rep.send(Msg::from_static(b"done")).await;
  let _ = dealer.recv_multipart().await;

  // REQ reads a two-frame reply frame by frame
  req.send(Msg::from_static(b"ask")).await?;
  let _ = rep.recv_multipart().await?;
  rep.send_multipart(two_frames(b"r1", b"r2")).await?;
  let g1 = req.recv().await?;
  if !(g1.data() == Some(&b"r1"[..]) && g1.is_more()) { problems.push(format!("REQ first frame: {:?} more={}", g1.data(), g1.is_more())); }
  match req.recv().await {
    Ok(g2) if g2.data() == Some(&b"r2"[..]) && !g2.is_more() => {}
    other => problems.push(format!("REQ: the frame after [r1 MORE] should be r2, got {:?}", other.map(|m| m.data().map(|d| d.to_vec())))),
  }
  assert!(problems.is_empty(), "frames lost when a multipart message is read frame by frame: {:?}", problems);
  Ok(())
}
