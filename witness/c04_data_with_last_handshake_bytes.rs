// C04 witness (public API only + a raw TCP peer): data frames that arrive in the SAME read as the peer's last handshake bytes
// (READY for ZMTP/3.x, the identity frame for ZMTP/2.0) must be delivered, not silently dropped.
use rzmq::socket::options::LAST_ENDPOINT;
use rzmq::{Context, SocketType};
use std::time::Duration;
use tokio::io::{AsyncReadExt, AsyncWriteExt};
use tokio::net::TcpStream;

const FIRST_PAYLOAD: &[u8] = b"one-0123456789abcdef";

fn signature() -> Vec<u8> {
  let mut g = vec![0xFFu8];
  g.extend_from_slice(&[0u8; 8]);
  g.push(0x7F);
  g
}

/// Full 64-byte ZMTP/3.0 NULL greeting followed by the client's READY command.
fn handshake_v3_null(socket_type: &str) -> Vec<u8> {
  let mut g = signature();
  g.push(3); // major
  g.push(0); // minor
  let mut mech = [0u8; 20];
  mech[..4].copy_from_slice(b"NULL");
  g.extend_from_slice(&mech);
  g.push(0); // as-server
  g.extend_from_slice(&[0u8; 31]);
  assert_eq!(g.len(), 64);

  let mut body = vec![5u8];
  body.extend_from_slice(b"READY");
  body.push(11);
  body.extend_from_slice(b"Socket-Type");
  body.extend_from_slice(&(socket_type.len() as u32).to_be_bytes());
  body.extend_from_slice(socket_type.as_bytes());
  g.push(0x04); // COMMAND, short
  g.push(body.len() as u8);
  g.extend_from_slice(&body);
  g
}

/// ZMTP/2.0 handshake of an anonymous PUSH peer: signature, revision 1, socket type, empty identity.
fn handshake_v2_push() -> Vec<u8> {
  let mut g = signature();
  g.push(1); // revision: ZMTP/2.0
  g.push(8); // socket type PUSH
  g.extend_from_slice(&[0x00, 0x00]); // empty identity frame
  g
}

fn frame(payload: &[u8], more: bool) -> Vec<u8> {
  let mut f = vec![if more { 0x01 } else { 0x00 }, payload.len() as u8];
  f.extend_from_slice(payload);
  f
}


/// Sends `handshake ++ data` to a fresh PULL socket in ONE TCP write and returns the logical messages the PULL socket delivers.
async fn deliver_in_one_write(handshake: &[u8]) -> Vec<Vec<Vec<u8>>> {
  let ctx = Context::new().expect("context");
  let pull = ctx.socket(SocketType::Pull).expect("pull socket");
  pull.bind("tcp://127.0.0.1:0").await.expect("bind");
  let ep = String::from_utf8(pull.get_option(LAST_ENDPOINT).await.expect("LAST_ENDPOINT")).unwrap();
  let addr = ep.trim_start_matches("tcp://").to_string();

  let mut transcript = handshake.to_vec();
  transcript.extend_from_slice(&frame(FIRST_PAYLOAD, false));
  transcript.extend_from_slice(&frame(b"two-a", true));
  transcript.extend_from_slice(&frame(b"two-b", false));
  assert!(transcript.len() < 256, "the write must fit a single handshake read");

  let mut s = TcpStream::connect(&addr).await.expect("connect");
  s.set_nodelay(true).unwrap();
  s.write_all(&transcript).await.unwrap();
  s.flush().await.unwrap();
  let mut sink = [0u8; 512];
  let _ = tokio::time::timeout(Duration::from_millis(50), s.read(&mut sink)).await;

  let mut got = Vec::new();
  for _ in 0..2 {
    match tokio::time::timeout(Duration::from_millis(1500), pull.recv_multipart()).await {
      Ok(Ok(m)) => got.push(m.iter().map(|f| f.data().unwrap_or(&[]).to_vec()).collect()),
      _ => break,
    }
  }
  drop(s);
  let _ = tokio::time::timeout(Duration::from_secs(5), ctx.term()).await;
  got
}

fn expected() -> Vec<Vec<Vec<u8>>> {
  vec![vec![FIRST_PAYLOAD.to_vec()], vec![b"two-a".to_vec(), b"two-b".to_vec()]]
}

fn show(msgs: &[Vec<Vec<u8>>]) -> Vec<Vec<String>> {
  msgs.iter().map(|m| m.iter().map(|f| String::from_utf8_lossy(f).into_owned()).collect()).collect()
}

#[tokio::test]
async fn c04_v3_data_in_the_same_write_as_ready_is_delivered() {
  let got = deliver_in_one_write(&handshake_v3_null("PUSH")).await;
  assert_eq!(show(&got), show(&expected()), "ZMTP/3 NULL: greeting + READY + two messages in one write");
}

#[tokio::test]
async fn c04_v2_data_in_the_same_write_as_the_identity_frame_is_delivered() {
  let got = deliver_in_one_write(&handshake_v2_push()).await;
  assert_eq!(show(&got), show(&expected()), "ZMTP/2.0: greeting + identity + two messages in one write");
}
