// C01 / C14 witness (public API only): DEALER with a POSITIVE SNDTIMEO against a ROUTER that does not read.
// Every message for which send() answered Ok must arrive, once, in order, intact; a send that could not be completed within
// SNDTIMEO must answer an error -- it must never answer Ok for a message that is then lost.
use rzmq::socket::options::{LAST_ENDPOINT, LINGER, RCVHWM, RCVTIMEO, ROUTING_ID, SNDHWM, SNDTIMEO};
use rzmq::{Context, Msg, SocketType, ZmqError};
use std::time::{Duration, Instant};

#[tokio::test(flavor = "multi_thread", worker_threads = 4)]
async fn c01_dealer_positive_sndtimeo_never_reports_ok_for_a_lost_message() -> Result<(), ZmqError> {
  let ctx = Context::new()?;
  let router = ctx.socket(SocketType::Router)?;
  router.set_option_raw(LINGER, &0i32.to_ne_bytes()).await?;
  router.set_option_raw(RCVHWM, &1i32.to_ne_bytes()).await?;
  router.set_option_raw(RCVTIMEO, &1500i32.to_ne_bytes()).await?;
  router.bind("tcp://127.0.0.1:0").await?;
  let endpoint = String::from_utf8(router.get_option(LAST_ENDPOINT).await?).unwrap();
  let dealer = ctx.socket(SocketType::Dealer)?;
  dealer.set_option_raw(LINGER, &0i32.to_ne_bytes()).await?;
  dealer.set_option_raw(SNDHWM, &1i32.to_ne_bytes()).await?;
  dealer.set_option_raw(SNDTIMEO, &100i32.to_ne_bytes()).await?;
  dealer.set_option_raw(ROUTING_ID, b"d").await?;
  dealer.connect(&endpoint).await?;
  tokio::time::sleep(Duration::from_millis(200)).await;

  // phase 1: the ROUTER does not read; send until several calls have run into the back-pressure (took about SNDTIMEO or failed)
  let pad = vec![0x5au8; 128 * 1024];
  let mut accepted: Vec<u32> = Vec::new();
  let mut refused = 0u32;
  let mut slow_calls = 0u32;
  for i in 0..2000u32 {
    let mut body = i.to_be_bytes().to_vec();
    body.extend_from_slice(&pad);
    let t0 = Instant::now();
    match dealer.send(Msg::from_vec(body)).await {
      Ok(()) => accepted.push(i),
      Err(ZmqError::ResourceLimitReached) | Err(ZmqError::Timeout) => refused += 1,
      Err(e) => panic!("send {}: {:?}", i, e),
    }
    if t0.elapsed() >= Duration::from_millis(80) {
      slow_calls += 1;
      if slow_calls >= 8 { break; }
    }
  }
  assert!(slow_calls >= 8, "back-pressure was never reached (accepted {}, refused {})", accepted.len(), refused);

  // phase 2: the ROUTER reads everything that arrives
  let mut got: Vec<u32> = Vec::new();
  let mut malformed = 0u32;
  loop {
    match router.recv_multipart().await {
      Ok(frames) => {
        let body = frames.last().and_then(|f| f.data()).unwrap_or(&[]);
        if body.len() == 4 + pad.len() { got.push(u32::from_be_bytes([body[0], body[1], body[2], body[3]])); } else { malformed += 1; }
      }
      Err(ZmqError::Timeout) => break,
      Err(e) => panic!("recv: {:?}", e),
    }
  }
  let lost: Vec<u32> = accepted.iter().copied().filter(|i| !got.contains(i)).collect();
  assert!(
    lost.is_empty() && malformed == 0 && got == accepted,
    "send() answered Ok for {} messages; {} arrived; accepted-but-lost ids {:?}; {} malformed messages arrived; {} sends were refused",
    accepted.len(), got.len(), &lost[..lost.len().min(10)], malformed, refused
  );
  Ok(())
}
