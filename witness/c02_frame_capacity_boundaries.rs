// C02 / C07 witnesses (public API only): a message at or just beyond the 255-frame capacity of a FrameBatch must be refused with an
// error (sender) or close the offending connection / surface an error (receiver); no call may panic.
use rzmq::socket::options::{AUTO_DELIMITER, LAST_ENDPOINT, LINGER, RCVTIMEO, ROUTING_ID, SNDTIMEO};
use rzmq::{Context, Msg, MsgFlags, Socket, SocketType, ZmqError};
use std::time::Duration;

fn frames(n: usize) -> Vec<Msg> {
  (0..n)
    .map(|i| {
      let mut m = Msg::from_vec(vec![(i % 251) as u8]);
      if i + 1 < n {
        m.set_flags(MsgFlags::MORE);
      }
      m
    })
    .collect()
}

async fn pair(ctx: &Context, a: SocketType, b: SocketType) -> Result<(Socket, Socket), ZmqError> {
  let server = ctx.socket(a)?;
  server.set_option_raw(LINGER, &0i32.to_ne_bytes()).await?;
  server.set_option_raw(RCVTIMEO, &2000i32.to_ne_bytes()).await?;
  server.set_option_raw(SNDTIMEO, &2000i32.to_ne_bytes()).await?;
  server.bind("tcp://127.0.0.1:0").await?;
  let endpoint = String::from_utf8(server.get_option(LAST_ENDPOINT).await?).unwrap();
  let client = ctx.socket(b)?;
  client.set_option_raw(LINGER, &0i32.to_ne_bytes()).await?;
  client.set_option_raw(RCVTIMEO, &2000i32.to_ne_bytes()).await?;
  client.set_option_raw(SNDTIMEO, &2000i32.to_ne_bytes()).await?;
  if b == SocketType::Dealer {
    client.set_option_raw(ROUTING_ID, b"peer-1").await?;
  }
  client.connect(&endpoint).await?;
  tokio::time::sleep(Duration::from_millis(200)).await;
  Ok((server, client))
}

async fn no_panic<T: Send + 'static>(what: &str, fut: impl std::future::Future<Output = T> + Send + 'static) -> T {
  match tokio::spawn(fut).await {
    Ok(v) => v,
    Err(e) if e.is_panic() => panic!("{what} PANICKED: {:?}", e),
    Err(e) => panic!("{what}: task failed: {:?}", e),
  }
}

#[tokio::test(flavor = "multi_thread", worker_threads = 2)]
async fn c02_send_multipart_of_256_frames_is_refused_not_a_panic() -> Result<(), ZmqError> {
  let ctx = Context::new()?;
  let (_pull, push) = pair(&ctx, SocketType::Pull, SocketType::Push).await?;
  let r = no_panic("PUSH send_multipart(256 frames)", async move { push.send_multipart(frames(256)).await }).await;
  assert!(r.is_err(), "a 256-frame message cannot be represented; it must be refused, got {:?}", r);
  Ok(())
}

#[tokio::test(flavor = "multi_thread", worker_threads = 2)]
async fn c02_dealer_send_multipart_of_255_frames_is_sent_or_refused_not_a_panic() -> Result<(), ZmqError> {
  let ctx = Context::new()?;
  let (_router, dealer) = pair(&ctx, SocketType::Router, SocketType::Dealer).await?;
  let r = no_panic("DEALER send_multipart(255 frames)", async move { dealer.send_multipart(frames(255)).await }).await;
  println!("dealer 255 frames: {:?}", r);
  Ok(())
}

#[tokio::test(flavor = "multi_thread", worker_threads = 2)]
async fn c02_rep_reply_of_255_frames_is_sent_or_refused_not_a_panic() -> Result<(), ZmqError> {
  let ctx = Context::new()?;
  let (rep, req) = pair(&ctx, SocketType::Rep, SocketType::Req).await?;
  req.send(Msg::from_static(b"request")).await?;
  assert_eq!(rep.recv().await?.data().unwrap(), b"request");
  let r = no_panic("REP send_multipart(255 frames)", async move { rep.send_multipart(frames(255)).await }).await;
  println!("rep 255 frames: {:?}", r);
  Ok(())
}

#[tokio::test(flavor = "multi_thread", worker_threads = 2)]
async fn c07_router_receiving_a_255_frame_message_does_not_panic() -> Result<(), ZmqError> {
  let ctx = Context::new()?;
  let (router, dealer) = pair(&ctx, SocketType::Router, SocketType::Dealer).await?;
  // a DEALER that does its own framing puts exactly the frames it is given on the wire: 255 is the most a message can hold
  dealer.set_option_raw(AUTO_DELIMITER, &0i32.to_ne_bytes()).await?;
  dealer.send_multipart(frames(255)).await?;
  let r = no_panic("ROUTER recv_multipart() of a 255-frame message", async move { router.recv_multipart().await.map(|f| f.len()) }).await;
  println!("router recv: {:?}", r);
  Ok(())
}

#[tokio::test(flavor = "multi_thread", worker_threads = 2)]
async fn c02_router_send_of_255_payload_frames_is_sent_or_refused_not_a_panic() -> Result<(), ZmqError> {
  let ctx = Context::new()?;
  let (router, dealer) = pair(&ctx, SocketType::Router, SocketType::Dealer).await?;
  dealer.send(Msg::from_static(b"hello")).await?;
  let first = router.recv_multipart().await?;
  assert_eq!(first[0].data().unwrap(), b"peer-1");
  let mut msg = vec![{
    let mut id = Msg::from_static(b"peer-1");
    id.set_flags(MsgFlags::MORE);
    id
  }];
  msg.extend(frames(254));
  let r = no_panic("ROUTER send_multipart(identity + 254 frames)", async move { router.send_multipart(msg).await }).await;
  println!("router send 1+254: {:?}", r);
  Ok(())
}
