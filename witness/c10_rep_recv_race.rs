// C10 witness (integration test, public API only): several tasks race recv() on clones of one REP socket that is in
// ReadyToReceive while requests from several REQ peers are queued, on a multi-threaded runtime.  Property C10: exactly one
// recv() succeeds (the socket then owes a reply); the others fail with InvalidState.  When two succeed, the second
// overwrites the remembered requester and the first request can never be answered.
use rzmq::socket::options::{LAST_ENDPOINT, LINGER, RCVTIMEO, SNDTIMEO};
use rzmq::{Context, Msg, SocketType, ZmqError};
use std::sync::Arc;
use std::time::Duration;

#[tokio::test(flavor = "multi_thread", worker_threads = 8)]
async fn c10_racing_rep_recvs_exactly_one_succeeds() -> Result<(), ZmqError> {
  let ctx = Context::new()?;
  let rep = ctx.socket(SocketType::Rep)?;
  rep.set_option_raw(RCVTIMEO, &300i32.to_ne_bytes()).await?;
  rep.set_option_raw(SNDTIMEO, &300i32.to_ne_bytes()).await?;
  rep.set_option_raw(LINGER, &0i32.to_ne_bytes()).await?;
  rep.bind("tcp://127.0.0.1:0").await?;
  let endpoint = String::from_utf8(rep.get_option(LAST_ENDPOINT).await?).unwrap();
  let mut clients = Vec::new();
  for _ in 0..4 {
    let c = ctx.socket(SocketType::Req)?;
    c.set_option_raw(RCVTIMEO, &150i32.to_ne_bytes()).await?;
    c.set_option_raw(LINGER, &0i32.to_ne_bytes()).await?;
    c.connect(&endpoint).await?;
    clients.push(c);
  }
  tokio::time::sleep(Duration::from_millis(300)).await;

  let racers = 6;
  let mut bad: Vec<(usize, usize)> = Vec::new();
  for round in 0..400 {
    for c in &clients {
      c.send(Msg::from_static(b"req")).await?;
    }
    tokio::time::sleep(Duration::from_millis(5)).await;
    let barrier = Arc::new(tokio::sync::Barrier::new(racers));
    let mut handles = Vec::new();
    for _ in 0..racers {
      let r = rep.clone();
      let b = barrier.clone();
      handles.push(tokio::spawn(async move {
        b.wait().await;
        r.recv().await
      }));
    }
    let mut ok = 0;
    for h in handles {
      if h.await.unwrap().is_ok() {
        ok += 1;
      }
    }
    if ok != 1 {
      bad.push((round, ok));
      break;
    }
    // finish the round in lock-step: answer the request taken, then serve the other three
    rep.send(Msg::from_static(b"ack")).await?;
    for _ in 1..clients.len() {
      let _ = rep.recv().await?;
      rep.send(Msg::from_static(b"ack")).await?;
    }
    for c in &clients {
      let _ = c.recv().await;
    }
  }
  assert!(bad.is_empty(), "rounds in which the number of successful racing REP recv() calls was not 1 (round, successes): {:?}", bad);
  Ok(())
}
