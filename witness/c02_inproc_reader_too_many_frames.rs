// C02 / C07 witness (public API only): a PUSH socket sends a multipart message of more than 255 frames frame by frame (send() with
// MORE) over inproc.  Over tcp the receiving engine refuses such a message and closes the connection; over inproc the reader task that
// reassembles the frames must do the same -- it must not panic (a panicking reader task silently kills the connection's receive side).
use rzmq::socket::options::{LINGER, RCVTIMEO, SNDTIMEO};
use rzmq::{Context, Msg, MsgFlags, SocketType, ZmqError};
use std::sync::atomic::{AtomicUsize, Ordering};
use std::sync::Arc;
use std::time::Duration;

#[tokio::test(flavor = "multi_thread", worker_threads = 2)]
async fn c02_inproc_reader_does_not_panic_on_a_message_with_too_many_frames() -> Result<(), ZmqError> {
  let panics = Arc::new(AtomicUsize::new(0));
  let seen = Arc::new(std::sync::Mutex::new(Vec::<String>::new()));
  {
    let (panics, seen) = (panics.clone(), seen.clone());
    std::panic::set_hook(Box::new(move |info| {
      panics.fetch_add(1, Ordering::SeqCst);
      seen.lock().unwrap().push(format!("{}", info));
    }));
  }
  let ctx = Context::new()?;
  let pull = ctx.socket(SocketType::Pull)?;
  pull.set_option_raw(LINGER, &0i32.to_ne_bytes()).await?;
  pull.set_option_raw(RCVTIMEO, &500i32.to_ne_bytes()).await?;
  pull.bind("inproc://c02-too-many-frames").await?;
  let push = ctx.socket(SocketType::Push)?;
  push.set_option_raw(LINGER, &0i32.to_ne_bytes()).await?;
  push.set_option_raw(SNDTIMEO, &500i32.to_ne_bytes()).await?;
  push.connect("inproc://c02-too-many-frames").await?;
  tokio::time::sleep(Duration::from_millis(150)).await;

  let mut refused = None;
  for i in 0..300usize {
    let mut m = Msg::from_vec(vec![(i % 251) as u8]);
    m.set_flags(MsgFlags::MORE);
    if let Err(e) = push.send(m).await {
      refused = Some((i, e));
      break;
    }
    if i % 16 == 0 { tokio::task::yield_now().await; }
  }
  if refused.is_none() {
    let _ = push.send(Msg::from_static(b"last")).await;
  }
  // give the reader task time to chew on what arrived
  let _ = pull.recv_multipart().await;
  tokio::time::sleep(Duration::from_millis(200)).await;
  let _ = std::panic::take_hook();
  let n = panics.load(Ordering::SeqCst);
  assert!(n == 0, "{} panic(s) inside rzmq while an over-long multipart message crossed inproc: {:?} (sender refused: {:?})", n, seen.lock().unwrap(), refused);
  Ok(())
}
