// C02 witness (public API only): a PUB socket (SNDHWM 4, SNDTIMEO 0) publishes three-frame messages frame by frame (send() with
// MORE) faster than its subscriber reads.  PUB may drop MESSAGES for a slow subscriber, but whatever the subscriber receives must be
// whole messages: [id.0 MORE][id.1 MORE][id.2] -- never a message with a frame missing or with frames of different messages.
use rzmq::socket::options::{LAST_ENDPOINT, LINGER, RCVHWM, RCVTIMEO, SNDHWM, SNDTIMEO, SUBSCRIBE};
use rzmq::{Context, Msg, MsgFlags, SocketType, ZmqError};
use std::time::Duration;

#[tokio::test(flavor = "multi_thread", worker_threads = 4)]
async fn c02_pub_never_delivers_a_partial_multipart_message() -> Result<(), ZmqError> {
  let ctx = Context::new()?;
  let publisher = ctx.socket(SocketType::Pub)?;
  publisher.set_option_raw(LINGER, &0i32.to_ne_bytes()).await?;
  publisher.set_option_raw(SNDHWM, &4i32.to_ne_bytes()).await?;
  publisher.set_option_raw(SNDTIMEO, &0i32.to_ne_bytes()).await?;
  publisher.bind("tcp://127.0.0.1:0").await?;
  let endpoint = String::from_utf8(publisher.get_option(LAST_ENDPOINT).await?).unwrap();
  let sub = ctx.socket(SocketType::Sub)?;
  sub.set_option_raw(LINGER, &0i32.to_ne_bytes()).await?;
  sub.set_option_raw(RCVHWM, &1i32.to_ne_bytes()).await?;
  sub.set_option_raw(RCVTIMEO, &700i32.to_ne_bytes()).await?;
  sub.set_option_raw(SUBSCRIBE, b"").await?;
  sub.connect(&endpoint).await?;
  tokio::time::sleep(Duration::from_millis(300)).await;

  let pad = vec![0x42u8; 32 * 1024];
  let publishing = {
    let publisher = publisher.clone();
    tokio::spawn(async move {
      for id in 0..3000u32 {
        for k in 0..3u8 {
          let mut body = id.to_be_bytes().to_vec();
          body.push(k);
          body.extend_from_slice(&pad);
          let mut m = Msg::from_vec(body);
          if k < 2 { m.set_flags(MsgFlags::MORE); }
          let _ = publisher.send(m).await; // PUB never reports a slow subscriber
        }
        if id % 4 == 0 { tokio::time::sleep(Duration::from_micros(300)).await; }
      }
    })
  };

  let mut whole = 0u32;
  let mut broken: Vec<String> = Vec::new();
  let mut n = 0u32;
  loop {
    match sub.recv_multipart().await {
      Ok(frames) => {
        n += 1;
        if n % 8 == 0 { tokio::time::sleep(Duration::from_millis(2)).await; } // a slow reader
        let shape: Vec<(u32, u8)> = frames
          .iter()
          .map(|f| { let d = f.data().unwrap_or(&[]); if d.len() >= 5 { (u32::from_be_bytes([d[0], d[1], d[2], d[3]]), d[4]) } else { (u32::MAX, 255) } })
          .collect();
        let ok = shape.len() == 3 && shape.iter().all(|s| s.0 == shape[0].0) && shape[0].1 == 0 && shape[1].1 == 1 && shape[2].1 == 2;
        if ok { whole += 1; } else if broken.len() < 6 { broken.push(format!("{:?}", shape)); }
      }
      Err(ZmqError::Timeout) => if publishing.is_finished() { break },
      Err(e) => panic!("recv: {:?}", e),
    }
  }
  eprintln!("received {} messages, {} whole", n, whole);
  assert!(broken.is_empty(), "{} whole messages, but also partial ones, as (id, frame index) lists: {:?}", whole, broken);
  assert!(whole > 0, "nothing was delivered at all");
  Ok(())
}
