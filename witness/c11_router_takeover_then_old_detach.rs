// C11 witness (public API only): a client reconnects with the SAME routing id while the ROUTER still holds its old connection
// (the new connection takes the identity over); when the OLD connection is finally detached, the identity must keep routing
// to the new, live connection.
use rzmq::socket::options::{LAST_ENDPOINT, LINGER, ROUTER_MANDATORY, ROUTING_ID};
use rzmq::{Context, Msg, MsgFlags, Socket, SocketType, ZmqError};
use std::time::Duration;
use tokio::time::timeout;

const ID: &[u8] = b"client-7";
const WAIT: Duration = Duration::from_secs(3);

async fn new_dealer(ctx: &Context, endpoint: &str) -> Result<Socket, ZmqError> {
  let dealer = ctx.socket(SocketType::Dealer)?;
  dealer.set_option_raw(ROUTING_ID, ID).await?;
  dealer.set_option_raw(LINGER, &0i32.to_ne_bytes()).await?;
  dealer.connect(endpoint).await?;
  tokio::time::sleep(Duration::from_millis(200)).await;
  Ok(dealer)
}

async fn request(dealer: &Socket, router: &Socket, req: &'static [u8]) {
  timeout(WAIT, dealer.send(Msg::from_static(req))).await.expect("dealer send timed out").expect("dealer send failed");
  let frames = timeout(WAIT, router.recv_multipart()).await.expect("router recv timed out").expect("router recv failed");
  assert_eq!(frames.len(), 2);
  assert_eq!(frames[0].data().unwrap(), ID, "request must be prefixed with the identity the peer announced");
  assert_eq!(frames[1].data().unwrap(), req);
}

async fn reply(router: &Socket, payload: &'static [u8]) -> Result<(), ZmqError> {
  let mut id = Msg::from_static(ID);
  id.set_flags(MsgFlags::MORE);
  timeout(WAIT, router.send_multipart(vec![id, Msg::from_static(payload)])).await.expect("router send_multipart timed out")
}

#[tokio::test(flavor = "multi_thread", worker_threads = 2)]
async fn c11_identity_keeps_routing_to_the_live_connection_after_the_stale_one_is_detached() -> Result<(), ZmqError> {
  let ctx = Context::new()?;
  let router = ctx.socket(SocketType::Router)?;
  router.set_option_raw(ROUTER_MANDATORY, &1i32.to_ne_bytes()).await?;
  router.set_option_raw(LINGER, &0i32.to_ne_bytes()).await?;
  router.bind("tcp://127.0.0.1:0").await?;
  let endpoint = String::from_utf8(router.get_option(LAST_ENDPOINT).await?).unwrap();

  let old_conn = new_dealer(&ctx, &endpoint).await?;
  request(&old_conn, &router, b"hello-1").await;
  reply(&router, b"ack-1").await?;
  assert_eq!(timeout(WAIT, old_conn.recv()).await.expect("no ack-1")?.data().unwrap(), b"ack-1");

  // the client comes back on a NEW connection with the same routing id; the ROUTER still holds the old one
  let new_conn = new_dealer(&ctx, &endpoint).await?;
  request(&new_conn, &router, b"hello-2").await;
  reply(&router, b"ack-2").await?;
  assert_eq!(timeout(WAIT, new_conn.recv()).await.expect("no ack-2 on the new connection")?.data().unwrap(), b"ack-2");

  // now the ROUTER finally notices that the OLD connection is gone
  old_conn.close().await?;
  tokio::time::sleep(Duration::from_millis(600)).await;

  // the new connection is alive and announced the identity: it must still be addressable
  request(&new_conn, &router, b"hello-3").await;
  match reply(&router, b"ack-3").await {
    Ok(()) => {}
    Err(e) => panic!("ROUTER cannot route to identity {:?} although the connection that announced it is alive: {:?}", String::from_utf8_lossy(ID), e),
  }
  match timeout(WAIT, new_conn.recv()).await {
    Ok(Ok(m)) => assert_eq!(m.data().unwrap(), b"ack-3"),
    other => panic!("live connection never received ack-3 after the stale connection was detached: {:?}", other.map(|r| r.map(|m| m.size()))),
  }
  Ok(())
}
