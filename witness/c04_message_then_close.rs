// C04 / C01 witness (public API only + a raw TCP peer): a peer completes the handshake, sends one last message and closes the
// connection at once.  The message's bytes and the end of the stream then reach rzmq in the same read cycle; the message was sent
// before the close and must be delivered -- what is delivered depends only on the bytes the peer sent, not on how they were cut into
// reads or on the close arriving together with them.
use rzmq::socket::options::{LAST_ENDPOINT, RCVTIMEO};
use rzmq::{Context, SocketType};
use std::time::Duration;
use tokio::io::{AsyncReadExt, AsyncWriteExt};
use tokio::net::TcpStream;

fn signature() -> Vec<u8> {
  let mut g = vec![0xFFu8];
  g.extend_from_slice(&[0u8; 8]);
  g.push(0x7F);
  g
}

/// Full 64-byte ZMTP/3.0 NULL greeting followed by the client's READY command.
fn handshake_v3_null(socket_type: &str) -> Vec<u8> {
  let mut g = signature();
  g.push(3); // major
  g.push(0); // minor
  let mut mech = [0u8; 20];
  mech[..4].copy_from_slice(b"NULL");
  g.extend_from_slice(&mech);
  g.push(0); // as-server
  g.extend_from_slice(&[0u8; 31]);
  assert_eq!(g.len(), 64);

  let mut body = vec![5u8];
  body.extend_from_slice(b"READY");
  body.push(11);
  body.extend_from_slice(b"Socket-Type");
  body.extend_from_slice(&(socket_type.len() as u32).to_be_bytes());
  body.extend_from_slice(socket_type.as_bytes());
  g.push(0x04); // COMMAND, short
  g.push(body.len() as u8);
  g.extend_from_slice(&body);
  g
}

fn frame(payload: &[u8], more: bool) -> Vec<u8> {
  let mut f = vec![if more { 0x01 } else { 0x00 }, payload.len() as u8];
  f.extend_from_slice(payload);
  f
}

#[tokio::test(flavor = "multi_thread", worker_threads = 2)]
async fn c04_message_sent_right_before_close_is_delivered() {
  let ctx = Context::new().expect("context");
  let pull = ctx.socket(SocketType::Pull).expect("pull socket");
  pull.set_option_raw(RCVTIMEO, &700i32.to_ne_bytes()).await.unwrap();
  pull.bind("tcp://127.0.0.1:0").await.expect("bind");
  let ep = String::from_utf8(pull.get_option(LAST_ENDPOINT).await.expect("LAST_ENDPOINT")).unwrap();
  let addr = ep.trim_start_matches("tcp://").to_string();

  let rounds = 40usize;
  let mut lost = Vec::new();
  for round in 0..rounds {
    let mut s = TcpStream::connect(&addr).await.expect("connect");
    s.set_nodelay(true).unwrap();
    s.write_all(&handshake_v3_null("PUSH")).await.unwrap();
    // wait until rzmq has answered with its greeting + READY: the connection is in the data phase on both sides
    let mut sink = [0u8; 512];
    let mut seen = 0usize;
    while seen < 64 + 2 {
      let n = tokio::time::timeout(Duration::from_secs(2), s.read(&mut sink)).await.expect("handshake answer").expect("read");
      assert!(n > 0, "rzmq closed during the handshake");
      seen += n;
    }
    tokio::time::sleep(Duration::from_millis(30)).await;
    // the last message, then the close, back to back
    let payload = format!("last-{:02}", round);
    s.write_all(&frame(payload.as_bytes(), false)).await.unwrap();
    s.shutdown().await.unwrap();
    drop(s);
    match pull.recv().await {
      Ok(m) if m.data() == Some(payload.as_bytes()) => {}
      other => lost.push(format!("round {}: {:?}", round, other.map(|m| m.data().map(|d| String::from_utf8_lossy(d).into_owned())))),
    }
  }
  assert!(lost.is_empty(), "{} of {} messages that were sent right before the peer closed were not delivered: {:?}", lost.len(), rounds, &lost[..lost.len().min(5)]);
}
