#[cfg(test)]
mod verif_lost_wakeup_witness {
  use super::*;
  use crate::socket::connection_iface::DummyConnection;
  use std::future::Future;
  use std::pin::Pin;
  use std::sync::atomic::{AtomicUsize, Ordering};
  use std::sync::{Arc as SArc, Barrier};
  use std::task::{Context as TaskContext, Poll, RawWaker, RawWakerVTable, Waker};

  fn counting_waker(counter: SArc<AtomicUsize>) -> Waker {
    fn clone(p: *const ()) -> RawWaker { let a = unsafe { SArc::from_raw(p as *const AtomicUsize) }; let b = a.clone(); std::mem::forget(a); RawWaker::new(SArc::into_raw(b) as *const (), &VT) }
    fn wake(p: *const ()) { let a = unsafe { SArc::from_raw(p as *const AtomicUsize) }; a.fetch_add(1, Ordering::SeqCst); }
    fn wake_by_ref(p: *const ()) { let a = unsafe { SArc::from_raw(p as *const AtomicUsize) }; a.fetch_add(1, Ordering::SeqCst); std::mem::forget(a); }
    fn drop_w(p: *const ()) { unsafe { drop(SArc::from_raw(p as *const AtomicUsize)); } }
    static VT: RawWakerVTable = RawWakerVTable::new(clone, wake, wake_by_ref, drop_w);
    unsafe { Waker::from_raw(RawWaker::new(SArc::into_raw(counter) as *const (), &VT)) }
  }

  // C13 witness: a sender parked in wait_for_connection() must be woken (or find the peer) whenever a peer is added, for EVERY
  // interleaving of "sender checks, then waits" with "peer added".  Two OS threads, one polls the future by hand, the other adds the peer.
  #[test]
  fn c13_wait_for_connection_never_misses_a_peer_added_concurrently() {
    let mut missed = Vec::new();
    for round in 0..600_000usize {
      let lb = SArc::new(LoadBalancer::new());
      let barrier = SArc::new(Barrier::new(2));
      let wakes = SArc::new(AtomicUsize::new(0));
      let (lb2, b2) = (lb.clone(), barrier.clone());
      let adder = std::thread::spawn(move || {
        b2.wait();
        for _ in 0..(round % 48) { std::hint::spin_loop(); }
        lb2.add_connection("tcp://peer".to_string(), Arc::new(DummyConnection));
      });
      let waker = counting_waker(wakes.clone());
      let mut cx = TaskContext::from_waker(&waker);
      let mut fut = Box::pin(lb.wait_for_connection());
      barrier.wait();
      for _ in 0..((round / 48) % 48) { std::hint::spin_loop(); }
      let first = Pin::new(&mut fut).poll(&mut cx);
      adder.join().unwrap();
      if first.is_pending() {
        // the peer is in the balancer now: either the future was woken, or polling it again must complete
        if wakes.load(Ordering::SeqCst) == 0 {
          missed.push(round);
          if missed.len() >= 3 { break; }
        }
      }
    }
    assert!(missed.is_empty(), "wait_for_connection() parked WITHOUT ever being woken although a peer was added concurrently (lost wake-up) in rounds {:?}", missed);
  }
}
