// C02 witness (public API only): a DEALER that is handed a message of more than 255 frames frame by frame (send() with MORE)
// must refuse it with an error; it must not panic.
use rzmq::socket::options::{LAST_ENDPOINT, LINGER, SNDTIMEO};
use rzmq::{Context, Msg, MsgFlags, SocketType, ZmqError};
use std::time::Duration;

#[tokio::test(flavor = "multi_thread", worker_threads = 2)]
async fn c02_dealer_refuses_oversized_multipart_without_panicking() -> Result<(), ZmqError> {
  let ctx = Context::new()?;
  let router = ctx.socket(SocketType::Router)?;
  router.set_option_raw(LINGER, &0i32.to_ne_bytes()).await?;
  router.bind("tcp://127.0.0.1:0").await?;
  let endpoint = String::from_utf8(router.get_option(LAST_ENDPOINT).await?).unwrap();
  let dealer = ctx.socket(SocketType::Dealer)?;
  dealer.set_option_raw(SNDTIMEO, &500i32.to_ne_bytes()).await?;
  dealer.set_option_raw(LINGER, &0i32.to_ne_bytes()).await?;
  dealer.connect(&endpoint).await?;
  tokio::time::sleep(Duration::from_millis(200)).await;

  let d = dealer.clone();
  let outcome = tokio::spawn(async move {
    let mut refused_at = None;
    for i in 0..300usize {
      let mut m = Msg::from_vec(vec![(i % 251) as u8]);
      m.set_flags(MsgFlags::MORE);
      if let Err(e) = d.send(m).await {
        refused_at = Some((i, e));
        break;
      }
    }
    refused_at
  })
  .await;
  match outcome {
    Err(join_err) if join_err.is_panic() => panic!("DEALER send() panicked on a multipart message with too many frames: {:?}", join_err),
    Err(e) => panic!("task failed: {:?}", e),
    Ok(None) => panic!("300 MORE frames were accepted although a message holds at most 255 frames"),
    Ok(Some((i, e))) => println!("refused frame #{} with {:?}", i, e),
  }
  // the socket is still usable for an ordinary message afterwards
  dealer.send(Msg::from_static(b"after")).await?;
  Ok(())
}
