#[cfg(test)]
mod verif_sndtimeo_deadline_witness {
  use super::*;
  use crate::socket::core::CoreState;
  use crate::socket::options::SocketOptions;
  use crate::socket::types::SocketType;
  use std::sync::atomic::AtomicBool;
  use std::time::Instant;

  fn one_frame() -> FrameBatch {
    let mut fb = FrameBatch::new();
    fb.push(Msg::from_static(b"x"));
    fb
  }

  // C14 witness: a DEALER send that waits for room in the pending queue with SNDTIMEO = 300 ms must answer timeout after about 300 ms
  // ("no earlier than that interval and not unboundedly later"), also when it is woken meanwhile and there is still no room.  The
  // wake-ups are the ones the socket itself produces: pipe_attached() and every successful push by another sender call
  // `outgoing_queue_activity_notifier.notify_one()`; here they arrive every 100 ms (two at a time: the queue processor waits on the same
  // notifier and takes one of them) while the queue stays at the high-water mark.
  #[tokio::test(flavor = "multi_thread", worker_threads = 2)]
  async fn c14_dealer_queue_wait_ends_at_its_deadline_however_often_it_is_woken() {
    let ctx = crate::Context::new().unwrap();
    let (cmd_tx, _cmd_rx) = crate::runtime::mailbox(16);
    let core = Arc::new(SocketCore {
      handle: 4242,
      context: ctx.clone(),
      command_sender: cmd_tx,
      core_state: parking_lot::RwLock::new(CoreState::new(4242, SocketType::Dealer, SocketOptions::default())),
      socket_logic: tokio::sync::RwLock::new(None),
      shutdown_coordinator: TokioMutex::new(Default::default()),
      is_running_flag: AtomicBool::new(true),
    });
    let dealer = Arc::new(DealerSocket::new(core));
    let sndtimeo = Duration::from_millis(300);
    // no peer is connected: the first message fills the queue (high-water mark 1) and stays there
    dealer.queue_message_or_error(one_frame(), 1, Some(sndtimeo)).await.expect("first message is queued");
    let waker = {
      let dealer = dealer.clone();
      tokio::spawn(async move {
        loop {
          tokio::time::sleep(Duration::from_millis(100)).await;
          dealer.outgoing_queue_activity_notifier.notify_one();
          dealer.outgoing_queue_activity_notifier.notify_one();
        }
      })
    };
    let t0 = Instant::now();
    let r = tokio_timeout(Duration::from_secs(3), dealer.queue_message_or_error(one_frame(), 1, Some(sndtimeo))).await;
    let took = t0.elapsed();
    waker.abort();
    dealer.processor_stop_signal.notify_one();
    match r {
      Ok(Err(ZmqError::Timeout)) => assert!(
        took >= Duration::from_millis(290) && took <= Duration::from_millis(700),
        "SNDTIMEO = 300 ms, but the send answered timeout after {:?}", took
      ),
      Ok(other) => panic!("expected a timeout error, got {:?} after {:?}", other, took),
      Err(_) => panic!("SNDTIMEO = 300 ms, but the send was still waiting after 3 s: every wake-up without room started the interval afresh"),
    }
  }
}
