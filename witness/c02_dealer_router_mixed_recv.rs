// C02 witness (public API only): mixed receiving styles on DEALER and ROUTER.  After recv() has returned the first frame of a
// multipart message, recv_multipart() must return the REST of that message -- not the next message, leaving the rest of the first
// one to come out afterwards (frames of two messages interleaved).
use rzmq::socket::options::{LAST_ENDPOINT, LINGER, RCVTIMEO, ROUTING_ID};
use rzmq::{Context, Msg, MsgFlags, SocketType, ZmqError};
use std::time::Duration;

fn frames(parts: &[&'static [u8]]) -> Vec<Msg> {
  let n = parts.len();
  parts.iter().enumerate().map(|(i, p)| { let mut m = Msg::from_static(p); if i + 1 < n { m.set_flags(MsgFlags::MORE); } m }).collect()
}
fn bodies(fb: &[Msg]) -> Vec<Vec<u8>> { fb.iter().map(|m| m.data().unwrap_or(&[]).to_vec()).collect() }

#[tokio::test(flavor = "multi_thread", worker_threads = 2)]
async fn c02_recv_then_recv_multipart_stays_inside_one_message() -> Result<(), ZmqError> {
  let ctx = Context::new()?;
  let router = ctx.socket(SocketType::Router)?;
  router.set_option_raw(LINGER, &0i32.to_ne_bytes()).await?;
  router.set_option_raw(RCVTIMEO, &1000i32.to_ne_bytes()).await?;
  router.bind("tcp://127.0.0.1:0").await?;
  let endpoint = String::from_utf8(router.get_option(LAST_ENDPOINT).await?).unwrap();
  let dealer = ctx.socket(SocketType::Dealer)?;
  dealer.set_option_raw(LINGER, &0i32.to_ne_bytes()).await?;
  dealer.set_option_raw(RCVTIMEO, &1000i32.to_ne_bytes()).await?;
  dealer.set_option_raw(ROUTING_ID, b"d").await?;
  dealer.connect(&endpoint).await?;
  tokio::time::sleep(Duration::from_millis(200)).await;
  let mut problems: Vec<String> = Vec::new();

  // ROUTER side: two messages [a1 a2] and [b1 b2] arrive; recv() then recv_multipart()
  dealer.send_multipart(frames(&[b"a1", b"a2"])).await?;
  dealer.send_multipart(frames(&[b"b1", b"b2"])).await?;
  tokio::time::sleep(Duration::from_millis(200)).await;
  let id = router.recv().await?; // identity frame of message a
  if id.data() != Some(&b"d"[..]) { problems.push(format!("ROUTER: first frame should be the identity, got {:?}", id.data())); }
  let rest = router.recv_multipart().await?;
  if bodies(&rest) != vec![b"a1".to_vec(), b"a2".to_vec()] { problems.push(format!("ROUTER: after recv() of the identity of message a, recv_multipart() returned {:?}", bodies(&rest))); }
  // drain whatever is left
  router.set_option_raw(RCVTIMEO, &200i32.to_ne_bytes()).await?;
  while router.recv().await.is_ok() {}

  // DEALER side: two messages [x1 x2] and [y1 y2] arrive; recv() then recv_multipart()
  router.send_multipart(frames(&[b"d", b"x1", b"x2"])).await?;
  router.send_multipart(frames(&[b"d", b"y1", b"y2"])).await?;
  tokio::time::sleep(Duration::from_millis(200)).await;
  let x1 = dealer.recv().await?;
  if x1.data() != Some(&b"x1"[..]) { problems.push(format!("DEALER: first frame should be x1, got {:?}", x1.data())); }
  let rest = dealer.recv_multipart().await?;
  if bodies(&rest) != vec![b"x2".to_vec()] { problems.push(format!("DEALER: after recv() of x1, recv_multipart() returned {:?}", bodies(&rest))); }
  assert!(problems.is_empty(), "frames of two messages interleaved when recv() and recv_multipart() are mixed: {:?}", problems);
  Ok(())
}
