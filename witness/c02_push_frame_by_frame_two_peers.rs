// C02 / C13 witness (public API only): a PUSH socket with TWO connected PULL peers sends two-frame messages frame by frame
// (send() with MORE, then send() of the last frame).  Every message must arrive whole at exactly one peer: [id.0 MORE][id.1].
use rzmq::socket::options::{LAST_ENDPOINT, LINGER, RCVTIMEO, SNDTIMEO};
use rzmq::{Context, Msg, MsgFlags, SocketType, ZmqError};
use std::time::Duration;

#[tokio::test(flavor = "multi_thread", worker_threads = 4)]
async fn c02_push_keeps_the_frames_of_one_message_on_one_peer() -> Result<(), ZmqError> {
  let ctx = Context::new()?;
  let mut pulls = Vec::new();
  let push = ctx.socket(SocketType::Push)?;
  push.set_option_raw(LINGER, &0i32.to_ne_bytes()).await?;
  push.set_option_raw(SNDTIMEO, &2000i32.to_ne_bytes()).await?;
  for _ in 0..2 {
    let pull = ctx.socket(SocketType::Pull)?;
    pull.set_option_raw(LINGER, &0i32.to_ne_bytes()).await?;
    pull.set_option_raw(RCVTIMEO, &700i32.to_ne_bytes()).await?;
    pull.bind("tcp://127.0.0.1:0").await?;
    let endpoint = String::from_utf8(pull.get_option(LAST_ENDPOINT).await?).unwrap();
    push.connect(&endpoint).await?;
    pulls.push(pull);
  }
  tokio::time::sleep(Duration::from_millis(300)).await;

  const N: u32 = 40;
  for id in 0..N {
    let mut first = Msg::from_vec([id.to_be_bytes().as_slice(), &[0u8]].concat());
    first.set_flags(MsgFlags::MORE);
    push.send(first).await?;
    push.send(Msg::from_vec([id.to_be_bytes().as_slice(), &[1u8]].concat())).await?;
  }

  let mut whole = 0u32;
  let mut broken: Vec<String> = Vec::new();
  for (k, pull) in pulls.iter().enumerate() {
    loop {
      match pull.recv_multipart().await {
        Ok(frames) => {
          let shape: Vec<(u32, u8)> = frames
            .iter()
            .map(|f| { let d = f.data().unwrap_or(&[]); if d.len() == 5 { (u32::from_be_bytes([d[0], d[1], d[2], d[3]]), d[4]) } else { (u32::MAX, 255) } })
            .collect();
          if shape.len() == 2 && shape[0].0 == shape[1].0 && shape[0].1 == 0 && shape[1].1 == 1 { whole += 1; } else if broken.len() < 6 { broken.push(format!("peer {} got {:?}", k, shape)); } else { broken.push(String::new()); }
        }
        Err(ZmqError::Timeout) => break,
        Err(e) => panic!("recv: {:?}", e),
      }
    }
  }
  broken.retain(|s| !s.is_empty());
  assert!(broken.is_empty() && whole == N, "{} of {} messages arrived whole; malformed deliveries (id, frame index): {:?}", whole, N, broken);
  Ok(())
}
