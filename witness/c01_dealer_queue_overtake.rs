// C01 witness (public API only): DEALER -> ROUTER over tcp with small high-water marks and a receiver that drains in bursts.
// Every message send() accepted must arrive exactly once and in the order it was sent on that connection.
use rzmq::socket::options::{LAST_ENDPOINT, LINGER, RCVHWM, RCVTIMEO, ROUTING_ID, SNDHWM, SNDTIMEO};
use rzmq::{Context, Msg, SocketType, ZmqError};
use std::time::Duration;

#[tokio::test(flavor = "multi_thread", worker_threads = 4)]
async fn c01_dealer_messages_arrive_in_send_order_under_backpressure() -> Result<(), ZmqError> {
  let ctx = Context::new()?;
  let router = ctx.socket(SocketType::Router)?;
  router.set_option_raw(LINGER, &0i32.to_ne_bytes()).await?;
  router.set_option_raw(RCVHWM, &1i32.to_ne_bytes()).await?;
  router.set_option_raw(RCVTIMEO, &3000i32.to_ne_bytes()).await?;
  router.bind("tcp://127.0.0.1:0").await?;
  let endpoint = String::from_utf8(router.get_option(LAST_ENDPOINT).await?).unwrap();
  let dealer = ctx.socket(SocketType::Dealer)?;
  dealer.set_option_raw(LINGER, &0i32.to_ne_bytes()).await?;
  dealer.set_option_raw(SNDHWM, &4i32.to_ne_bytes()).await?;
  dealer.set_option_raw(SNDTIMEO, &0i32.to_ne_bytes()).await?;
  dealer.set_option_raw(ROUTING_ID, b"d").await?;
  dealer.connect(&endpoint).await?;
  tokio::time::sleep(Duration::from_millis(200)).await;

  const N: u32 = 60000;
  let payload_pad = vec![0u8; 2048]; // big enough that the kernel buffers fill up too
  let sender = {
    let dealer = dealer.clone();
    tokio::spawn(async move {
      for i in 0..N {
        let mut body = i.to_be_bytes().to_vec();
        body.extend_from_slice(&payload_pad);
        loop {
          match dealer.send(Msg::from_vec(body.clone())).await {
            Ok(()) => break,
            Err(ZmqError::ResourceLimitReached) => tokio::task::yield_now().await, // refused: not accepted, try again
            Err(e) => panic!("send: {:?}", e),
          }
        }
      }
    })
  };
  let mut expected = 0u32;
  let mut out_of_order = Vec::new();
  for k in 0..N {
    if k % 200 == 0 {
      tokio::time::sleep(Duration::from_millis(3)).await; // drain in bursts: the sender hits the high-water marks again and again
    }
    let frames = router.recv_multipart().await?;
    let body = frames.last().unwrap().data().unwrap();
    let seq = u32::from_be_bytes([body[0], body[1], body[2], body[3]]);
    if seq != expected {
      out_of_order.push((expected, seq));
      if out_of_order.len() >= 5 { break; }
    }
    expected = seq + 1;
  }
  sender.abort();
  assert!(out_of_order.is_empty(), "messages arrived out of order (expected, got): {:?}", out_of_order);
  Ok(())
}
