// C02 witness (public API only): a ROUTER (SNDHWM 4, SNDTIMEO 0) sends two-frame replies frame by frame (identity + MORE, part 0 +
// MORE, part 1) to a DEALER that reads slowly.  ROUTER may drop a MESSAGE for a peer that is full, but whatever the peer receives must be
// whole messages [id.0 MORE][id.1] -- never a message with a frame missing or with frames of different messages glued together.
use rzmq::socket::options::{LAST_ENDPOINT, LINGER, RCVHWM, RCVTIMEO, ROUTING_ID, SNDHWM, SNDTIMEO};
use rzmq::{Context, Msg, MsgFlags, SocketType, ZmqError};
use std::time::Duration;

#[tokio::test(flavor = "multi_thread", worker_threads = 4)]
async fn c02_router_never_delivers_a_partial_multipart_message() -> Result<(), ZmqError> {
  let ctx = Context::new()?;
  let router = ctx.socket(SocketType::Router)?;
  router.set_option_raw(LINGER, &0i32.to_ne_bytes()).await?;
  router.set_option_raw(SNDHWM, &4i32.to_ne_bytes()).await?;
  router.set_option_raw(SNDTIMEO, &0i32.to_ne_bytes()).await?;
  router.bind("tcp://127.0.0.1:0").await?;
  let endpoint = String::from_utf8(router.get_option(LAST_ENDPOINT).await?).unwrap();
  let dealer = ctx.socket(SocketType::Dealer)?;
  dealer.set_option_raw(LINGER, &0i32.to_ne_bytes()).await?;
  dealer.set_option_raw(RCVHWM, &1i32.to_ne_bytes()).await?;
  dealer.set_option_raw(RCVTIMEO, &700i32.to_ne_bytes()).await?;
  dealer.set_option_raw(ROUTING_ID, b"peer").await?;
  dealer.connect(&endpoint).await?;
  tokio::time::sleep(Duration::from_millis(200)).await;
  // let the ROUTER learn the identity
  dealer.send(Msg::from_static(b"hello")).await?;
  let _ = router.recv_multipart().await?;

  let pad = vec![0x42u8; 32 * 1024];
  let sending = {
    let router = router.clone();
    tokio::spawn(async move {
      for id in 0..3000u32 {
        let mut ident = Msg::from_static(b"peer");
        ident.set_flags(MsgFlags::MORE);
        if router.send(ident).await.is_err() { continue; }
        for k in 0..2u8 {
          let mut body = id.to_be_bytes().to_vec();
          body.push(k);
          body.extend_from_slice(&pad);
          let mut m = Msg::from_vec(body);
          if k < 1 { m.set_flags(MsgFlags::MORE); }
          if router.send(m).await.is_err() { break; }
        }
        if id % 4 == 0 { tokio::time::sleep(Duration::from_micros(300)).await; }
      }
    })
  };

  let mut whole = 0u32;
  let mut broken: Vec<String> = Vec::new();
  let mut n = 0u32;
  loop {
    match dealer.recv_multipart().await {
      Ok(frames) => {
        n += 1;
        if n % 8 == 0 { tokio::time::sleep(Duration::from_millis(2)).await; } // a slow reader
        let shape: Vec<(u32, u8)> = frames
          .iter()
          .map(|f| { let d = f.data().unwrap_or(&[]); if d.len() >= 5 { (u32::from_be_bytes([d[0], d[1], d[2], d[3]]), d[4]) } else { (u32::MAX, 255) } })
          .collect();
        let ok = shape.len() == 2 && shape[0].0 == shape[1].0 && shape[0].1 == 0 && shape[1].1 == 1;
        if ok { whole += 1; } else if broken.len() < 6 { broken.push(format!("{:?}", shape)); }
      }
      Err(ZmqError::Timeout) => if sending.is_finished() { break },
      Err(e) => panic!("recv: {:?}", e),
    }
  }
  eprintln!("received {} messages, {} whole", n, whole);
  assert!(broken.is_empty(), "{} whole messages, but also partial ones, as (id, frame index) lists: {:?}", whole, broken);
  assert!(whole > 0, "nothing was delivered at all");
  Ok(())
}
