// C10 witness (integration test, public API only): several tasks race send() on clones of one REQ socket that is in
// ReadyToSend, on a multi-threaded runtime.  Property C10: exactly one of them succeeds, the others fail with InvalidState.
// Same shape as core/tests/fsm_violations.rs::test_req_concurrent_send_contention, which runs on the current-thread
// runtime where the first send never yields.  Rounds are repeated because the window is a few instructions wide.
use rzmq::socket::options::{LAST_ENDPOINT, LINGER, RCVTIMEO, SNDTIMEO};
use rzmq::{Context, Msg, SocketType, ZmqError};
use std::sync::Arc;
use std::time::Duration;

#[tokio::test(flavor = "multi_thread", worker_threads = 8)]
async fn c10_racing_req_sends_exactly_one_succeeds() -> Result<(), ZmqError> {
  let ctx = Context::new()?;
  let rep = ctx.socket(SocketType::Rep)?;
  rep.set_option_raw(RCVTIMEO, &2_000i32.to_ne_bytes()).await?;
  rep.set_option_raw(LINGER, &0i32.to_ne_bytes()).await?;
  rep.bind("tcp://127.0.0.1:0").await?;
  let endpoint = String::from_utf8(rep.get_option(LAST_ENDPOINT).await?).unwrap();
  let req = ctx.socket(SocketType::Req)?;
  req.set_option_raw(SNDTIMEO, &0i32.to_ne_bytes()).await?;
  req.set_option_raw(RCVTIMEO, &2_000i32.to_ne_bytes()).await?;
  req.set_option_raw(LINGER, &0i32.to_ne_bytes()).await?;
  req.connect(&endpoint).await?;
  tokio::time::sleep(Duration::from_millis(200)).await;

  let rounds = 3000;
  let racers = 8;
  let mut bad: Vec<(usize, usize)> = Vec::new();
  for round in 0..rounds {
    let barrier = Arc::new(tokio::sync::Barrier::new(racers));
    let mut handles = Vec::new();
    for _ in 0..racers {
      let r = req.clone();
      let b = barrier.clone();
      handles.push(tokio::spawn(async move {
        b.wait().await;
        r.send(Msg::from_static(b"x")).await
      }));
    }
    let mut ok = 0;
    for h in handles {
      if h.await.unwrap().is_ok() {
        ok += 1;
      }
    }
    if ok != 1 {
      bad.push((round, ok));
    }
    // bring the pair back to the start: REP answers every request that got through, REQ takes one reply
    for _ in 0..ok {
      let _ = rep.recv().await?;
      rep.send(Msg::from_static(b"ack")).await?;
    }
    if ok >= 1 {
      let _ = req.recv().await;
    }
    // drain surplus replies so that the next round starts from ReadyToSend with nothing queued
    for _ in 1..ok {
      let _ = req.send(Msg::from_static(b"flush")).await;
      if let Ok(_m) = rep.recv().await {
        let _ = rep.send(Msg::from_static(b"ack")).await;
      }
      let _ = req.recv().await;
      let _ = tokio::time::timeout(Duration::from_millis(20), req.recv()).await;
    }
    if bad.len() >= 3 {
      break;
    }
  }
  assert!(bad.is_empty(), "rounds in which the number of successful racing send() calls was not 1 (round, successes): {:?}", bad);
  Ok(())
}
