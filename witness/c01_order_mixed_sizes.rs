// C01 witness (integration test, public API only): PUSH -> PULL over tcp, messages alternating small (100 B) and
// large (300 KiB, larger than SNDBATCH_BYTES) sent in one burst.  Each message starts with its sequence number.
// Property C01: received in the order sent.  Copy to core/tests/ and run `cargo test --offline --test c01_order_mixed_sizes`.
use rzmq::{Context, Msg, SocketType, ZmqError};
use std::time::Duration;

#[tokio::test(flavor = "multi_thread", worker_threads = 4)]
async fn c01_mixed_sizes_arrive_in_order() -> Result<(), ZmqError> {
  let ctx = Context::new()?;
  let push = ctx.socket(SocketType::Push)?;
  let pull = ctx.socket(SocketType::Pull)?;
  let endpoint = "tcp://127.0.0.1:5791";
  pull.bind(endpoint).await?;
  tokio::time::sleep(Duration::from_millis(50)).await;
  push.connect(endpoint).await?;
  tokio::time::sleep(Duration::from_millis(150)).await;

  let n: u32 = 240;
  let sender = tokio::spawn(async move {
    for i in 0..n {
      // pattern: small, LARGE, small, LARGE, small, small, small, small  (so that small ones queue up behind a large one)
      let large = i % 8 == 1 || i % 8 == 3;
      let len = if large { 300 * 1024 } else { 100 };
      let mut v = vec![0u8; len];
      v[..4].copy_from_slice(&i.to_be_bytes());
      push.send(Msg::from_vec(v)).await.expect("send");
    }
    push
  });

  let mut expected: u32 = 0;
  let mut out_of_order: Vec<(u32, u32)> = Vec::new();
  for _ in 0..n {
    let m = tokio::time::timeout(Duration::from_secs(20), pull.recv()).await.expect("recv timed out")?;
    let d = m.data().unwrap();
    let seq = u32::from_be_bytes([d[0], d[1], d[2], d[3]]);
    if seq != expected {
      out_of_order.push((expected, seq));
    }
    expected += 1;
  }
  let _push = sender.await.unwrap();
  assert!(out_of_order.is_empty(), "messages arrived out of order (expected, got): {:?}", &out_of_order[..out_of_order.len().min(8)]);
  ctx.term().await?;
  Ok(())
}
