// C14 witness (public API only): DEALER with a positive SNDTIMEO, everything towards the peer full, several tasks sending at once.
// A send() that cannot be completed must fail no earlier than SNDTIMEO and NOT UNBOUNDEDLY LATER: being woken (by another sender's
// or the queue processor's notification) while there is still no room must not start the interval afresh.
use rzmq::socket::options::{LAST_ENDPOINT, LINGER, RCVHWM, ROUTING_ID, SNDHWM, SNDTIMEO};
use rzmq::{Context, Msg, SocketType, ZmqError};
use std::time::{Duration, Instant};

const SNDTIMEO_MS: u64 = 300;

#[tokio::test(flavor = "multi_thread", worker_threads = 4)]
async fn c14_dealer_send_fails_within_a_bounded_multiple_of_sndtimeo() -> Result<(), ZmqError> {
  let ctx = Context::new()?;
  let router = ctx.socket(SocketType::Router)?;
  router.set_option_raw(LINGER, &0i32.to_ne_bytes()).await?;
  router.set_option_raw(RCVHWM, &1i32.to_ne_bytes()).await?;
  router.bind("tcp://127.0.0.1:0").await?;
  let endpoint = String::from_utf8(router.get_option(LAST_ENDPOINT).await?).unwrap();
  let dealer = ctx.socket(SocketType::Dealer)?;
  dealer.set_option_raw(LINGER, &0i32.to_ne_bytes()).await?;
  dealer.set_option_raw(SNDHWM, &1i32.to_ne_bytes()).await?;
  dealer.set_option_raw(SNDTIMEO, &(SNDTIMEO_MS as i32).to_ne_bytes()).await?;
  dealer.set_option_raw(ROUTING_ID, b"d").await?;
  dealer.connect(&endpoint).await?;
  tokio::time::sleep(Duration::from_millis(200)).await;

  // fill everything towards the ROUTER (which never reads)
  let pad = vec![0x5au8; 128 * 1024];
  let mut failures = 0;
  for _ in 0..2000u32 {
    match dealer.send(Msg::from_vec(pad.clone())).await {
      Ok(()) => {}
      Err(ZmqError::ResourceLimitReached) | Err(ZmqError::Timeout) => { failures += 1; if failures >= 3 { break; } }
      Err(e) => panic!("send: {:?}", e),
    }
  }
  assert!(failures >= 3, "back-pressure was never reached");

  // now several tasks send at once for a while; no single call may take much longer than SNDTIMEO
  let t_end = Instant::now() + Duration::from_secs(6);
  let mut tasks = Vec::new();
  for _ in 0..4 {
    let dealer = dealer.clone();
    let pad = pad.clone();
    tasks.push(tokio::spawn(async move {
      let mut worst = Duration::ZERO;
      while Instant::now() < t_end {
        let t0 = Instant::now();
        let _ = dealer.send(Msg::from_vec(pad.clone())).await;
        worst = worst.max(t0.elapsed());
        tokio::time::sleep(Duration::from_millis(7)).await;
      }
      worst
    }));
  }
  let mut worst = Duration::ZERO;
  for t in tasks { worst = worst.max(t.await.unwrap()); }
  assert!(
    worst <= Duration::from_millis(SNDTIMEO_MS * 2 + 200),
    "a send() with SNDTIMEO = {} ms took {:?} (more than twice the interval plus 200 ms of slack)", SNDTIMEO_MS, worst
  );
  Ok(())
}
