"""python3 -m vlib.mkmanifest  -> writes MANIFEST.json from vlib/props.py (single source of truth)"""
import json
import os

from .props import PROPS, NOT_APPLICABLE

VERIF = os.path.dirname(os.path.dirname(os.path.abspath(__file__)))


def main():
  checks = []
  for pid in sorted(PROPS):
    p = PROPS[pid]
    checks.append({
      "property_id": pid,
      "quick_cmd": "./check %s --tier quick" % pid,
      "thorough_cmd": "./check %s --tier thorough" % pid,
      "evidence_file": "/verif/evidence/%s.json" % pid,
      "replay_cmd_template": "./check %s --replay {path}" % pid,
      "engine": "vx+verus" + ("+kani" if (p.get("kani_quick") or p.get("kani_thorough")) else ""),
      "level_claimed": {"category": "proof", "text": p["claim"], "design_ref": p.get("design_ref", "DESIGN.md section 5 (%s)" % pid)},
      "level_note": p["level_note"],
      "technique": p["technique"],
    })
  man = {
    "version": 1,
    "setup_cmd": "./setup.sh",
    "hooks": {
      "guard": "kani (cfg set only by the Kani compiler; nothing is committed to /repo: harness modules are appended to a scratch copy per run)",
      "enable": "none needed: checks extract functions from /repo's working tree (Verus) or copy it to a scratch directory and append #[cfg(any(kani, test))] harness modules there (Kani / replay)",
      "baseline_off_cmd": "cd /repo/$(cat /w/out/cargo_root.txt) && cargo nextest run --workspace --no-fail-fast --tool-config-file pb:/w/lib/nextest.toml --profile pb --test-threads 8 --offline",
      "source_commits": [],
      "add_only": True,
    },
    "engines": [
      {"name": "vx+verus", "path": "/verif/vlib/vx.py", "serves_properties": sorted(PROPS),
       "kind_free_text": "mechanical extraction of the real functions from /repo on every run (rewrite table R1-R8, DESIGN.md 2.1), contracts spliced in, Verus 0.2026.09.13 / Z3 discharges every obligation function by function"},
      {"name": "kani", "path": "/verif/vlib/kani.py", "serves_properties": sorted(k for k in PROPS if PROPS[k].get("kani_quick") or PROPS[k].get("kani_thorough")),
       "kind_free_text": "Kani 0.68 / CBMC 6.11 on a scratch copy of the unmodified crate: complete proofs for loop-free / fixed-width inputs, counterexamples replayed by plain cargo test, bounded stand-ins labelled bounded"},
    ],
    "checks": checks,
    "not_applicable": [{"property_id": k, "reason": v} for k, v in sorted(NOT_APPLICABLE.items())],
    "notes": "Contract-based deductive verification of the real code. Exit codes: 0 all obligations discharged, 1 VIOLATION, 2 undecided (tool limit / lost anchor; never a violation). See DESIGN.md.",
  }
  json.dump(man, open(os.path.join(VERIF, "MANIFEST.json"), "w"), indent=1)
  print("MANIFEST.json: %d checks, %d not applicable" % (len(checks), len(man["not_applicable"])))


if __name__ == "__main__":
  main()
