"""Property -> units / Kani harnesses table (the single place that wires checks together)."""

MP = "core/src/protocol/zmtp/manual_parser.rs"
FR = "core/src/security/framer/mod.rs"

# Kani harnesses: kind "complete" = loop-free or protocol-fixed input width over the full symbolic domain
# (counts as proof); "bounded" = stand-in with a stated bound (never counted as proved);
# "witness" = replay-only executable form of a Verus obligation (CBMC cannot explore it; never counted).
KANI = {
  "vk_peek_frame_len": {
    "module": MP, "file": "kani/manual_parser.rs", "props": ["C03", "C07"], "kind": "complete", "timeout": 200,
    "what": "peek_frame_len over ALL headers (<=9 bytes) x ALL max_msg_size: no panic, Err iff oversize/unrepresentable, Some(total) iff header complete",
    "pairs_fn": ["ZmtpManualParser::peek_frame_len"],
  },
  "vk_lpf_record_prefix": {
    "module": FR, "file": "kani/framer.rs", "props": ["C18"], "kind": "witness", "bound": "replay-only (since the 255-frame capacity checks of 862dcf8 CBMC runs out of memory on this harness: 760 s, no verdict)", "timeout": 400,
    "what": "LengthPrefixedFramer::write_msg_batch/multipart: announced record length == bytes that follow (executable form of the Verus obligation; used for replay with larger sizes)",
    "pairs_fn": ["LengthPrefixedFramer::write_msg_batch", "LengthPrefixedFramer::write_msg_multipart"],
  },
}

# Witness tests: fixed concrete scenarios (integration tests over the public API, kept in /verif/witness) that exhibit the
# violation of the paired obligations on the real code.  Verus gives no counterexample; when a paired obligation fails the
# witness is run against the current tree: if it fails too, the VIOLATION carries a replayed failing input.
# Bounded exhaustive stand-ins (in-crate tests under /verif/enum, appended to the source file of a scratch copy): they run only when a
# Verus unit of the property is UNDECIDED (a body outside Verus' subset after an edit of /repo).  A failing one is a violation whose
# failing input is in the test's message; a passing one leaves the check undecided.  Never counted as proved.
ENUM_TESTS = {
  "egress_push_priority": {
    "file": "enum/egress_push_priority.rs", "props": ["C01", "C19"], "pairs_fn": ["EgressBuffer::push_priority"], "unit": "egress",
    "append_to": "core/src/sessionx/egress_buffer.rs", "test_filter": "verif_enum_push_priority",
    "bound": "0..=3 queued chunks of 3/2/2 bytes, message counts 0/1, every partial write of the head chunk (34 cases)",
    "what": "EgressBuffer::push_priority followed by writing everything out with current_slice()/advance(): the control frame lands at a chunk boundary, ahead of queued data, never inside the partially written head chunk; counters follow",
  },
}

ENUM_TESTS["connect_failed_frame"] = {
  "file": "enum/connect_failed_frame.rs", "props": ["C17"], "pairs_fn": ["handle_connect_failed_event"], "unit": "connfail",
  "append_to": "core/src/socket/core/command_processor.rs", "test_filter": "verif_enum_connect_failed",
  "bound": "RECONNECT_IVL in {unset, 100 ms} x error in {fatal, retryable} x failed endpoint {unknown, backing off} x 0..=2 other endpoints with armed retries (24 cases)",
  "what": "handle_connect_failed_event on a real SocketCore: every other endpoint's retry state is untouched, no entry dropped or invented, the failed endpoint's own retry armed iff the failure is retryable",
}

ENUM_TESTS["trie_histories"] = {
  "file": "enum/trie_histories.rs", "props": ["C12"], "pairs_fn": ["SubscriptionTrie::subscribe", "SubscriptionTrie::unsubscribe", "SubscriptionTrie::matches"], "unit": "trie",
  "append_to": "core/src/socket/patterns/trie.rs", "test_filter": "verif_enum_trie_histories",
  "bound": "every history of <= 4 subscribe/unsubscribe calls over the 7 topics of length <= 2 over {a, b} (41371 histories), all 15 message topics of length <= 3 probed after every step",
  "what": "the real SubscriptionTrie against the reference semantics of the property text (prefix match on positive counts, N subscribes need N unsubscribes, unsubscribe of the unknown changes nothing, return value = count reached zero)",
}

ENUM_TESTS["negotiate_table"] = {
  "file": "enum/negotiate_table.rs", "props": ["C06"], "pairs_fn": ["negotiate_security_mechanism"], "unit": "engine",
  "append_to": "core/src/security/mod.rs", "test_filter": "verif_enum_negotiate",
  "bound": "all 32 combinations of (security_enabled, use_plain, use_curve, use_noise_xx, credentials set) x 8 announced mechanism names (4 known, unknown, zeros, 2 with trailing garbage) x both roles = 512 cases, default cargo features",
  "what": "negotiate_security_mechanism on the real table: a mechanism is returned only if the peer announced exactly its name and the local configuration enables it (NULL only without configured security); this is the contract the engine proof assumes for it",
}

ENUM_TESTS["v2_compat_table"] = {
  "file": "enum/v2_compat_table.rs", "props": ["C05"], "pairs_fn": ["ZmtpEngine::validate_v2_compatibility"], "unit": "engine",
  "append_to": "core/src/protocol/zmtp/engine.rs", "test_filter": "verif_enum_v2_compat",
  "bound": "all 8 socket types rzmq can be configured as x all 256 values of the peer's ZMTP/2.0 socket-type byte (2048 cases = the function's whole decision domain)",
  "what": "ZmtpEngine::validate_v2_compatibility on the real table (string-keyed, outside Verus and CBMC): the verdict is the ZeroMQ pairing table with XPUB/XSUB peers standing for PUB/SUB; an unknown byte is refused",
}

WITNESS_TESTS = {
  "c01_order_mixed_sizes": {
    "file": "witness/c01_order_mixed_sizes.rs", "props": ["C01"],
    "pairs_fn": ["batch_from_carryover", "batch_from_pipe", "pipe_arm_guard"],
    "what": "PUSH->PULL over tcp, burst of 240 numbered messages alternating 100 B and 300 KiB (> SNDBATCH_BYTES): received in the order sent",
  },
  "c02_detach_drops_unread_frames": {
    "file": "witness/c02_detach_drops_unread_frames.rs", "props": ["C02"], "pairs_fn": ["AnonymousIngressEngine::deregister_pipe"],
    "what": "PULL reading a 3-frame message frame by frame while an unrelated PUSH peer disconnects: the remaining frames are still delivered",
  },
  "c02_dealer_send_too_many_frames": {
    "file": "witness/c02_dealer_send_too_many_frames.rs", "props": ["C02"], "pairs_fn": ["DealerSocket::send"],
    "what": "DEALER handed 300 MORE frames frame by frame: refused with an error, no panic, socket usable afterwards",
  },
  "c02_frame_capacity_boundaries": {
    "file": "witness/c02_frame_capacity_boundaries.rs", "props": ["C02", "C07"],
    "pairs_fn": ["Socket::send_multipart", "RouterSocket::with_room_for_identity", "RouterSocket::transform_qitem_to_app_frames", "dealer_send_multipart_admission", "DealerSocket::prepare_full_multipart_send_sequence", "rep_assemble_reply", "send_take_request"],
    "what": "messages at / beyond the 255-frame capacity through Socket::send_multipart (256), DEALER and ROUTER send (255 + delimiter), a REP reply (255 + envelope) and a ROUTER receiving 255 frames: error, never a panic",
  },
  "c04_data_with_last_handshake_bytes": {
    "file": "witness/c04_data_with_last_handshake_bytes.rs", "props": ["C04"], "pairs_fn": ["hs_app_actions", "ZmtpEngine::process_ready", "ZmtpEngine::process_v2_identity"],
    "what": "raw TCP peer writes greeting + READY (or the ZMTP/2.0 identity frame) + two messages in ONE write to a PULL socket: both messages are delivered",
  },
  "c01_dealer_queue_overtake": {
    "file": "witness/c01_dealer_queue_overtake.rs", "props": ["C01"], "pairs_fn": ["DealerSocket::send_logical_message", "DealerSocket::try_send_sync"],
    "what": "DEALER (SNDHWM 4, SNDTIMEO 0) -> ROUTER (RCVHWM 1) over tcp, 60000 numbered 2 KiB messages against a receiver that drains in bursts: every accepted message arrives once, in send order",
  },
  "c01_dealer_positive_sndtimeo_loss": {
    "file": "witness/c01_dealer_positive_sndtimeo_loss.rs", "props": ["C01", "C14"], "pairs_fn": ["DealerSocket::send_logical_message", "DealerSocketOutgoingProcessor::run"],
    "what": "DEALER (SNDHWM 1, SNDTIMEO 100 ms) against a ROUTER that does not read, 128 KiB messages: every send() that answered Ok arrives, once, in order; none is lost",
  },
  "c14_dealer_queue_wait_deadline": {
    "file": "witness/c14_dealer_queue_wait_deadline.rs", "props": ["C14"], "pairs_fn": ["DealerSocket::queue_message_or_error"],
    "append_to": "core/src/socket/dealer_socket.rs", "test_filter": "verif_sndtimeo_deadline_witness",
    "what": "in-crate: queue at the high-water mark, SNDTIMEO 300 ms, the queue-activity notifier fired every 100 ms: the waiting send answers timeout after about 300 ms, not never",
  },
  "c02_push_frame_by_frame_two_peers": {
    "file": "witness/c02_push_frame_by_frame_two_peers.rs", "props": ["C02", "C13"], "pairs_fn": ["PushSocket::send", "PushSocket::try_send_sync"],
    "what": "PUSH with two PULL peers sends 40 two-frame messages frame by frame (send() with MORE): every message arrives whole at exactly one peer",
  },
  "c02_pub_frame_by_frame_under_hwm": {
    "file": "witness/c02_pub_frame_by_frame_under_hwm.rs", "props": ["C02"], "pairs_fn": ["PubSocket::send"],
    "what": "PUB (SNDHWM 4, SNDTIMEO 0) publishes 3000 three-frame messages frame by frame to a slow SUB: whatever arrives is a whole message, never frames missing or glued",
  },
  "c02_router_frame_by_frame_under_hwm": {
    "file": "witness/c02_router_frame_by_frame_under_hwm.rs", "props": ["C02"], "pairs_fn": ["router_payload_frame"],
    "what": "KNOWN FINDING witness: ROUTER (SNDHWM 4, SNDTIMEO 0) replies frame by frame to a slow DEALER: a refused payload frame leaves a partial message that the next message is glued to",
  },
  "c02_req_rep_recv_frame_by_frame": {
    "file": "witness/c02_req_rep_recv_frame_by_frame.rs", "props": ["C02"], "pairs_fn": ["ReqSocket::recv", "RepSocket::recv"],
    "what": "KNOWN FINDING witness: a two-frame request read with recv() on REP and a two-frame reply read with recv() on REQ: the second frame is lost",
  },
  "c02_dealer_router_mixed_recv": {
    "file": "witness/c02_dealer_router_mixed_recv.rs", "props": ["C02"], "pairs_fn": ["DealerSocket::recv_multipart", "RouterSocket::recv_multipart"],
    "what": "ROUTER and DEALER: recv() of the first frame of message A, then recv_multipart(): must return the rest of A, not message B",
  },
  "c04_message_then_close": {
    "file": "witness/c04_message_then_close.rs", "props": ["C04", "C01"], "pairs_fn": ["ZmqMessageProcessor::read_and_process"],
    "what": "raw TCP peer: handshake, one last message, close at once (40 rounds): every message is delivered although data and end of stream reach rzmq in the same read cycle",
  },
  "c02_inproc_reader_too_many_frames": {
    "file": "witness/c02_inproc_reader_too_many_frames.rs", "props": ["C02", "C07"], "pairs_fn": ["inproc_reader_body"],
    "what": "PUSH sends 300 MORE frames frame by frame over inproc to a PULL: no panic inside rzmq (panic hook), the connection is closed like over tcp",
  },
  "c13_wait_for_connection_lost_wakeup": {
    "file": "witness/c13_wait_for_connection_lost_wakeup.rs", "props": ["C13"], "pairs_fn": ["LoadBalancer::wait_for_connection"],
    "append_to": "core/src/socket/patterns/load_balancer.rs", "test_filter": "verif_lost_wakeup_witness",
    "what": "two OS threads, 600000 rounds: one polls wait_for_connection() by hand, the other adds a peer at a varying offset; a future left Pending must have been woken",
  },
  "c11_router_takeover_then_old_detach": {
    "file": "witness/c11_router_takeover_then_old_detach.rs", "props": ["C11"], "pairs_fn": ["RouterMap::remove_peer_by_read_pipe", "RouterMap::update_peer_identity", "RouterMap::add_peer"],
    "what": "DEALER reconnects with the same routing id while the ROUTER still holds the old connection; after the old connection is detached the identity still routes to the live one",
  },
  "c10_req_send_race": {
    "file": "witness/c10_req_send_race.rs", "props": ["C10"], "pairs_fn": ["ReqSocket::send"],
    "what": "8 tasks race send() on clones of one REQ socket in ReadyToSend (8 worker threads, up to 3000 rounds): exactly one succeeds per round",
  },
  "c10_rep_recv_race": {
    "file": "witness/c10_rep_recv_race.rs", "props": ["C10"], "pairs_fn": ["RepSocket::recv", "RepSocket::recv_multipart"],
    "what": "6 tasks race recv() on clones of one REP socket with requests of 4 peers queued (8 worker threads, up to 400 rounds): exactly one succeeds per round",
  },
}

COMMON_TRUSTED = [
  "prelude/bytes.rs: assumed contracts of bytes::{Bytes,BytesMut} (views Seq<u8>; documented panics as preconditions)",
  "prelude/msg.rs: Msg/MsgFlags stand-ins (bitflags! is a macro; Msg accessors are one-liners, metadata field dropped)",
  "prelude/core.rs: ZmqError variant names only; VString opaque; be64/be16 helpers for {integer}::from_be_bytes",
  "vstd specs of Vec/Option/Result/slice; Z3 4.12 as shipped with Verus",
  "64-bit target (usize == u64); Rust allocation invariant len <= isize::MAX for slices/Vec/Bytes",
  "vx rewrite table R1-R8 (DESIGN.md 2.1); every application is listed in coverage.extraction_drops",
]

PROPS = {
  "C03": {
    "units": ["dec", "enc", "framer", "c03lem"],
    "kani_quick": [],
    "kani_thorough": ["vk_peek_frame_len"],
    "claim": "Unbounded machine-checked proof (Verus/Z3) on the verbatim text of rzmq's encoders and decoders, extracted from /repo on every run: "
             "each encoder's output equals the mathematical wire format enc_frame/enc_all/enc_batches of the frames in order (2-byte header iff len<=255, else 9-byte with big-endian u64), "
             "each decoder implements dec_step (Err iff oversize, Some iff a complete frame is buffered, exact consumption, None leaves buffer and state untouched), for all payload lengths, flag combinations, frame counts.",
    "level_note": "Relative to the assumed contracts of the bytes crate and the Msg/FrameBatch stand-ins (trusted_base). "
                  "frame_vectored/write_msg_split ignore the COMMAND bit: proved under the precondition that only data frames reach them.",
    "technique": "contract-based deductive verification (Verus on mechanically extracted real functions); Kani complete harness as cross-check",
    "trusted_base": COMMON_TRUSTED + ["prelude/framebatch.rs: FrameBatch as Seq<Msg> (proved for the real FrameBatch in unit framebatch)"],
    "assumptions": ["sum of payload sizes of one batch fits in usize (precondition wire_batches <= usize::MAX)",
                    "machine integers are modelled exactly (Verus checks overflow), allocation failure is out of scope"],
  },
  "C18": {
    "units": ["framer", "nonce"],
    "kani_quick": [],
    "kani_thorough": [],
    "claim": "Record layer only: for ANY cipher (encrypt/decrypt abstract), LengthPrefixedFramer::write_msg_batch/write_msg_multipart return either an error or a record whose 16-bit big-endian "
             "length prefix equals the number of ciphertext bytes that follow (so the peer can delimit it), for all batches and ciphertext sizes. Secrecy, tamper detection and nonce freshness are cryptographic and not decided here.",
    "level_note": "Abstract cipher (nothing assumed but the trait signature); frame_contiguous enters by its contract proved in unit enc. Confidentiality/integrity/replay: not applicable to this technique.",
    "technique": "contract-based deductive verification (Verus on extracted real functions, abstract trait object for the cipher)",
    "trusted_base": COMMON_TRUSTED + ["prelude/cipher.rs: IDataCipher trait signature only"],
    "assumptions": ["cryptographic properties (secrecy, AEAD integrity, key/nonce uniqueness across sessions) are outside contracts"],
  },
}

PROPS["C01"] = {
  "units": ["egress", "enc", "framer", "batch", "hsout", "drivers", "dealerq", "dealerproc", "inprocrd", "msgproc"],
  "kani_quick": [], "kani_thorough": [], "enum_fallback": ["egress_push_priority"],
  "claim": "Session-local byte-stream conservation, proved unbounded on the verbatim functions: EgressBuffer (push appends at the tail, advance(n) drops exactly n bytes from the front for every n and every chunking, "
           "push_priority inserts only after the partially written head chunk, counters follow the view) and the batch encoders (frame_contiguous / frame_vectored / NullFramer wrappers emit exactly enc_batches of the frames in batch order: "
           "nothing reordered, merged, dropped or duplicated); the two batch-assembly regions of the session actor's operational loop (carry-over arm and core-pipe arm, extracted verbatim as regions) keep 'batch ++ carry-over ++ core pipe' equal to the FIFO they started from, "
           "the core pipe is read only when the carry-over is empty, and every round with queued messages frames at least one; "
           "in the operational loop's ingress-read arm (regions of run_loop, unit hsout) protocol replies produced while parsing (PONG) are queued through EgressBuffer::push_priority in order and never written to the socket directly "
           "(the byte stream belongs to the egress buffer: a direct write would land inside a partially written frame), and every decoded message is appended to the ingress queue in order; "
           "the two hand-written futures of the session (unit drivers): EgressDriver::poll keeps `bytes accepted by the socket ++ bytes pending` constant at EVERY exit (Ready, Pending, error: a partial write advances the buffer by exactly what was taken) and "
           "terminates; IngressDriver::poll removes batches only from the front, in order, and an in-flight asynchronous send always carries the batch that is still at the front (popped only when that send completes); DEALER's two send paths (unit dealerq: send_logical_message and the synchronous fast path try_send_sync) hand a message to a peer directly only when the pending queue is empty and the queue processor holds nothing in flight, "
           "otherwise it is appended at the back of the queue (FIFO); the queue processor task (unit dealerproc: the whole DealerSocketOutgoingProcessor::run, loop and nested select!) keeps 'delivered ++ message in hand ++ queue == everything accepted, in order' "
           "round the loop and across every await under a rely that is exactly what dealerq proves of the senders (takes from the front, a refused message goes back to the FRONT, the in-flight flag is true exactly while a message is in hand and is written only under the queue lock). End-to-end delivery across tasks, pipes and the kernel is a whole-system property and is not claimed.",
  "level_note": "Sequential contracts on single-owner state (the session actor owns EgressBuffer exclusively). Not covered: the select!/loop structure around the two regions (which arm runs when), the DEALER processor's wake-up conditions (liveness: that it runs again while the queue is non-empty is shown by the witness only), inproc path, fibre channels, the 'accepted during connect' part.",
  "technique": "contract-based deductive verification (Verus on mechanically extracted real functions; abstract view + representation invariant)",
  "trusted_base": COMMON_TRUSTED + ["vstd VecDeque specs + assume_specification for VecDeque::front/is_empty",
                                     "unit batch: contract of CorePipeManagerX::try_recv_batch_from_core (fibre channel hands over the oldest r <= max messages in order) assumed; Vec::drain + VecDeque::extend by std semantics; "
                                     "per-message wire size < 2^48 and sndbatch_bytes_physical <= 2^62; ZmtpEngineConfig stand-in with the four fields read"],
  "assumptions": ["pending bytes and message counters fit in usize (preconditions)", "advance(n) is called with n <= pending bytes (what poll_write_vectored can return)"],
}

EN = "core/src/protocol/zmtp/engine.rs"
KANI["vk_engine_more_frames"] = {
  "module": EN, "file": "kani/engine.rs", "props": ["C02", "C07"], "kind": "witness", "bound": "replay-only (CBMC cannot explore the engine)", "timeout": 300,
  "what": "n MORE frames into a real engine in Data phase: no panic; delivered whole or PeerError+Closed", "pairs_fn": ["ZmtpEngine::process_data"],
}
KANI["vk_engine_v2_downgrade"] = {
  "module": EN, "file": "kani/engine.rs", "props": ["C06"], "kind": "witness", "bound": "replay-only", "timeout": 300,
  "what": "PLAIN-configured engine fed a ZMTP/2.0 greeting: never HandshakeComplete / DeliverMessage", "pairs_fn": ["ZmtpEngine::process_greeting"],
}
KANI["vk_engine_traffic_keeps_alive"] = {
  "module": EN, "file": "kani/engine.rs", "props": ["C19"], "kind": "witness", "bound": "replay-only", "timeout": 300,
  "what": "PING outstanding + inbound data frame + HEARTBEAT_TIMEOUT elapsed: on_tick must not close", "pairs_fn": [],
}

ENGINE_TRUSTED = COMMON_TRUSTED + [
  "prelude/framebatch.rs: FrameBatch as Seq<Msg> (proved for the real FrameBatch in unit framebatch)",
  "prelude/engine_env.rs: Mechanism / ISecureFramer as abstract traits with ghost functions (kind, complete, origin_kind, origin_complete, read_log, would_block) and an ASSUMED termination measure `budget`; "
  "ZmtpCommand::parse/create_ping/create_pong, ZmtpGreeting::decode, encode_v3_tail, negotiate_security_mechanism (returns only locally enabled mechanisms; NULL only if !security_enabled), "
  "validate_v2_compatibility, emit-side helpers as contract stand-ins; Instant/Duration as nanoseconds with saturating duration_since; Instant::now() arbitrary",
  "ZmtpEngineConfig.security_enabled is true whenever PLAIN/CURVE/Noise is configured (From<&SocketOptions> in options.rs, not under contract)",
]

PROPS["C02"] = {
  "units": ["framebatch", "engine", "anon", "dealersend", "flags", "reqrep", "routerfrag", "inprocrd", "routersend", "dealerrecv", "routerrecvmp"],
  "kani_quick": [], "kani_thorough": [],
  "claim": "Receiver side, proved unbounded on the verbatim code: ZmtpEngine::process_data delivers only complete messages (MORE on all but the last frame), and delivered frames + the message in progress equal, in order, "
           "the data frames the framer returned (nothing dropped, duplicated, reordered or merged across calls); a message of more than 255 frames closes the connection with PeerError instead of panicking and nothing truncated is delivered. "
           "The real FrameBatch (push/pop/insert/remove/index/len/is_empty/demote) is proved against its Seq<Msg> view with the derived capacity preconditions (len < 255, with_capacity <= 255). "
           "Application side (PULL/SUB, unit anon): with stream = unread frames of the message in progress ++ the frames of the batches the queue hands out, recv() returns exactly the next frame of the stream, recv_multipart() the rest of a message begun frame by frame "
           "or the next message whole, a failed call loses nothing, and a peer detaching (deregister_pipe) leaves the unread frames untouched. "
           "Sender side (DEALER frame-by-frame send, unit dealersend): frames sent with MORE are buffered in order, the final frame hands on exactly the buffered frames plus itself and closes the transaction, "
           "and every FrameBatch::push is within the container's capacity (a message with too many frames is refused with an error, never a panic). "
           "Sender-side MORE normalisation (unit flags; the iter_mut().enumerate() loops desugared by R9e): PUSH / PUB send_multipart, DEALER prepare_full_multipart_send_sequence (manual and automatic framing) and the REP reply assembly put on the wire "
           "exactly the application's frames in order, payload untouched, MORE on all but the last; Socket::send_multipart refuses more than 255 frames with an error; DEALER / REP admission checks guarantee the capacity preconditions of the delimiter / envelope; "
           "ROUTER prepends exactly one identity frame to a received message and refuses (ProtocolViolation) a message that leaves no room for it; "
           "the detach of a pipe resets ROUTER's frame-by-frame send in progress only if that send is addressed to the detached connection (unit routerfrag). "
           "Frame-by-frame sending (unit flags: PUSH send + try_send_sync, PUB send): a frame with MORE is held back and nothing reaches the router path / the fan-out; the last frame hands on the held-back frames plus itself as ONE batch "
           "(so a PUSH message goes to one peer, and a PUB message is dropped for a slow subscriber as a whole or not at all); a message beyond 255 frames is refused, never sent in part. "
           "ROUTER's frame-by-frame send (unit routersend, the payload branch as a region): a payload frame goes to the connection the identity frame selected, the last frame closes the send in progress, an accepted MORE frame keeps it open "
           "(one known finding: a REFUSED MORE frame closes it and leaves a partial message on the connection). "
           "Mixed receiving styles on DEALER and ROUTER (units dealerrecv, routerrecvmp): after recv() has handed out the first frame of a message, recv_multipart() returns exactly the kept rest of that message and takes nothing from the queue. "
           "REQ / REP recv() (unit reqrep): two known findings -- recv() returns the first payload frame and drops the rest of a multipart message. "
           "inproc (unit inprocrd, the body of the direct-inproc reader task as a region, three nested loops): frames forwarded ++ frames waiting ++ accumulator == frames taken off the channel at every point, however the frames of a message are spread "
           "over wake-ups of the task; only batches ending in a frame without MORE are forwarded; the reassembly never overruns the 255-frame capacity (a longer message closes the connection).",
  "level_note": "Unit anon uses the sequential lock model for the frame cache (one task receives at a time) and an abstract ReadyPipeQueue (its pop order is a ghost sequence; cancel safety of pop() assumed); queued batches are assumed to be whole messages "
                "(proved for tcp/ipc by the engine contract and for inproc by unit inprocrd). DEALER/ROUTER frame_recv_buffer, ROUTER's frame-by-frame send state (current_send_target) and its send-side strategies, and socket-level interleaving with other peers are not covered. "
                "FrameBatch::from(Vec) / with_capacity beyond 255 panic by design of the public API: derived preconditions, see DESIGN.md findings.",
  "technique": "contract-based deductive verification (Verus; engine invariant + ghost read log of the abstract framer; data-structure view for FrameBatch)",
  "trusted_base": ENGINE_TRUSTED + ["prelude/vecu8.rs: assumed contract of xs_foundation VecU8 (panic conditions as preconditions)"],
  "assumptions": ["termination of the read loop relative to the assumed framer measure"],
}
PROPS["C04"] = {
  "units": ["engine", "framer", "c03lem", "dec"],
  "kani_quick": [], "kani_thorough": [],
  "claim": "Engine level, proved unbounded: (1) the decoders consume nothing and change no state on an incomplete frame, and the 'append; decode until None' loop equals the spec function drain(), which lemma_cut_independent / lemma_any_segmentation "
           "prove independent of how the byte stream is cut into reads; (2) grouping into messages carries the partial message across calls (process_data contract), so deliveries depend on the frame sequence only; "
           "(3) every handler that ends in the Data phase (process_ready, process_v2_identity, process_greeting, on_network_bytes) has drained the accumulator in the same call: frames that arrive with the last handshake bytes are delivered in that output, not left behind; "
           "(3b) byte conservation on a ghost history of the accumulator object: every handler leaves `bytes taken from the front ++ bytes still buffered` unchanged, on_network_bytes appends exactly the new bytes, "
           "and the greeting parser / decoders / framers are proved to consume from the front only -- the engine never drops, replaces or invents a byte of the peer's stream; "
           "(4) the session actor's handshake-phase handler (apply_engine_output_handshake, its application-action loop extracted as a region) appends every such delivery, in order, to the ingress queue the operational loop hands to the socket "
           "(deliveries stop only at a PeerError). "
           "Session ingress read (unit msgproc: the whole ZmqMessageProcessor::read_and_process): every byte the call took from the socket has been handed to the engine, in order, at every exit -- also when the end of the stream is seen after some bytes were read "
           "(a transport failure may take them with it) -- and at every await (R11) no byte taken from the socket is held in a local only.",
  "level_note": "The io_uring handler is not covered; the operational loop's own handling of DeliverMessage (ingress_buffer.push_back inside tokio::select!) is read, not under contract. The abstract framer's would_block ghost predicate is tied to real code only for NullFramer (dec_step).",
  "technique": "contract-based deductive verification (Verus) + pure lemmas over the contract spec functions",
  "trusted_base": ENGINE_TRUSTED,
  "assumptions": ["transport delivers bytes in order (TCP/IPC)"],
}
PROPS["C06"] = {
  "units": ["engine"],
  "kani_quick": [], "kani_thorough": [],
  "claim": "Proved unbounded for every peer byte stream, every cut, either role, any ALLOW_ZMTP2: every phase handler of ZmtpEngine and the public entry point on_network_bytes preserve the engine invariant inv() and emit HandshakeComplete / DeliverMessage "
           "only if auth_ok(): the framer in use was produced (into_framer) by a mechanism that reported is_complete() and that the local configuration enables (NULL only when no security is configured), or the session is ZMTP/2.0 and no security is configured. "
           "The Ready phase is entered only on the mechanism's own completion report; authentication is never lost; nothing is sent by on_app_message before the Data phase.",
  "level_note": "Relative to the abstract Mechanism contract: that PLAIN/CURVE/Noise report is_complete() only after valid credentials/keys is the mechanisms' own obligation (PLAIN: unit plain when built; CURVE/Noise cryptography: not applicable) and "
                "negotiate_security_mechanism's contract is assumed here.",
  "technique": "contract-based deductive verification (Verus; inductive engine invariant over extracted handlers, abstract trait objects with ghost provenance)",
  "trusted_base": ENGINE_TRUSTED,
  "assumptions": ["the attacker does not know the credentials/keys (cryptography outside contracts)"],
}
PROPS["C07"] = {
  "units": ["dec", "framer", "engine", "framebatch", "command", "inprocrd"],
  "kani_quick": [], "kani_thorough": ["vk_peek_frame_len"],
  "claim": "Per-function totality, proved for ALL inputs: the four ZMTP decoders never overflow/index out of bounds, reject a frame of limit+1 bytes and accept one of exactly the limit (Err iff oversize), and return None without consuming or growing anything for an incomplete frame; "
           "every Verus-generated safety obligation (arithmetic, indices, slices, callee preconditions = documented panic conditions of bytes/VecU8) of the engine handlers is discharged, every decode error becomes PeerError + phase Closed, a closed engine stays closed; "
           "the engine's handshake framer and its data-phase framer both carry the configured MAXMSGSIZE (ZmtpEngine::new and derive_pending_framer under contract, ghost max_size() in the engine invariant: a ZMTP/2.0 peer is read by the handshake framer for the whole connection); "
           "the inproc reader task refuses a message of more than 255 frames instead of panicking (unit inprocrd).",
  "level_note": "Not covered: handshake timeout pacing, connection-slot release, 'socket and other connections keep working' (actor/system level), CURVE/Noise metadata parsers, io_uring backend. The READY metadata parser (ZmtpReady::parse_properties) and ZmtpCommand::parse are proved total for every byte sequence in unit command.",
  "technique": "contract-based deductive verification (Verus on extracted real functions); Kani complete harness for the header path as cross-check",
  "trusted_base": ENGINE_TRUSTED,
  "assumptions": ["allocation failure and stack overflow are out of scope"],
}
PROPS["C19"] = {
  "units": ["engine", "egress", "command", "hsout"],
  "kani_quick": [], "kani_thorough": [], "enum_fallback": ["egress_push_priority"],
  "claim": "Proved for all (IVL, TIMEOUT, now, last_activity, last_ping, waiting) on the verbatim on_tick/process_data: no heartbeat outside the Data phase or on ZMTP/2.0; a PING goes out only if none is outstanding and at least IVL elapsed since the last activity, and is sent at the first tick where that holds; "
           "the connection is closed by on_tick only when a PING has been outstanding for at least TIMEOUT; every received PING is answered by exactly one PONG with the same context bytes, in order; any inbound frame clears the outstanding-PING state (traffic keeps the connection alive). "
           "EgressBuffer::push_priority puts control frames ahead of queued data but only at a chunk boundary (after a partially written chunk), and the session's operational loop hands every PONG to it (never a direct socket write: region op_net_actions); "
           "record_activity (outbound traffic) refreshes the idle clock only: it never moves the PING time stamp, so the PONG deadline keeps running from the PING itself.",
  "level_note": "The session actor's timers (tick period, pong deadline future) and the io_uring backend are not under contract; 'no later than two intervals' follows from the per-tick clause under the assumption that the actor ticks every IVL. PING/PONG bypass the active (encrypted) framer: see DESIGN.md findings.",
  "technique": "contract-based deductive verification (Verus; abstract clock in nanoseconds)",
  "trusted_base": ENGINE_TRUSTED,
  "assumptions": ["the actor calls on_tick at least once per HEARTBEAT_IVL"],
}

KANI["vk_plain_server_accepts_only_configured_credentials"] = {
  "module": "core/src/security/plain.rs", "file": "kani/plain.rs", "props": ["C05", "C06"], "kind": "bounded",
  "bound": "expected credentials of 0..=1 byte each, token of at most 10 bytes, all symbolic", "timeout": 1500,
  "what": "PlainMechanism (server): a token is accepted only if it is a well-formed HELLO carrying exactly the configured credentials; a rejected peer cannot recover",
  "pairs_fn": ["PlainMechanism::process_token"],
}
KANI["vk_negotiate_only_enabled_mechanisms"] = {
  "module": "core/src/security/mod.rs", "file": "kani/negotiate.rs", "props": ["C06"], "kind": "witness", "bound": "replay-only (CBMC: no verdict in 1500 s)", "timeout": 1500,
  "what": "negotiate_security_mechanism over ALL 20-byte mechanism fields x configuration flags x role (default feature set): a mechanism is returned only if the peer named exactly a locally enabled one; NULL only when no security is configured "
          "(the contract the engine proof assumes for this function, minus the role clause, which is not observable through the trait object)",
  "pairs_fn": ["negotiate_security_mechanism"],
}
PROPS["C06"]["units"] = ["engine", "plain", "secopts"]
PROPS["C06"]["kani_fallback"] = ["vk_plain_server_accepts_only_configured_credentials"]
# vk_negotiate_only_enabled_mechanisms was tried as a thorough harness (2026-09-24): CBMC gives no verdict within 1500 s (fn-pointer table, Box<dyn Mechanism>,
# PlainMechanism construction in the cone); it stays registered for replay only and is NOT part of any tier.
PROPS["C06"]["kani_thorough"] = ["vk_plain_server_accepts_only_configured_credentials"]
PROPS["C06"]["enum_thorough"] = ["negotiate_table"]
PROPS["C06"]["claim"] += (" For PLAIN the mechanism side of that contract is proved too (unit plain): the server reaches ServerSendWelcome/Ready only through a well-formed HELLO whose username AND password equal the configured ones "
                          "(no configured credentials => every HELLO is rejected), an error is terminal, Ready on the server is reachable only from ServerSendWelcome; "
                          "security::initialize_plain (region) hands a listener exactly the configured credentials -- an option that was never set stays 'no valid value', it is not the empty string -- and builds the mechanism in the role it was asked for.")
PROPS["C06"]["claim"] += (" Option layer (unit secopts: the PLAIN_* and CURVE_* arms of apply_core_option_value as regions): setting any option of a mechanism selects that mechanism and never switches it off, whatever the value and the order; "
                          "an unparsable value changes nothing; the other mechanism's options are untouched. (ZmtpEngineConfig::from, which copies `enabled` into use_plain/use_curve/security_enabled, is interleaved with #[cfg] blocks and is read, not extracted.)")
PROPS["C06"]["level_note"] = ("Relative to the abstract Mechanism contract for CURVE/Noise (cryptography: not applicable) and to negotiate_security_mechanism's contract (assumed). "
                              "When the Verus route cannot decide after an edit (rewrite anchor lost / construct outside the subset), the bounded Kani harness on the real PLAIN mechanism runs as fallback (bounded, never counted as proved).")
PROPS["C07"]["units"] = ["dec", "framer", "engine", "framebatch", "command", "plain", "greeting", "codec", "flags", "inprocrd"]
PROPS["C03"]["units"] = ["dec", "enc", "framer", "c03lem", "codec"]
PROPS["C04"]["units"] = ["engine", "framer", "c03lem", "dec", "codec", "hsout", "msgproc"]

PROPS["C18"]["claim"] = ("Record layer only, for ANY cipher (encrypt/decrypt abstract): writers return either an error or a record whose 16-bit big-endian length prefix equals the number of ciphertext bytes that follow; "
                         "the reader (LengthPrefixedFramer::try_read_msg) cuts records exactly at their announced length, consumes them whole and in order, hands each to the cipher exactly once, and leaves an incomplete record untouched "
                         "(so the outcome does not depend on read boundaries). "
                         "CURVE data cipher (unit nonce, feature curve): counters start where they are and every encrypt hands the current send counter to the primitive exactly once before advancing it by one (nonces of one direction of one session are pairwise distinct); "
                         "decrypt advances the receive counter only for a record that authenticates (a forged / replayed / reordered record cannot move it) and refuses a record shorter than a MAC before any crypto; encrypt uses the encode key, decrypt the decode key; a fresh cipher starts both counters at 1 with the keys it is given, and the hand-over from the handshake "
                         "(CurveHandshake::into_data_cipher) seals with the TRANSMIT key and opens with the RECEIVE key of the key exchange -- never with one shared key for both directions (which would let a record reflected to its sender authenticate). "
                         "Secrecy, tamper detection by the AEAD itself and cross-session nonce/key freshness are cryptographic and not decided here.")

PROPS["C13"] = {
  "units": ["lb", "route", "flags", "pushpipes"],
  "kani_quick": [], "kani_thorough": [],
  "claim": "Proved for every history of add/remove/get on the verbatim LoadBalancer (representation invariant: no duplicate peers, cursor in range): get_next_connection serves exactly the peer under the cursor and advances it round-robin; "
           "a peer joins once at the end; removing a peer keeps the order of the others and the peer that would have been served next is still next (its successor if it was the removed one). "
           "wait_for_connection subscribes to the peer-added signal before it looks at the peer list (ghost epochs: no peer added in between can be missed: no lost wake-up), and a joining peer wakes every parked sender. "
           "try_route_sync hands the batch to at most one peer, skips full peers, tries every peer of the rotation exactly once before giving up (cursor back at the start), and returns the very batch on refusal.",
  "level_note": "Lock model (rewrite R6): each balancer method is one critical section under its mutex and is verified as a &mut operation on the protected state; the sweep result is stated for a peer set that does not change during the sweep. "
                "Starvation freedom over a run, route_message's blocking path and the DEALER pending queue are schedule properties: not covered.",
  "technique": "contract-based deductive verification (Verus; abstract view + representation invariant; vstd modular-arithmetic lemmas)",
  "trusted_base": COMMON_TRUSTED + ["R8 helpers for iterator adapters any()/position() over the peer list (contract = std semantics)", "ISocketConnection: a refused batch is returned unchanged (assumed for trait objects)"],
  "assumptions": ["each LoadBalancer method holds its mutex from first to last statement (checked by reading: one lock() per method)"],
}
PROPS["C17"] = {
  "units": ["backoff", "connecter", "connfail", "pushpipes"],
  "kani_quick": [], "kani_thorough": [], "enum_fallback": ["connect_failed_frame"],
  "claim": "Back-off arithmetic only, proved for ALL (attempts: u32, RECONNECT_IVL, RECONNECT_IVL_MAX) on the verbatim ReconnectState: the delay equals min(base * 2^min(attempts,31) saturating, max if set); "
           "the first delay is RECONNECT_IVL, consecutive delays never shrink and at most double (lemma_backoff_geometric), never exceed RECONNECT_IVL_MAX when set; attempts count up saturating, success resets; "
           "no overflow or panic for option values the parsers can produce (parse_reconnect_ivl{,_max}_option proved to yield at most i32::MAX ms). "
           "Failure locality of the retry sleep (TcpConnecter::wait_for_retry_delay_internal, select! desugared by R12): the connecter gives up only for the termination of its context, the closing of its OWN parent socket or a failed event bus; "
           "an event that concerns another socket of the same context never ends the retry loop. "
           "The socket core's handling of a failed connection attempt (unit connfail: the whole handle_connect_failed_event) touches the retry state of the failed endpoint ONLY: every other endpoint's attempt count and armed retry time are exactly what they were, "
           "no entry is dropped or invented; the failed endpoint's own back-off advances by on_connection_failure iff reconnecting is enabled and the error is not fatal. "
           "PUSH's reaction to a lost pipe (unit pushpipes: the whole PushSocket::pipe_detached / pipe_attached): a detach removes exactly that pipe's entry and exactly that pipe's connection from the load balancer (every other pipe and connection untouched; an unknown pipe touches nothing); an attach registers the pipe and the connection under the same endpoint. DealerSocket::pipe_detached (whole, same unit): the same, and the pipe also leaves the ingress engine and the pending senders while every other pipe stays.",
  "level_note": "Failure isolation across connections in the socket core's event handlers and 'traffic resumes once the peer is reachable' are fault-sequence/system properties: not covered; the zero-delay branch of the retry sleep is outside the contract (a zero RECONNECT_IVL cannot come out of the option parser). The call sites in async event handlers pass option values or small defaults (read, not under contract).",
  "technique": "contract-based deductive verification (Verus; durations as nanoseconds, nonlinear-arithmetic lemmas)",
  "trusted_base": ["prelude/time.rs: Duration/Instant as nanoseconds; saturating_mul clamps at Duration::MAX; Instant + Duration panics beyond the platform range (precondition)", "ASSUMPTION: the monotonic clock reads below half of its representable range"],
  "assumptions": ["machine arithmetic modelled exactly"],
}
PROPS["C05"] = {
  "units": ["engine", "compat", "greeting", "plain"],
  "kani_quick": [], "kani_thorough": [], "kani_fallback": ["vk_plain_server_accepts_only_configured_credentials"],   # "wrong credentials: both ends fail"
  "enum_quick": ["v2_compat_table"],
  "claim": "Partial: (1) staged greeting on the verbatim process_greeting: our revision byte is sent as soon as the peer's 10-byte signature is seen and at most once, ZMTP/3 is committed as soon as the peer's revision byte is seen "
           "(no stage waits for more than the peer's previous stage: no mutual wait); (2) the inproc compatibility table equals the ZeroMQ pairing table outside a recorded gap of six pairs, the pairing table is symmetric; "
           "(2b) ZmtpGreeting::decode is total, consumes exactly 64 bytes and accepts exactly the well-formed greetings, encode produces one, encode_v3_tail/encode_signature produce the staged pieces (decode after encode returns version 3.0, the mechanism and the role); "
           "(3) on the ZMTP/2.0 path HandshakeComplete is emitted only after validate_v2_compatibility returned Ok. Two known findings are reported (inproc gap, ZMTP/3 never validates Socket-Type).",
  "level_note": "Convergence of two real endpoints over real sockets, the security phase for CURVE/Noise and 'both end in failure without waiting forever' are schedule/liveness properties: not covered. validate_v2_compatibility itself matches on strings (outside Verus); its table is checked by the Kani harness vk_v2_compat_table when tractable.",
  "technique": "contract-based deductive verification (Verus) with two recorded known findings",
  "trusted_base": ENGINE_TRUSTED,
  "assumptions": ["links are reliable FIFO byte streams"],
}

PROPS["C11"] = {
  "units": ["framing", "routerrecv", "routermap", "flags", "routerfrag", "routersend", "routerhold", "routerident"],
  "kani_quick": [], "kani_thorough": [],
  "claim": "Envelope handling only, proved for every message shape (any number of frames up to the container limit, empty frames anywhere): ROUTER's automatic delimiter is inserted right after the identity and removed from exactly that slot, "
           "DEALER's is prepended and stripped, the payload frames after it are unchanged frame for frame (decode after encode restores the payload); REP's extract_routing_prefix splits at the first empty frame, loses and reorders nothing, "
           "and treats a message without delimiter as all payload. "
           "ROUTER's receive loop (RouterSocket::recv_logical_finalized, its tokio::select! desugared to a nondeterministic choice between the arms, rewrite R12): a batch reaches the application only from a pipe whose identity is finalized "
           "(so it is never labelled with a placeholder for a peer that announced an identity), every batch taken from the queue is either the one returned or parked in arrival order (never dropped), "
           "and the finalize signal is subscribed to before the last check for releasable data (no lost wake-up window). "
           "The two writers of the identity gate (unit routerhold, on the concrete map of per-pipe FIFOs, counter and finalized set): RouterSocket::hold_pending_batch parks the batch at the BACK of its own pipe's queue, leaves every other queue untouched, counts it exactly once and finalizes nothing; "
           "RouterSocket::finalize_pipe adds exactly that pipe to the finalized set (nothing is ever removed by it), touches no parked batch, and wakes the waiters only AFTER the pipe is in the set. "
           "End of a handshake on ROUTER (unit routerident: RouterSocket::update_peer_identity, whole): when the pipe's endpoint is known the pipe's label becomes the announced identity if it is non-empty and that pipe's own placeholder otherwise, the routing map is told the same identity for the same pipe, no other label is touched; "
           "the label is written BEFORE the pipe passes the identity gate, and the pipe is finalized exactly once on every path (and no other pipe is). "
           "Attach on ROUTER (unit routerident: RouterSocket::pipe_attached, whole): the label is the identity given at attach if non-empty, that pipe's own placeholder otherwise, and the routing map is told the same; at attach the pipe passes the identity gate ONLY with a real identity or on an inproc endpoint "
           "(a placeholder-labelled TCP/IPC pipe stays behind the gate until its handshake ends), with the label already written; the pair invariant 'no finalized pipe without a label' is preserved. "
           "RouterMap (identity <-> connection maps, unit routermap): after add_peer / update_peer_identity the identity routes to the connection that announced it (also when the identity was already in the map: take-over), "
           "the pipe is labelled with it, the pipe's previous label (placeholder) no longer routes, every other identity and pipe entry is untouched; detaching a pipe removes its label and its identity's route "
           "unless another pipe has taken that identity over, in which case the route of the live connection is kept. "
           "ROUTER pipe_detached (whole function, unit routerfrag): a detached pipe loses BOTH its identity label and its pass through the identity gate (and its held batches), preserving the pair invariant "
           "'no pipe passes the gate without an identity label' that keeps late messages from being labelled with the pipe:N placeholder; other pipes are untouched.",
  "level_note": "In unit routerrecv the identity gate enters as an abstract stand-in with a monotone `finalized` predicate; its two writers hold_pending_batch and finalize_pipe are proved on their real bodies in unit routerhold (sequential lock model, AtomicUsize as a mathematical counter: wrap-around not modelled), its reader take_finalized_held (HashMap::keys().find(closure), Option::map(closure): outside Verus' subset) stays an ASSUMED contract. RouterMap is verified with the sequential lock model (its mutations come from the socket core's event loop; remove_peer_by_read_pipe takes its two locks one after the other); "
                "HashMap<Blob, _> uses vstd's HashMap specification with the ASSUMED key model for Blob (derived Eq/Hash over its bytes). Not covered: RouterMap::remove_peer_by_identity (HashMap iteration), the identity gate versus racing messages, ROUTER_MANDATORY error mapping, REQ's envelope handling in req_socket.rs "
                "(inside async code with tokio::select!). Encode requires the batch to have room for one more frame (derived precondition len < 255).",
  "technique": "contract-based deductive verification (Verus; FrameBatch as Seq<Msg> view, proved for the real FrameBatch in unit framebatch)",
  "trusted_base": COMMON_TRUSTED + ["prelude/framebatch.rs: FrameBatch as Seq<Msg> (proved for the real FrameBatch in unit framebatch)"],
  "assumptions": [],
}

PROPS["C14"] = {
  "units": ["iface", "route", "egress", "batch", "anon", "routerrecv", "flags", "dealerq", "dealertimeo", "subfilter"],
  "kani_quick": [], "kani_thorough": [],
  "claim": "Error mapping only, proved on the verbatim async functions of the session-backed connection interface (ScaConnectionIface): with SNDTIMEO = 0 a full pipe yields would-block at once and the batch is handed back unchanged; "
           "with SNDTIMEO = -1 send_multipart_owned never answers would-block or timeout (untimed wait); errors are only would-block / timeout / connection-closed; try_send_multipart_owned_sync and try_route_sync hand a refused batch back intact; "
           "EgressBuffer's message counter (the SNDHWM gate of the session) follows pushes and fully written chunks exactly and ignores control frames. "
           "Receive side (unit anon: AnonymousIngressEngine::recv / recv_multipart, AddressedIngressEngine::recv_logical_message): RCVTIMEO = 0 never waits on the queue and never answers timeout; would-block is answered only for RCVTIMEO = 0; "
           "timeout is answered only after a timed wait of exactly RCVTIMEO on the queue; RCVTIMEO = -1 never answers timeout or would-block; a failed receive consumes nothing. "
           "ROUTER (unit routerrecv, ghost clock): RCVTIMEO = 0 arms no timer and never waits; timeout is answered only for a positive RCVTIMEO and not before first-clock-reading + RCVTIMEO; "
           "EVERY timer the receive loop arms expires at that one deadline however often the loop goes round (not unboundedly later); RCVTIMEO = -1 arms no timer. "
           "With SNDTIMEO = 0 and the pipe at the high-water mark every entry point of the session-backed interface (send_message, send_multipart, send_multipart_owned) fails at once with would-block (ghost oracle for the pipe's state). "
           "DEALER's pending queue (unit dealerq, queueing step of queue_message_or_error as a region) never grows beyond SNDHWM and a full queue takes nothing; "
           "the whole DealerSocket::queue_message_or_error (unit dealertimeo, ghost clock, interference at every acquisition of the queue lock): SNDTIMEO = 0 at the high-water mark answers would-block without arming a timer or waiting, "
           "timeout is answered only for a positive SNDTIMEO and not before the interval, EVERY timer the call arms expires at the one deadline fixed from its first look at the clock however often it is woken, "
           "SNDTIMEO = -1 arms no timer and never answers timeout or would-block; DEALER never reports Ok for a message that a failed routing attempt consumed (unit dealerq: only the caller's own message is ever queued). "
           "Two known findings are reported: send_message / send_multipart turn SNDTIMEO = -1 into a 30 s timed wait followed by would-block.",
  "level_note": "Elapsed-time accuracy (no earlier than / not unboundedly later: the ghost wait log records the duration handed to tokio::time::timeout, not wall time; for ROUTER the ghost clock bounds every armed timer by the one deadline), and 'buffering stays within HWM + a fixed allowance under any producer/consumer speeds' are runtime/schedule properties: not covered. "
                "The pipe (fibre BoundedAsyncSender) and tokio::time::timeout enter as abstract stand-ins: try_send never waits and returns the refused item; a timed send either completes, fails, or elapses.",
  "technique": "contract-based deductive verification (Verus on extracted async fns; abstract channel/timeout stand-ins) with two recorded known findings",
  "trusted_base": COMMON_TRUSTED + ["fibre BoundedAsyncSender::{try_send, send} and tokio::time::timeout as abstract stand-ins (units/iface.py glue)", "prelude/time.rs"],
  "assumptions": ["fibre's try_send returns the refused item unchanged and never reports Sent"],
}

PROPS["C10"] = {
  "units": ["reqrep"],
  "kani_quick": [], "kani_thorough": [],
  "claim": "Proved for every call history and every interleaving of calls on clones of one socket, on the verbatim REQ send / recv (whole function: its tokio::select! is desugared to a nondeterministic choice between the arms, rewrite R12, so the state access inside the select body is covered) / recv_multipart and REP recv / recv_multipart / send_multipart (its critical section as a region): "
           "an out-of-turn call returns InvalidState and writes nothing to the protocol state; a call that fails writes nothing (REP; REQ send); a successful call performs exactly one write and it is the legal transition taken from the value found in the same critical section "
           "(REQ: ReadyToSend -> ExpectingReply by send, ExpectingReply -> ReadyToSend by recv; REP: ReadyToReceive -> ReceivedRequest(peer) by recv, ReceivedRequest(peer) -> ReadyToReceive by send, which hands back exactly the remembered requester). "
           "Interference is modelled, not ignored: at every acquisition of the state mutex the protected value is arbitrary except for the rely condition, and every write carries the guarantee condition as a proof obligation "
           "(only send() leaves ReadyToSend and only while holding the send turn; only recv()/recv_multipart() leave ReadyToReceive and only while holding the recv turn). Two known findings are reported (a failed REQ recv resets the state).",
  "level_note": "Rely/guarantee argument: the per-function obligations are machine-checked; the step from 'every write honours the guarantee' to 'the rely holds between my critical sections' is the standard meta-argument (DESIGN.md 8b) and needs the turn lock to be a mutual exclusion (tokio::sync::Mutex, trusted). "
                "R12 assumes that the select! arm not taken was dropped without effect (cancel safety of recv_logical_message / Notify::notified). Not covered: REP's wire assembly after the take (routing prefix + payload), REQ's reply matching against the request's peer, fairness of the turn locks.",
  "technique": "contract-based deductive verification (Verus on extracted async fns and regions; ghost write log + rely/guarantee conditions on the state mutex) with two recorded known findings; witness tests replayed on real sockets",
  "trusted_base": COMMON_TRUSTED + ["units/reqrep.py glue: CoreRef/LoadBalancer/Ingress/IfaceRef/Notifier as signature-only stand-ins; TurnLock = tokio::sync::Mutex<()> with ghost `held`; verif_state_acquire (havoc under rely) is the lock model R6h",
                                     "tokio::sync::Mutex provides mutual exclusion and releases on drop"],
  "assumptions": ["all accesses to the protocol state go through the functions under contract (syntactic scans of `self.state` per function; ReqSocket/RepSocket fields are private)"],
}

PROPS["C09"] = {
  "units": ["reqrep", "dealersend", "drivers", "routersend", "msgproc"],
  "kani_quick": [], "kani_thorough": [],
  "claim": "Protocol-state part for REQ and REP only, proved on the verbatim async functions: a future can be dropped only where it returned Pending, i.e. at an await; "
           "before EVERY await of ReqSocket::send / recv / recv_multipart and RepSocket::recv / recv_multipart (the assertion is inserted mechanically at each `.await` of the extracted text) no write to the protocol state has happened yet, "
           "so dropping the call at any point leaves the lock-step state exactly as the call found it (the socket is not stuck: the next valid call is accepted), and the turn locks introduced by the C10 repairs are RAII guards released on drop. "
           "REP send_multipart takes the pending request in one critical section before its only await, so a dropped reply leaves the socket in ReadyToReceive (a valid resting state), never in between. "
           "DEALER frame-by-frame send (unit dealersend): at every await of DealerSocket::send the send transaction is either exactly as the call found it or closed (Idle), never half-consumed, "
           "so a cancelled send() cannot leave the socket waiting for a completion signal nobody will send. "
           "Session futures polled inside select! (unit drivers): every exit of EgressDriver::poll / IngressDriver::poll, Pending included, leaves the durable state (EgressBuffer, ingress_buffer) consistent, "
           "so dropping them at any point neither loses nor duplicates bytes or batches.",
  "level_note": "Partial. Not covered: that no queued message is lost or duplicated when a recv future is dropped (ReadyPipeQueue::pop re-arms the ready list in a second await after the item was taken: whether that await can ever return Pending depends on "
                "the ready-list capacity invariant, an interleaving property, see C08), whole-or-nothing delivery of a cancelled send (fibre channel futures), DEALER's send_multipart waiting behind a transaction, ROUTER's fragmented-send permit, "
                "internal cancellation by timeouts. Drop semantics of the guards are Rust's, not modelled.",
  "technique": "contract-based deductive verification (Verus; mechanically inserted await-point assertions over the ghost write log of unit reqrep)",
  "trusted_base": PROPS["C10"]["trusted_base"],
  "assumptions": ["a future is only ever dropped at an await point that returned Pending (Rust async semantics)"],
}

PROPS["C12"] = {
  "units": ["trie", "subfilter", "distributor", "subopts"],
  "kani_quick": [], "kani_thorough": [], "enum_fallback": ["trie_histories"],
  "claim": "Matcher semantics only, proved for every topic, every subscription set and every history of subscribe/unsubscribe calls (representation invariant of the abstract view) on the verbatim SubscriptionTrie::{matches, subscribe, unsubscribe}: "
           "against the view cnt(p) = number of active subscriptions to exactly the byte string p, matches(t) is true iff some p with cnt(p) > 0 is a byte-prefix of t (the empty subscription is the prefix of length 0); "
           "subscribe(t) adds one to exactly cnt(t); unsubscribe(t) removes one iff cnt(t) > 0 (and reports whether that was the last one), and an unsubscribe of something never subscribed changes nothing "
           "(so a topic subscribed N times stays active until unsubscribed N times); no other topic's count is touched by either. "
           "Filter placement (unit subfilter: the FilteredAnonymous arms of PipeMessageSender::{send, try_send_sync, try_send_batch}, regions): a message is enqueued for the application iff the matcher accepts the payload of its FIRST frame "
           "(multipart: first frame only; no frame / no payload = empty topic); on the batched path exactly the matching messages of the consumed prefix are enqueued, in order, the rest of the caller's queue stays in order "
           "(a message refused by back-pressure goes back to the FRONT), nothing is duplicated; the slot's reservation and queued counters grow by exactly the number of messages enqueued. "
           "Option layer (unit subopts: SubSocket::set_pattern_option): SUBSCRIBE is exactly one trie.subscribe and is announced upstream; UNSUBSCRIBE is exactly one trie.unsubscribe and is announced upstream only when the last subscription to that topic is gone; other options touch nothing. "
           "PUB fan-out (unit distributor: the whole Distributor::send_to_all_multipart): for the snapshot of registered peers, in order, every peer is looked up once and -- iff its connection exists -- offered the whole message exactly once, "
           "whatever happened with the peers before it (a refusal or failure of one peer never ends the loop), and a would-block / timeout answer of a subscriber is never reported as a failure (so the caller removes only peers that really failed).",
  "level_note": "Sequential semantics: each call is verified as if it ran alone. The trie cells are Arc<RwLock<TrieNode>> with an AtomicUsize count; a node handle is identified by its path and the operations on a handle "
                "(read guard: count.load / children.get; write guard: children.entry(b).or_insert_with; count.fetch_add / fetch_sub, wrapping) enter as stand-ins whose contracts are the HashMap / atomic semantics over the abstract view. "
                "Not covered: interleavings of matches with subscribe/unsubscribe on other threads (unsubscribe below zero wraps the counter to usize::MAX for an instant before restoring it: a concurrent matches can see it), "
                "publication order across tasks, and the publisher never blocking on a slow subscriber (Distributor fan-out): schedule properties. In unit subfilter the subscription set is fixed during one call, the matcher's verdict is an uninterpreted function, and the iterator pre-scan / frame sum of the batched path enter as declared stand-ins. get_all_topics (recursive, iterator adapters) is not under contract.",
  "technique": "contract-based deductive verification (Verus on extracted real functions; abstract prefix-count view of the trie, loop invariants over the cursor path, prefix-closure lemmas)",
  "trusted_base": ["units/trie.py glue: NodeRef / NodeGuard / CountCell / ChildMap stand-ins for Arc<RwLock<TrieNode>>, its guards, AtomicUsize and HashMap<u8, _> (contracts = their std semantics over the view)",
                   "prelude/core.rs, vstd Map/Set/Seq"],
  "assumptions": ["calls on one trie do not interleave (sequential semantics)", "counts stay below usize::MAX (precondition of subscribe)"],
}

NOT_BUILT = "check not built yet in this revision (planned, see DESIGN.md section 9)"
NOT_APPLICABLE = {
 

  "C08": "lost wake-ups are an invariant over interleavings of individual atomic/channel steps plus a liveness claim; Kani has no threads and Verus would need its own atomic/permission types, i.e. a re-implementation (a model), not the code that runs (DESIGN.md section 6)",
  "C15": "the deciding state (bytes framed but unwritten in another actor, kernel buffers, the close deadline) spans actors and the OS; no contract over one function expresses 'accepted messages are transmitted within LINGER'",
  "C16": "termination/liveness of close()/term() over all API histories and tasks: Verus proves termination of single functions, Kani none",
  "C20": "relational whole-system claim (io_uring vs tokio backend), kernel dependent and feature-gated out of the default build",
}
