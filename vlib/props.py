"""Property -> units / Kani harnesses table (the single place that wires checks together)."""

MP = "core/src/protocol/zmtp/manual_parser.rs"
FR = "core/src/security/framer/mod.rs"

# Kani harnesses: kind "complete" = loop-free or protocol-fixed input width over the full symbolic domain
# (counts as proof); "bounded" = stand-in with a stated bound (never counted as proved);
# "witness" = replay-only executable form of a Verus obligation (CBMC cannot explore it; never counted).
KANI = {
  "vk_peek_frame_len": {
    "module": MP, "file": "kani/manual_parser.rs", "props": ["C03", "C07"], "kind": "complete", "timeout": 200,
    "what": "peek_frame_len over ALL headers (<=9 bytes) x ALL max_msg_size: no panic, Err iff oversize/unrepresentable, Some(total) iff header complete",
    "pairs_fn": ["ZmtpManualParser::peek_frame_len"],
  },
  "vk_lpf_record_prefix": {
    "module": FR, "file": "kani/framer.rs", "props": ["C18"], "kind": "bounded", "bound": "payload <= 8 bytes, pass-through cipher", "timeout": 400,
    "what": "LengthPrefixedFramer::write_msg_batch/multipart: announced record length == bytes that follow (executable form of the Verus obligation; used for replay with larger sizes)",
    "pairs_fn": ["LengthPrefixedFramer::write_msg_batch", "LengthPrefixedFramer::write_msg_multipart"],
  },
}

COMMON_TRUSTED = [
  "prelude/bytes.rs: assumed contracts of bytes::{Bytes,BytesMut} (views Seq<u8>; documented panics as preconditions)",
  "prelude/msg.rs: Msg/MsgFlags stand-ins (bitflags! is a macro; Msg accessors are one-liners, metadata field dropped)",
  "prelude/core.rs: ZmqError variant names only; VString opaque; be64/be16 helpers for {integer}::from_be_bytes",
  "vstd specs of Vec/Option/Result/slice; Z3 4.12 as shipped with Verus",
  "64-bit target (usize == u64); Rust allocation invariant len <= isize::MAX for slices/Vec/Bytes",
  "vx rewrite table R1-R8 (DESIGN.md 2.1); every application is listed in coverage.extraction_drops",
]

PROPS = {
  "C03": {
    "units": ["dec", "enc", "framer", "c03lem"],
    "kani_quick": [],
    "kani_thorough": ["vk_peek_frame_len"],
    "claim": "Unbounded machine-checked proof (Verus/Z3) on the verbatim text of rzmq's encoders and decoders, extracted from /repo on every run: "
             "each encoder's output equals the mathematical wire format enc_frame/enc_all/enc_batches of the frames in order (2-byte header iff len<=255, else 9-byte with big-endian u64), "
             "each decoder implements dec_step (Err iff oversize, Some iff a complete frame is buffered, exact consumption, None leaves buffer and state untouched), for all payload lengths, flag combinations, frame counts.",
    "level_note": "Relative to the assumed contracts of the bytes crate and the Msg/FrameBatch stand-ins (trusted_base). "
                  "frame_vectored/write_msg_split ignore the COMMAND bit: proved under the precondition that only data frames reach them.",
    "technique": "contract-based deductive verification (Verus on mechanically extracted real functions); Kani complete harness as cross-check",
    "trusted_base": COMMON_TRUSTED + ["prelude/framebatch.rs: FrameBatch as Seq<Msg> (proved for the real FrameBatch in unit framebatch)"],
    "assumptions": ["sum of payload sizes of one batch fits in usize (precondition wire_batches <= usize::MAX)",
                    "machine integers are modelled exactly (Verus checks overflow), allocation failure is out of scope"],
  },
  "C18": {
    "units": ["framer"],
    "kani_quick": [],
    "kani_thorough": ["vk_lpf_record_prefix"],
    "claim": "Record layer only: for ANY cipher (encrypt/decrypt abstract), LengthPrefixedFramer::write_msg_batch/write_msg_multipart return either an error or a record whose 16-bit big-endian "
             "length prefix equals the number of ciphertext bytes that follow (so the peer can delimit it), for all batches and ciphertext sizes. Secrecy, tamper detection and nonce freshness are cryptographic and not decided here.",
    "level_note": "Abstract cipher (nothing assumed but the trait signature); frame_contiguous enters by its contract proved in unit enc. Confidentiality/integrity/replay: not applicable to this technique.",
    "technique": "contract-based deductive verification (Verus on extracted real functions, abstract trait object for the cipher)",
    "trusted_base": COMMON_TRUSTED + ["prelude/cipher.rs: IDataCipher trait signature only"],
    "assumptions": ["cryptographic properties (secrecy, AEAD integrity, key/nonce uniqueness across sessions) are outside contracts"],
  },
}

PROPS["C01"] = {
  "units": ["egress", "enc", "framer"],
  "kani_quick": [], "kani_thorough": [],
  "claim": "Session-local byte-stream conservation, proved unbounded on the verbatim functions: EgressBuffer (push appends at the tail, advance(n) drops exactly n bytes from the front for every n and every chunking, "
           "push_priority inserts only after the partially written head chunk, counters follow the view) and the batch encoders (frame_contiguous / frame_vectored / NullFramer wrappers emit exactly enc_batches of the frames in batch order: "
           "nothing reordered, merged, dropped or duplicated). End-to-end delivery across tasks, pipes and the kernel is a whole-system property and is not claimed.",
  "level_note": "Sequential contracts on single-owner state (the session actor owns EgressBuffer exclusively). Not covered: batch assembly in actor.rs (tokio::select! body), DEALER pending queue, inproc path, fibre channels, the 'accepted during connect' part.",
  "technique": "contract-based deductive verification (Verus on mechanically extracted real functions; abstract view + representation invariant)",
  "trusted_base": COMMON_TRUSTED + ["vstd VecDeque specs + assume_specification for VecDeque::front/is_empty"],
  "assumptions": ["pending bytes and message counters fit in usize (preconditions)", "advance(n) is called with n <= pending bytes (what poll_write_vectored can return)"],
}

NOT_BUILT = "check not built yet in this revision (planned, see DESIGN.md section 9)"
NOT_APPLICABLE = {
  "C02": NOT_BUILT, "C04": NOT_BUILT, "C05": NOT_BUILT, "C06": NOT_BUILT, "C07": NOT_BUILT,
  "C09": NOT_BUILT, "C10": NOT_BUILT, "C11": NOT_BUILT, "C13": NOT_BUILT, "C14": NOT_BUILT, "C17": NOT_BUILT, "C19": NOT_BUILT,
  "C08": "lost wake-ups are an invariant over interleavings of individual atomic/channel steps plus a liveness claim; Kani has no threads and Verus would need its own atomic/permission types, i.e. a re-implementation (a model), not the code that runs (DESIGN.md section 6)",
  "C12": "SubscriptionTrie is Arc<RwLock<TrieNode>> nodes with HashMap children and an AtomicUsize: no abstract view without rewriting it (Verus), parking_lot crashes kani-compiler 0.68; non-blocking fan-out is a schedule property",
  "C15": "the deciding state (bytes framed but unwritten in another actor, kernel buffers, the close deadline) spans actors and the OS; no contract over one function expresses 'accepted messages are transmitted within LINGER'",
  "C16": "termination/liveness of close()/term() over all API histories and tasks: Verus proves termination of single functions, Kani none",
  "C20": "relational whole-system claim (io_uring vs tokio backend), kernel dependent and feature-gated out of the default build",
}
