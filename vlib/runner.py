"""Run Verus on a generated unit file, map diagnostics back to named obligations."""
import json
import os
import re
import subprocess
import time
import concurrent.futures as cf

from . import vx

VERUS = os.environ.get("VERUS_BIN", "verus")

VIOLATION_MSGS = (
  "postcondition not satisfied",
  "precondition not satisfied",
  "invariant not satisfied",
  "assertion failed",
  "possible arithmetic underflow/overflow",
  "possible division by zero",
  "decreases not satisfied",
  "loop invariant not",
  "possible bit shift underflow/overflow",
  "recommendation not met",
  "failed to prove",
)
UNDECIDED_MSGS = ("rlimit", "Resource limit", "timed out", "not supported", "unsupported", "internal error", "panicked", "cannot be", "unless #[verifier", "not allowed")


class Unit:
  def __init__(self, name, props, parts, safety_props=None, notes="", rlimit=None, trusted_note=None):
    self.name = name
    self.props = list(props)
    self.parts = parts
    self.safety_props = list(safety_props) if safety_props is not None else list(props)
    self.notes = notes
    self.rlimit = rlimit
    self.trusted_note = trusted_note or []


def split_props(name, default):
  """'C03+C07:foo' -> (['C03','C07'], 'foo')"""
  if name and ":" in name:
    tail = name.rsplit(".", 1)[-1] if False else name
  m = re.match(r"^(.*?\.)?((?:C\d+\+?)+):(.*)$", name or "")
  if m:
    return m.group(2).split("+"), (m.group(1) or "") + m.group(3)
  return list(default), name


def run_verus(path, args=(), timeout=600, multiple_errors=20):
  cmd = [VERUS, path, "--output-json", "--time", "--error-format=json", "--multiple-errors", str(multiple_errors)] + list(args)
  t0 = time.time()
  try:
    p = subprocess.run(cmd, capture_output=True, text=True, timeout=timeout, cwd=os.path.dirname(path))
  except subprocess.TimeoutExpired:
    return {"timeout": True, "cmd": " ".join(cmd), "wall": time.time() - t0, "diags": [], "json": None, "rc": -1, "stderr": "timeout"}
  diags = []
  other = []
  for ln in p.stderr.splitlines():
    ln = ln.strip()
    if ln.startswith("{"):
      try:
        d = json.loads(ln)
        diags.append(d)
        continue
      except Exception:
        pass
    if ln:
      other.append(ln)
  js = None
  try:
    js = json.loads(p.stdout)
  except Exception:
    # stdout may have notes before json
    i = p.stdout.find("{")
    if i >= 0:
      try:
        js = json.loads(p.stdout[i:])
      except Exception:
        js = None
  return {"timeout": False, "cmd": " ".join(cmd), "wall": time.time() - t0, "diags": diags, "json": js, "rc": p.returncode,
          "stderr": "\n".join(other)[-4000:]}


def fn_times(js):
  out = {}
  if not js:
    return out
  try:
    for mod in js["times-ms"]["smt"]["smt-run-module-times"]:
      for fb in mod.get("function-breakdown", []):
        out[fb["function"]] = {"ms": fb.get("time-micros", 0) / 1000.0, "success": fb.get("success"), "rlimit": fb.get("rlimit")}
  except Exception:
    pass
  return out


def scan_trusted(lines):
  pats = ["external_body", "assume_specification", "assume(", "admit(", "verifier::truncate", "exec_allows_no_decreases_clause", "external_type_specification", "verifier::external"]
  found = {}
  for i, ln in enumerate(lines):
    code = ln.split("//")[0]
    for p in pats:
      if p in code:
        found.setdefault(p, 0)
        found[p] += 1
  return found


def classify(gen, res, unit):
  """-> (failures, undecided) ; failures: list of dict(name, props, msg, at, detail)"""
  fails, undec = [], []
  seen = set()
  for d in res["diags"]:
    key = d.get("rendered") or str(d.get("spans"))
    key = re.sub(r"/[^\s:]+\.rs", "F.rs", key)
    if key in seen:
      continue
    seen.add(key)
    if d.get("level") not in ("error",):
      continue
    msg = d.get("message", "")
    if msg.startswith("aborting due to"):
      continue
    spans = d.get("spans", [])
    prim = [s for s in spans if s.get("is_primary")] or spans
    if not prim:
      undec.append({"msg": msg, "at": None})
      continue
    is_violation_kind = any(v in msg for v in VIOLATION_MSGS)
    if not is_violation_kind or any(u in msg for u in UNDECIDED_MSGS):
      ln = prim[0]["line_start"]
      org = gen.origin[ln - 1] if 0 < ln <= len(gen.origin) else {}
      undec.append({"msg": msg, "at": org, "rendered": d.get("rendered", "")[:1500]})
      continue
    ln = prim[0]["line_start"]
    org = gen.origin[ln - 1] if 0 < ln <= len(gen.origin) else {"kind": "?"}
    others = []
    for s in spans:
      o = gen.origin[s["line_start"] - 1] if 0 < s["line_start"] <= len(gen.origin) else {}
      others.append({"label": s.get("label"), "origin": o, "text": (s.get("text") or [{}])[0].get("text", "").strip()})
    kind = org.get("kind")
    rendered = d.get("rendered", "")[:2500]
    if kind in ("ensures", "invariant", "hint", "loop_ensures") and org.get("name"):
      props, clean = split_props(org["name"], unit.props)
      fails.append({"name": clean, "props": props, "msg": msg, "fn": org.get("fn"), "clause": org.get("text"), "spans": others, "rendered": rendered})
    elif kind == "code" and [o for o in others if o["origin"].get("kind") in ("invariant", "ensures", "loop_ensures") and o["origin"].get("name")]:
      # e.g. "loop invariant not satisfied at this continue/break/exit": the named clause is in a secondary span
      o = [o for o in others if o["origin"].get("kind") in ("invariant", "ensures", "loop_ensures") and o["origin"].get("name")][0]["origin"]
      props, clean = split_props(o["name"], unit.props)
      fails.append({"name": clean, "props": props, "msg": msg, "fn": o.get("fn"), "clause": "%s (at %s:%s `%s`)" % (o.get("text"), org.get("file"), org.get("line"), gen.lines[ln - 1].strip()[:80]),
                    "spans": others, "rendered": rendered})
    elif kind == "code":
      # safety obligation inside an extracted function: find enclosing fn
      fnname = enclosing_fn(gen, ln)
      callee_pre = [o for o in others if o["label"] and "failed precondition" in o["label"]]
      detail = "%s at %s:%s `%s`" % (msg, org.get("file"), org.get("line"), gen.lines[ln - 1].strip()[:120])
      if callee_pre:
        detail += " ; callee precondition: " + callee_pre[0]["text"][:160]
      fails.append({"name": "%s.safety" % fnname, "props": safety_props_of(gen, unit, fnname), "msg": msg, "fn": fnname,
                    "clause": detail, "spans": others, "rendered": rendered, "src": "%s:%s" % (org.get("file"), org.get("line"))})
    elif kind in ("ensures", "invariant", "hint", "loop_ensures"):
      # unnamed auxiliary clause of an extracted function: counts against the function's aggregate obligation
      fnname = org.get("fn")
      fails.append({"name": "%s.safety" % fnname, "props": safety_props_of(gen, unit, fnname), "msg": msg, "fn": fnname,
                    "clause": "auxiliary %s `%s`: %s" % (kind, org.get("text"), msg), "spans": others, "rendered": rendered})
    elif kind in ("requires", "kw"):
      undec.append({"msg": msg, "at": org, "rendered": rendered})
    else:
      # failure inside hand-written text (lemma / prelude): machinery problem, not a violation
      undec.append({"msg": "hand-written proof text failed: " + msg, "at": org, "rendered": rendered, "gen_line": ln})
  return fails, undec


def safety_props_of(gen, unit, fnname):
  for fd in gen.functions:
    if fd["fn"] == fnname or fd["fn"].split("::")[-1] == fnname:
      if fd.get("safety_props"):
        return list(fd["safety_props"])
  return list(unit.safety_props)


def enclosing_fn(gen, ln):
  # walk back to the nearest "// ---- extracted fn" marker
  for k in range(ln - 1, -1, -1):
    m = re.match(r"// ---- extracted fn (\S+) from", gen.lines[k])
    if m:
      # find qualified name from functions table by order
      return m.group(1)
  return "?"


def with_extra_parts(unit, extra):
  """insert auto-resolved items right before the first extracted function of the unit"""
  parts = list(unit.parts)
  idx = next((i for i, p in enumerate(parts) if isinstance(p, vx.Fn)), len(parts))
  parts[idx:idx] = extra
  u2 = Unit(unit.name, unit.props, parts, unit.safety_props, unit.notes, unit.rlimit, unit.trusted_note)
  return u2


def resolve_missing(unit, gen, res, log):
  """Names the extracted code refers to but the unit does not define (typically introduced by an edit of /repo):
  constants of the same source file are pulled in verbatim; functions of the same file become contract-less
  external stubs (their result is arbitrary: sound, and a caller that needs more fails its obligation)."""
  extra = []
  seen = set(l["name"] for l in log)
  files = []
  for p in unit.parts:
    if isinstance(p, vx.Fn) and p.file not in files:
      files.append(p.file)
  for d in res["diags"]:
    msg = d.get("message") or ""
    if "is not supported" in msg and "assume_specification" in msg:
      # a std function vstd has no specification for (typically introduced by an edit of /repo): Verus prints the declaration it
      # needs; it is added WITHOUT any ensures clause (arbitrary result: sound, a caller that needs more fails its obligation)
      txt = " ".join((d.get("rendered") or "").split())
      for ch in d.get("children", []):
        txt += " " + " ".join(((ch.get("message") or "") + " " + (ch.get("rendered") or "")).split())
      ms = re.search(r"(pub assume_specification\s*(?:<[^\[]*>)?\s*\[[^\]]*\]\s*\(.*?\)(?:\s*->\s*[^;]*?)?(?:\s*where[^;]*)?;)", txt)
      if ms:
        decl = ms.group(1)
        key = "assume_specification " + re.search(r"\[([^\]]*)\]", decl).group(1).strip()
        if key not in seen:
          seen.add(key)
          extra.append(vx.Raw(text="// auto-resolved: contract-less specification of a std function (result arbitrary)\n" + decl + "\n", label="auto-std-spec"))
          log.append({"name": key, "how": "std function without vstd specification: contract-less assume_specification added (arbitrary result)"})
      continue
    m = re.search(r"cannot find (value|function) `([A-Za-z_][A-Za-z0-9_]*)` in this scope", msg)
    m2 = re.search(r"no (?:function or associated item|method|associated item|associated function or constant) named `([A-Za-z_][A-Za-z0-9_]*)` found for (?:struct|enum|reference|mutable reference|type) `&?(?:mut )?([A-Za-z_][A-Za-z0-9_:]*)", msg)
    if not m and not m2:
      continue
    name = m.group(2) if m else m2.group(1)
    if name in seen:
      continue
    # origin file of the reference, else every file of the unit
    cand = []
    for sp in d.get("spans", []):
      o = gen.origin[sp["line_start"] - 1] if 0 < sp["line_start"] <= len(gen.origin) else {}
      if o.get("file") and o["file"] not in cand:
        cand.append(o["file"])
    cand += [f for f in files if f not in cand]
    done = False
    for f in cand:
      src = vx.Src.get(f)
      if m and m.group(1) == "value":
        for kind in ("const", "static"):
          if re.search(r"\b%s\s+%s\b" % (kind, re.escape(name)), src.mask):
            extra.append(vx.Item(f, kind, name))
            log.append({"name": name, "how": "%s pulled in from %s" % (kind, f)})
            done = True
            break
      else:
        mm = re.search(r"\bfn\s+%s\b" % re.escape(name), src.mask)
        if mm:
          # enclosing impl header, if any
          hdr = None
          for im in re.finditer(r"(?m)^[ \t]*impl\b([^{;]*)\{", src.mask):
            op = im.end() - 1
            try:
              cl = vx.match_close(src.mask, op)
            except vx.VxError:
              continue
            if op < mm.start() < cl:
              hdr = " ".join(im.group(1).split())
          if hdr:
            tname = hdr.split(" for ")[-1].strip()
            fn = vx.Fn(f, name, impl=r"impl\s+" + re.escape(hdr).replace(r"\ ", r"\s+") + r"\s*", emit_impl="impl " + tname, contract_only=True)
          else:
            fn = vx.Fn(f, name, contract_only=True)
          extra.append(fn)
          log.append({"name": name, "how": "function of %s added as a contract-less external stub (arbitrary result)" % f})
          done = True
      if done:
        seen.add(name)
        break
  return extra


def run_probes(unit, workdir, args):
  """every contracted function gets an uncalled twin `<name>__vprobe` with the extra clause `ensures false`;
  each twin must be REJECTED (else its precondition/assumptions are contradictory or no exit is reachable)"""
  import copy
  res = {"probe": {}, "undecided": []}
  sub_parts = []
  twins = {}
  for p in unit.parts:
    sub_parts.append(p)
    if isinstance(p, vx.Fn) and p.probe:
      q = copy.copy(p)
      q.ensures = [c if isinstance(c, str) else c[1] for c in p.ensures] + [("VACUITY_PROBE", "false")]
      base = (re.sub(r"^impl(<[^>]*>)?\s+", "", p.emit_impl).split("<")[0].strip() + "::") if p.emit_impl else ""
      q.rename = base + (p.rename.split("::")[-1] if p.rename else p.name) + "__vprobe"
      q.probe = False
      q.loops = {k: {kk: ([c if isinstance(c, str) else c[1] for c in vv] if isinstance(vv, list) else vv) for kk, vv in v.items()} for k, v in p.loops.items()}
      q.hints = list(p.hints)
      twins[q.rename] = p
      sub_parts.append(q)
  if not twins:
    return res
  u2 = Unit(unit.name, unit.props, sub_parts, unit.safety_props)
  try:
    g2 = vx.generate(u2, probe=False)
    p2 = os.path.join(workdir, "%s_probes.rs" % unit.name)
    open(p2, "w").write("\n".join(g2.lines))
    r2 = run_verus(p2, ["--verify-root", "--verify-function", "*__vprobe"] + list(args), timeout=600, multiple_errors=0)
    # a twin is vacuous iff Verus PROVES `false` for it, i.e. reports the twin as verified; any failure
    # (postcondition rejected, or the solver giving up) means `false` was not derivable
    times2 = fn_times(r2["json"])
    proved = set(k.split("::")[-1] for k, v in times2.items() if v.get("success") and k.endswith("__vprobe"))
    seen2 = set(k.split("::")[-1] for k in times2 if k.endswith("__vprobe"))
    for qn in twins:
      key = qn.replace("__vprobe", "")
      short = qn.split("::")[-1]
      if r2["json"] is None or short not in seen2:
        res["probe"][key] = "NOT-RUN"
        res["undecided"].append({"msg": "vacuity probe for %s did not run: rc=%s %s" % (key, r2["rc"], (r2["stderr"] or " ".join(d.get("message", "") for d in r2["diags"]))[-300:])})
      elif short in proved:
        res["probe"][key] = "VACUOUS"
        res["undecided"].append({"msg": "vacuity probe: `ensures false` on %s was PROVED (contradictory precondition/assumption or unreachable exit)" % key})
      else:
        res["probe"][key] = "rejected"
    try:
      os.remove(p2)
    except OSError:
      pass
  except vx.VxError as e:
    res["undecided"].append({"msg": "vacuity probe generation failed: %s" % e})
  return res


def run_unit(unit, workdir, seed=0, probes=True, jobs=8):
  """Generate + verify a unit. Returns a result dict (never raises for tool problems)."""
  os.makedirs(workdir, exist_ok=True)
  t0 = time.time()
  out = {"unit": unit.name, "props": unit.props, "status": "ok", "obligations": [], "failures": [], "undecided": [],
         "functions": [], "drops": [], "trusted_scan": {}, "probe": {}, "solver_ms": 0.0, "wall_s": 0.0, "cmd": ""}
  path = os.path.join(workdir, "%s.rs" % unit.name)
  args = []
  if unit.rlimit:
    args += ["--rlimit", str(unit.rlimit)]
  if seed:
    args += ["--smt-option", "smt.random_seed=%d" % seed]
  auto_added = []
  gen = None
  res = None
  for attempt in range(6):
    try:
      gen = vx.generate(unit, probe=False)
    except vx.VxError as e:
      out["status"] = "undecided"
      out["undecided"].append({"msg": "extraction: %s" % e})
      out["wall_s"] = time.time() - t0
      return out
    open(path, "w").write("\n".join(gen.lines))
    res = run_verus(path, args)
    extra_parts = resolve_missing(unit, gen, res, auto_added)
    if not extra_parts:
      break
    unit = with_extra_parts(unit, extra_parts)
  out["auto_resolved"] = auto_added
  json.dump(gen.origin, open(path + ".map.json", "w"))
  probe_future = None
  if probes:
    probe_ex = cf.ThreadPoolExecutor(max_workers=1)
    probe_future = probe_ex.submit(run_probes, unit, workdir, list(args))
  # a resource-limit hit decides nothing: retry the affected function alone with a 10x limit so that a false
  # obligation is reported as a crisp failure (and a slow-but-true one as discharged) instead of "unknown"
  rl = [d for d in res["diags"] if "rlimit" in (d.get("message") or "")]
  if rl:
    fns = set()
    for d in rl:
      for sp in d.get("spans", []):
        if sp.get("is_primary"):
          fns.add(enclosing_fn(gen, sp["line_start"]))
    keep = [d for d in res["diags"] if d not in rl]
    retried = []
    for fq in sorted(fns):
      if fq == "?":
        keep += [d for d in rl]
        continue
      big = [a for a in args if a not in ("--rlimit", str(unit.rlimit))] + ["--rlimit", str((unit.rlimit or 10) * 10), "--verify-root", "--verify-function", "*" + fq]
      r2 = run_verus(path, big, timeout=900)
      retried.append(fq)
      if r2["json"] is None:
        keep += [d for d in rl]
      else:
        for d in r2["diags"]:
          if (d.get("message") or "").startswith("verifying root module"):
            continue
          if "rlimit" in (d.get("message") or ""):
            # still undischarged with 10x the budget that suffices on the unchanged tree: an obligation that used to be
            # discharged no longer is -- reported as a failed obligation (reason: solver resource limit), not as "unknown"
            d = dict(d)
            d["message"] = "assertion failed: obligation no longer discharged (solver resource limit exhausted at 10x budget)"
          keep.append(d)
        t2 = fn_times(r2["json"])
        try:
          for mod in res["json"]["times-ms"]["smt"]["smt-run-module-times"]:
            mod["function-breakdown"] = [fb for fb in mod.get("function-breakdown", []) if fb["function"] not in t2]
            mod["function-breakdown"] += [fb for m2 in r2["json"]["times-ms"]["smt"]["smt-run-module-times"] for fb in m2.get("function-breakdown", [])]
        except Exception:
          pass
    res["diags"] = keep
    if not [d for d in keep if d.get("level") == "error" and not (d.get("message") or "").startswith("aborting due to")]:
      try:
        res["json"]["verification-results"]["encountered-error"] = False
      except Exception:
        pass
    res["cmd"] += "  (rlimit x10 retry of: %s)" % ", ".join(retried)
    out["rlimit_retry"] = retried
  out["cmd"] = res["cmd"]
  out["functions"] = gen.functions
  out["assumed_callees"] = gen.assumed_callees
  out["skipped_hints"] = gen.skipped_hints
  out["drops"] = gen.drops
  out["trusted_scan"] = scan_trusted(gen.lines)
  out["generated_file"] = path
  times = fn_times(res["json"])
  out["solver_ms"] = sum(v["ms"] for v in times.values())
  if res["timeout"] or res["json"] is None:
    out["status"] = "undecided"
    out["undecided"].append({"msg": "verus produced no result (timeout=%s rc=%s): %s" % (res["timeout"], res["rc"], res["stderr"][-1500:])})
    out["wall_s"] = time.time() - t0
    return out
  vr = res["json"].get("verification-results", {})
  out["verus_verified"] = vr.get("verified", 0)
  out["verus_errors"] = vr.get("errors", 0)
  fails, undec = classify(gen, res, unit)
  if vr.get("encountered-vir-error") or (vr.get("encountered-error") and not fails and not undec):
    undec.append({"msg": "verus error without mapped diagnostic: " + res["stderr"][-1500:] + " ".join(d.get("message", "") for d in res["diags"])[:1500]})
  # obligations table: named + one aggregate safety obligation per function
  failed_names = {}
  for f in fails:
    failed_names.setdefault(f["name"], []).append(f)
  for ob in gen.obligations:
    props, clean = split_props(ob["name"], unit.props)
    fn = ob["fn"]
    tm = [v for k, v in times.items() if k.endswith("::" + fn) or k.endswith("::" + fn.split("::")[-1])]
    out["obligations"].append({"name": clean, "props": props, "fn": fn, "kind": ob["kind"], "text": ob["text"],
                               "backend": "verus/z3", "verdict": "failed" if clean in failed_names else "discharged",
                               "ms": round(tm[0]["ms"], 1) if tm else None})
  for lm in gen.lemmas:
    props, clean = split_props(lm["name"], unit.props)
    tm = [v for k, v in times.items() if k.endswith("::" + lm["fn"]) or k == lm["fn"]]
    ok = bool(tm) and all(v.get("success") for v in tm)
    out["obligations"].append({"name": clean, "props": props, "fn": lm["fn"], "kind": "lemma",
                               "text": "pure lemma over the contract spec functions (%s)" % lm["src"], "backend": "verus/z3",
                               "verdict": "discharged" if ok else "undecided", "ms": round(tm[0]["ms"], 1) if tm else None})
  for fdesc in gen.functions:
    alt = "%s.safety" % fdesc["fn"]
    bad = alt in failed_names
    out["obligations"].append({"name": alt, "props": list(fdesc.get("safety_props") or unit.safety_props), "fn": fdesc["fn"], "kind": "safety",
                               "text": "all Verus-generated obligations in the verbatim body: no overflow/underflow, indices and slices in bounds, callee preconditions, termination measures",
                               "backend": "verus/z3", "verdict": "failed" if bad else "discharged", "ms": None})
  out["failures"] = fails
  out["undecided"] = undec
  # ---- vacuity probes (started concurrently with the main run, see start_probes)
  if probe_future is not None:
    pr = probe_future.result()
    out["probe"].update(pr["probe"])
    if not undec and not fails:
      out["undecided"] += pr["undecided"]
  if out["undecided"]:
    out["status"] = "undecided"
  if out["failures"]:
    out["status"] = "failed"
  out["wall_s"] = time.time() - t0
  return out
