"""./check <property> [--tier quick|thorough] [--replay file]

Exit codes: 0 every obligation of the property discharged (KNOWN-FINDING lines allowed);
1 a named obligation is violated (prints `VIOLATION property=<id> replay=<path>`);
2 undecided for tool reasons (lost anchor, unsupported construct, rlimit, Kani crash) -- never a VIOLATION.
"""
import concurrent.futures as cf
import importlib
import json
import os
import re
import shutil
import sys
import tempfile
import time

from . import kani, runner, vx
from .props import PROPS, KANI, WITNESS_TESTS, ENUM_TESTS

VERIF = os.path.dirname(os.path.dirname(os.path.abspath(__file__)))


def load_known():
  p = os.path.join(VERIF, "KNOWN_FINDINGS.json")
  if not os.path.exists(p):
    return []
  return json.load(open(p)).get("findings", [])


def known_match(known, pid, name, detail):
  for k in known:
    if k.get("status") == "fixed":
      continue
    if k.get("property") != pid and pid not in k.get("properties", []):
      continue
    if k.get("obligation") != name:
      continue
    site = k.get("site")
    if site and site not in (detail or ""):
      continue
    return k
  return None


def run_units(names, tier, seed):
  results = {}
  base = tempfile.mkdtemp(prefix="rzmq-verif-vx-", dir=kani.SCRATCH_BASE)

  def one(n):
    mod = importlib.import_module("units." + n)
    importlib.reload(mod) if False else None
    seeds = [0]
    if tier == "thorough":
      seeds = [0, (seed or 1) * 7 + 1, (seed or 1) * 13 + 5]
    res = None
    for i, sd in enumerate(seeds):
      r = runner.run_unit(mod.unit, os.path.join(base, n + "-%d" % i), seed=sd, probes=(i == 0))
      r["seed"] = sd
      if res is None:
        res = r
        res["stability"] = [{"seed": sd, "status": r["status"]}]
      else:
        res["stability"].append({"seed": sd, "status": r["status"]})
        if r["status"] != res["status"] and res["status"] == "ok":
          # unstable proof: report as undecided, not as violation
          res["status"] = "undecided"
          res["undecided"].append({"msg": "proof unstable under smt.random_seed=%d: %s" % (sd, r["status"])})
    return n, res

  with cf.ThreadPoolExecutor(max_workers=min(6, max(1, len(names)))) as ex:
    for n, r in ex.map(one, names):
      results[n] = r
  return results, base


def kani_phase(harness_names, playback_for=()):
  """run the listed harnesses in one invocation; returns name -> result dict"""
  if not harness_names:
    return {}, None
  sc = kani.Scratch("kani")
  try:
    sc.populate()
    mods = {}
    for h in harness_names:
      spec = KANI[h]
      mods.setdefault((spec["module"], spec["file"]), []).append(h)
    for (module, f) in mods:
      sc.append_module(module, os.path.join(VERIF, f), modname="verif_kani_" + re.sub(r"\W", "_", os.path.basename(f)))
    feats = None
    tmo = max(300, sum(KANI[h].get("timeout", 300) for h in harness_names))
    res = kani.run_kani(sc, list(harness_names), features=feats, timeout=tmo)
    out = res["harness"]
    out["_meta"] = {"cmd": res["_cmd"], "rc": res["_rc"], "wall": res["_wall"], "tail": res["_raw_tail"]}
    # counterexamples for failing harnesses
    for h in harness_names:
      r = out.get(h)
      if r and r["status"] == "FAILED":
        r2 = kani.run_kani(sc, [h], playback=True, timeout=KANI[h].get("timeout", 300) * 2)
        pb = r2["harness"].get(h, {}).get("playback")
        r["values"] = [v["bytes"] for v in (kani.playback_values(pb) or [])] or None
        r["playback_text"] = pb
    return out, sc
  except Exception as e:
    return {"_error": "%s: %s" % (type(e).__name__, e)}, sc


def replay_values(harness, values):
  spec = KANI[harness]
  sc = kani.Scratch("replay")
  try:
    sc.populate(patch_tracing=False)
    sc.append_module(spec["module"], os.path.join(VERIF, spec["file"]), modname="verif_kani_" + re.sub(r"\W", "_", os.path.basename(spec["file"])))
    return kani.run_replay(sc, "::" + harness, values)
  finally:
    sc.cleanup()


def run_witness(name):
  spec = WITNESS_TESTS[name]
  sc = kani.Scratch("witness")
  try:
    sc.populate(patch_tracing=False)
    return kani.run_witness_test(sc, os.path.join(VERIF, spec["file"]), append_to=spec.get("append_to"), test_filter=spec.get("test_filter"))
  finally:
    sc.cleanup()


def run_enum(name):
  spec = ENUM_TESTS[name]
  sc = kani.Scratch("enum")
  try:
    sc.populate(patch_tracing=False)
    return kani.run_witness_test(sc, os.path.join(VERIF, spec["file"]), append_to=spec.get("append_to"), test_filter=spec.get("test_filter"))
  finally:
    sc.cleanup()


def write_replay(pid, name, payload):
  os.makedirs(os.path.join(VERIF, "replays"), exist_ok=True)
  fn = os.path.join(VERIF, "replays", "%s-%s.json" % (pid, re.sub(r"[^A-Za-z0-9_.-]+", "_", name)))
  json.dump(payload, open(fn, "w"), indent=1)
  return fn


def do_replay(pid, path):
  d = json.load(open(path))
  if d.get("witness_test"):
    rr = run_witness(d["witness_test"])
    print(rr["output"][-2500:])
    if rr["void"]:
      print("UNDECIDED witness test did not run")
      return 2
    if rr["failed"]:
      print("VIOLATION property=%s replay=%s" % (pid, path))
      return 1
    print("witness passes on the current tree: the recorded scenario no longer violates %s" % d.get("obligation"))
    return 0
  if not d.get("harness") or not d.get("values"):
    print("replay file %s names obligation %s; it carries no failing input (no-failing-input-found). Verifier output:" % (path, d.get("obligation")))
    print(d.get("verifier_output", "")[:3000])
    print("re-running the check to see whether the obligation still fails:")
    return main([pid])
  rr = replay_values(d["harness"], d["values"])
  print(rr["output"][-2500:])
  if rr["void"]:
    print("UNDECIDED replay void (harness changed or assumption not met)")
    return 2
  if rr["failed"]:
    print("VIOLATION property=%s replay=%s" % (pid, path))
    return 1
  print("replay passes on the current tree: the recorded input no longer violates %s" % d.get("obligation"))
  return 0


def main(argv):
  t0 = time.time()
  if not argv:
    print(__doc__)
    return 2
  pid = argv[0]
  tier = os.environ.get("VERIF_TIER", "quick")
  if "--tier" in argv:
    tier = argv[argv.index("--tier") + 1]
  if "--replay" in argv:
    return do_replay(pid, argv[argv.index("--replay") + 1])
  seed = int(os.environ.get("VERIF_SEED", "0") or 0)
  if pid not in PROPS:
    print("property %s is not claimed (see MANIFEST.json not_applicable)" % pid)
    return 2
  spec = PROPS[pid]
  known = load_known()
  unit_names = list(spec["units"]) + (list(spec.get("units_thorough", [])) if tier == "thorough" else [])
  results, base = run_units(unit_names, tier, seed)

  obligations, failures, undecided = [], [], []
  functions, drops, trusted, probes, cmds = [], [], {}, {}, []
  solver_ms = 0.0
  for n in unit_names:
    r = results[n]
    cmds.append(r.get("cmd", ""))
    solver_ms += r.get("solver_ms", 0)
    for u in r["undecided"]:
      undecided.append({"unit": n, **{k: v for k, v in u.items() if k in ("msg", "at", "rendered")}})
    for o in r["obligations"]:
      if pid in o["props"]:
        o2 = dict(o)
        o2["unit"] = n
        if r["status"] == "undecided":
          o2["verdict"] = "undecided" if o2["verdict"] == "discharged" else o2["verdict"]
        obligations.append(o2)
    for f in r["failures"]:
      if pid in f["props"]:
        f2 = dict(f)
        f2["unit"] = n
        failures.append(f2)
    for fd in r["functions"]:
      functions.append({"unit": n, **fd})
    for d in r["drops"]:
      drops.append({"unit": n, **d})
    for k, v in r["trusted_scan"].items():
      trusted["%s:%s" % (n, k)] = v
    probes[n] = r["probe"]

  # ---- Kani deciders
  want = list(spec.get("kani_quick", []))
  if tier == "thorough":
    want += [h for h in spec.get("kani_thorough", []) if h not in want]
  # bounded fallback deciders: when a Verus unit of this property could not decide (lost anchor of a declared rewrite,
  # construct outside Verus' subset -- typically after an edit of /repo), the bounded Kani harnesses registered for the
  # property run on the real crate; a failing one is a violation with a replayed counterexample, a passing one leaves
  # the check undecided (exit 2)
  if undecided:
    for h in spec.get("kani_fallback", []):
      if h not in want:
        want.append(h)
  # paired harnesses for unexplained Verus failures
  new_fail = []
  known_lines = []
  for f in failures:
    k = known_match(known, pid, f["name"], f.get("clause"))
    if k:
      known_lines.append((k, f))
    else:
      new_fail.append(f)
  for f in new_fail:
    for h, hs in KANI.items():
      if hs["kind"] != "witness" and f.get("fn") in hs.get("pairs_fn", []) and h not in want:
        want.append(h)
  kres, sc = kani_phase(want) if want else ({}, None)
  bounded = []
  kani_fail = []
  if "_error" in kres:
    undecided.append({"unit": "kani", "msg": kres["_error"]})
  else:
    for h in want:
      r = kres.get(h, {})
      hs = KANI[h]
      st = r.get("status")
      entry = {"name": "kani.%s" % h, "props": hs["props"], "fn": ",".join(hs.get("pairs_fn", [])), "kind": "kani-" + hs["kind"],
               "text": hs["what"], "backend": "kani/cbmc", "ms": (r.get("time_s") or 0) * 1000.0, "unit": "kani"}
      if st == "SUCCESSFUL":
        entry["verdict"] = "discharged"
      elif st == "FAILED":
        if r.get("unwinding_failure") and not [c for c in r["failed_checks"] if "unwinding" not in c]:
          entry["verdict"] = "undecided"
          undecided.append({"unit": "kani", "msg": "harness %s: unwinding assertion failed (bound too small)" % h})
        else:
          entry["verdict"] = "failed"
          entry["failed_checks"] = r.get("failed_checks")
          entry["values"] = r.get("values")
      else:
        entry["verdict"] = "undecided"
        undecided.append({"unit": "kani", "msg": "harness %s produced no verdict: %s" % (h, (kres.get("_meta", {}).get("tail") or "")[-800:])})
      if hs["kind"] == "bounded":
        entry["bound"] = hs.get("bound")
        bounded.append(entry)
        if entry["verdict"] == "failed" and pid in hs["props"]:
          kani_fail.append((h, entry))
      else:
        if pid in hs["props"]:
          obligations.append(entry)
          if entry["verdict"] == "failed":
            kani_fail.append((h, entry))
    if "_meta" in kres:
      cmds.append(kres["_meta"]["cmd"])
  if sc:
    sc.cleanup()

  # ---- violations
  violations = []
  witness_cache = {}
  # Verus failures not known
  seen_v = set()
  for f in new_fail:
    if f["name"] in seen_v:
      continue
    seen_v.add(f["name"])
    payload = {"property": pid, "obligation": f["name"], "function": f.get("fn"), "unit": f["unit"], "backend": "verus/z3",
               "verus_message": f["msg"], "clause": f.get("clause"), "verifier_output": f.get("rendered"), "harness": None, "values": None}
    tail = " no-failing-input-found"
    for h, entry in kani_fail:
      if f.get("fn") in KANI[h].get("pairs_fn", []) and entry.get("values"):
        rr = replay_values(h, entry["values"])
        payload.update({"harness": h, "values": entry["values"], "cbmc_failed_checks": entry.get("failed_checks"),
                        "replay_cmd": rr["cmd"], "replay_output": rr["output"][-3000:], "replay_failed_on_real_code": rr["failed"]})
        if rr["failed"]:
          tail = ""
        break
    if tail:
      for w, ws in WITNESS_TESTS.items():
        if f.get("fn") in ws.get("pairs_fn", []) and pid in ws["props"]:
          if w not in witness_cache:
            witness_cache[w] = run_witness(w)
          rr = witness_cache[w]
          payload.update({"witness_test": w, "witness_scenario": ws["what"], "replay_cmd": rr["cmd"], "replay_output": rr["output"][-3000:],
                          "replay_failed_on_real_code": rr["failed"],
                          "note": "Verus gives no counterexample; this is the fixed witness scenario registered for the obligation, run against the current tree"})
          if rr["failed"]:
            tail = ""
          break
    payload["rerun"] = "./check %s --replay <this file>" % pid
    path = write_replay(pid, f["name"], payload)
    violations.append((f["name"], path, tail))
  # Kani failures (deciders) not already attached to a Verus failure
  attached = set()
  for name, path, tail in violations:
    d = json.load(open(path))
    if d.get("harness"):
      attached.add(d["harness"])
  for h, entry in kani_fail:
    if h in attached:
      continue
    k = known_match(known, pid, entry["name"], " ".join(entry.get("failed_checks") or []))
    if k:
      known_lines.append((k, {"name": entry["name"], "clause": " ".join(entry.get("failed_checks") or [])}))
      continue
    payload = {"property": pid, "obligation": entry["name"], "function": entry["fn"], "backend": "kani/cbmc", "harness": h,
               "values": entry.get("values"), "cbmc_failed_checks": entry.get("failed_checks"), "verifier_output": "\n".join(entry.get("failed_checks") or [])}
    tail = " no-failing-input-found"
    if entry.get("values"):
      rr = replay_values(h, entry["values"])
      payload.update({"replay_cmd": rr["cmd"], "replay_output": rr["output"][-3000:], "replay_failed_on_real_code": rr["failed"]})
      if rr["failed"]:
        tail = ""
    path = write_replay(pid, entry["name"], payload)
    violations.append((entry["name"], path, tail))

  # ---- bounded exhaustive stand-ins: only when a unit they stand in for is undecided
  # (enum_thorough: complete enumerations of a finite decision table, run in the thorough tier whatever the units say)
  # (enum_quick: complete enumerations of a small finite decision table that no Verus unit can read -- string-keyed tables --, run in every tier)
  always = list(spec.get("enum_quick", [])) + (list(spec.get("enum_thorough", [])) if tier == "thorough" else [])
  for en in list(spec.get("enum_fallback", [])) + always:
    es = ENUM_TESTS[en]
    if en not in always and not any(u.get("unit") == es["unit"] for u in undecided):
      continue
    rr = run_enum(en)
    entry = {"name": "enum.%s" % en, "bound": es["bound"], "text": es["what"], "ms": None,
             "verdict": "failed" if rr["failed"] else ("void" if rr["void"] else "passed")}
    bounded.append(entry)
    cmds.append(rr["cmd"])
    if rr["failed"]:
      payload = {"property": pid, "obligation": entry["name"], "function": ",".join(es["pairs_fn"]), "backend": "cargo test (bounded exhaustive stand-in for unit %s)" % es["unit"],
                 "bound": es["bound"], "replay_cmd": rr["cmd"], "replay_output": rr["output"][-3500:], "replay_failed_on_real_code": True,
                 "verifier_output": "unit %s could not decide: %s" % (es["unit"], "; ".join((u.get("msg") or "")[:300] for u in undecided if u.get("unit") == es["unit"])),
                 "note": "the failing input is named in the assertion message of the test (replay_output)"}
      path = write_replay(pid, entry["name"], payload)
      violations.append((entry["name"], path, ""))

  # ---- known findings still failing: exclude from obligation counts
  known_names = set()
  for k, f in known_lines:
    print("KNOWN-FINDING: property=%s %s -- %s" % (pid, f["name"], k.get("what", "")))
    known_names.add(f["name"])

  n_obl = len([o for o in obligations if o["name"] not in known_names])
  n_dis = len([o for o in obligations if o["verdict"] == "discharged" and o["name"] not in known_names])

  status = 0
  if violations:
    status = 1
  elif undecided:
    status = 2

  # ---- evidence
  samples = []
  for o in obligations[:6]:
    samples.append({"obligation": o["name"], "fn": o["fn"], "clause": o["text"], "backend": o["backend"], "verdict": o["verdict"]})
  ev = {
    "property_id": pid,
    "tier": tier,
    "seed": seed,
    "level": "proof",
    "coverage": {
      "obligations": n_obl,
      "discharged": n_dis,
      "checker_cmd": " ; ".join(c for c in cmds if c) or "verus",
      "trusted_base": sorted(set(spec.get("trusted_base", []))) + ["scan:%s=%d" % (k, v) for k, v in sorted(trusted.items())],
      "samples": samples,
      "per_obligation": [{k: o.get(k) for k in ("name", "fn", "unit", "kind", "backend", "verdict", "ms", "text")} for o in obligations],
      "functions_under_contract": functions,
      "extraction_drops": drops,
      "bounded_standins_not_counted": [{k: b.get(k) for k in ("name", "bound", "verdict", "text", "ms")} for b in bounded],
      "vacuity_probes": probes,
      "solver_s": round(solver_ms / 1000.0, 3),
      "known_findings_reported": sorted(known_names),
      "undecided": undecided[:20],
      "explanation": spec.get("claim", ""),
    },
    "assumptions": spec.get("assumptions", []),
    "wall_s": round(time.time() - t0, 2),
    "violations": len(violations),
  }
  os.makedirs(os.path.join(VERIF, "evidence"), exist_ok=True)
  json.dump(ev, open(os.path.join(VERIF, "evidence", "%s.json" % pid), "w"), indent=1)
  shutil.rmtree(base, ignore_errors=True)

  print("%s tier=%s obligations=%d discharged=%d violations=%d undecided=%d wall=%.1fs" % (pid, tier, n_obl, n_dis, len(violations), len(undecided), time.time() - t0))
  for u in undecided[:10]:
    print("UNDECIDED %s: %s" % (u.get("unit"), (u.get("msg") or "")[:600]))
  for name, path, tail in violations:
    print("  failed obligation: %s" % name)
    print("VIOLATION property=%s replay=%s%s" % (pid, path, tail))
  return status


if __name__ == "__main__":
  sys.exit(main(sys.argv[1:]))
