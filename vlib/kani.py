"""Kani path: the real crate, unmodified source, in a scratch copy outside /repo and /verif.

Only additions are made to the copy: `#[cfg(kani)] mod verif_kani { use super::*; include!(..) }`
appended to the module whose private items a harness needs, and a [patch] of `tracing` to a
no-op stub (real tracing macros crash kani-compiler 0.68).
"""
import fcntl
import os
import re
import shutil
import subprocess
import tempfile
import time

VERIF = os.path.dirname(os.path.dirname(os.path.abspath(__file__)))
REPO = os.environ.get("VERIF_REPO", "/repo")
CACHE = os.environ.get("VERIF_KANI_CACHE", os.path.join(VERIF, ".cache"))
SCRATCH_BASE = os.environ.get("VERIF_SCRATCH", "/var/tmp")


class Scratch:
  def __init__(self, tag="k"):
    self.dir = tempfile.mkdtemp(prefix="rzmq-verif-%s-" % tag, dir=SCRATCH_BASE)
    self.lock = None

  def populate(self, patch_tracing=True):
    subprocess.run(["rsync", "-a", "--exclude", "/target", "--exclude", ".git", "--exclude", "/bench", "--exclude", "/cli", "--exclude", "/interop",
                    REPO + "/", self.dir + "/"], check=True)
    # workspace manifest: core only + tracing patch
    man = open(os.path.join(self.dir, "Cargo.toml")).read()
    man = re.sub(r'members\s*=\s*\[[^\]]*\]', 'members = ["core"]', man)
    if patch_tracing:
      man += '\n[patch.crates-io]\ntracing = { path = "%s/kani/stubs/tracing" }\n' % VERIF
    open(os.path.join(self.dir, "Cargo.toml"), "w").write(man)
    # dev-deps/benches are irrelevant for `cargo kani` lib builds; keep manifest otherwise untouched
    os.makedirs(os.path.join(self.dir, ".cargo"), exist_ok=True)
    open(os.path.join(self.dir, ".cargo", "config.toml"), "w").write("[net]\noffline = true\n")

  def append_module(self, rel, harness_path, modname="verif_kani"):
    p = os.path.join(self.dir, rel)
    if not os.path.exists(p):
      raise FileNotFoundError(rel)
    with open(p, "a") as f:
      f.write('\n#[cfg(any(kani, test))]\nmod %s {\n  #![allow(unused_imports, dead_code)]\n  use super::*;\n  include!("%s/kani/vk_common.rs");\n  include!("%s");\n}\n' % (modname, VERIF, harness_path))

  def cleanup(self):
    shutil.rmtree(self.dir, ignore_errors=True)


def _lock():
  os.makedirs(CACHE, exist_ok=True)
  f = open(os.path.join(CACHE, "kani.lock"), "w")
  fcntl.flock(f, fcntl.LOCK_EX)
  return f


RES_RE = re.compile(r"Checking harness ([^\s.]+(?:::[^\s.]+)*)\.\.\.")


def run_kani(scratch, harnesses, features=None, extra=(), timeout=1800, jobs=8, playback=False):
  """Run the given harnesses in ONE cargo-kani invocation. Returns dict harness -> result."""
  env = dict(os.environ)
  env["CARGO_NET_OFFLINE"] = "true"
  env["CARGO_TARGET_DIR"] = os.path.join(CACHE, "kani-target")
  cmd = ["cargo", "kani", "-Z", "function-contracts", "-Z", "stubbing", "--output-format", "terse"]
  if not playback:
    cmd += ["-j", str(jobs)]
  if features is not None:
    cmd += ["--no-default-features"] if features == [] else []
    if features:
      cmd += ["--features", ",".join(features)]
  if playback:
    cmd += ["-Z", "concrete-playback", "--concrete-playback=print"]
  for h in harnesses:
    cmd += ["--harness", h]
  cmd += list(extra)
  t0 = time.time()
  lk = _lock()
  try:
    try:
      p = subprocess.run(cmd, cwd=os.path.join(scratch.dir, "core"), env=env, capture_output=True, text=True, timeout=timeout)
      out = p.stdout + "\n" + p.stderr
      rc = p.returncode
    except subprocess.TimeoutExpired as e:
      out = (e.stdout or b"").decode("utf-8", "replace") if isinstance(e.stdout, bytes) else (e.stdout or "")
      out += "\nTIMEOUT"
      rc = -9
      subprocess.run(["pkill", "-x", "cbmc"])
  finally:
    lk.close()
  return parse_kani(out, harnesses, rc, time.time() - t0, " ".join(cmd))


def parse_kani(out, harnesses, rc, wall, cmd):
  res = {"_rc": rc, "_wall": wall, "_cmd": cmd, "_raw_tail": out[-6000:], "harness": {}}
  # with -j N every print call is prefixed "Thread N: "; regroup per thread first
  if re.search(r"(?m)^Thread \d+: ", out):
    bufs, order, cur = {}, [], None
    for ln in out.split("\n"):
      m = re.match(r"Thread (\d+): ?(.*)$", ln)
      if m:
        cur = m.group(1)
        if cur not in bufs:
          bufs[cur] = []
          order.append(cur)
        bufs[cur].append(m.group(2))
      elif cur is not None:
        bufs[cur].append(ln)
    out = "\n".join("\n".join(bufs[k]) for k in order)
  # split per harness
  chunks = re.split(r"(?m)^Checking harness ", out)
  for ch in chunks[1:]:
    name = ch.split("...", 1)[0].strip()
    short = name.split("::")[-1]
    status = None
    m = re.search(r"VERIFICATION:-\s*(SUCCESSFUL|FAILED)", ch)
    if m:
      status = m.group(1)
    failed = re.findall(r"(?m)^Failed Checks: (.*)$", ch)
    # "CBMC failed" / out of memory / timed out: the back end gave up -- no verdict, never a violation
    if status == "FAILED" and (not failed or "out of memory" in ch or "CBMC timed out" in ch):
      status = None
    tm = re.search(r"Verification Time: ([0-9.]+)s", ch)
    stubs = re.findall(r"(?m)^\s*- Stub: .*$", ch)
    pb = None
    k = ch.find("Concrete playback unit test")
    if k >= 0:
      pb = ch[k:k + 6000]
    unwind_fail = any("unwinding assertion" in f for f in failed)
    res["harness"][short] = {"full": name, "status": status, "failed_checks": failed, "time_s": float(tm.group(1)) if tm else None,
                             "playback": pb, "unwinding_failure": unwind_fail}
  for h in harnesses:
    if h.split("::")[-1] not in res["harness"]:
      res["harness"][h.split("::")[-1]] = {"full": h, "status": None, "failed_checks": [], "time_s": None, "playback": None, "unwinding_failure": False}
  return res


def playback_values(pb_text):
  """extract the concrete byte vectors from a Kani 'concrete playback' unit test text"""
  if not pb_text:
    return None
  vals = []
  for m in re.finditer(r"//\s*([^\n]*?)\s*\n\s*vec!\[([0-9,\s]*)\]", pb_text):
    bs = [int(x) for x in m.group(2).replace(" ", "").split(",") if x != ""]
    vals.append({"comment": m.group(1), "bytes": bs})
  if not vals:
    for m in re.finditer(r"vec!\[([0-9,\s]*)\]", pb_text):
      bs = [int(x) for x in m.group(1).replace(" ", "").split(",") if x != ""]
      vals.append({"comment": None, "bytes": bs})
  return vals


def run_replay(scratch, test_filter, values, timeout=1800):
  """plain `cargo test` (repo toolchain, real tracing) of one harness body with concrete values.
  Returns dict(failed=bool, void=bool, output=str, cmd=str)."""
  import json as _json
  env = dict(os.environ)
  env["CARGO_NET_OFFLINE"] = "true"
  env["CARGO_TARGET_DIR"] = os.path.join(CACHE, "replay-target")
  env["VK_REPLAY"] = _json.dumps(values)
  env["RUST_BACKTRACE"] = "0"
  cmd = ["cargo", "test", "--offline", "--lib", "-p", "rzmq", test_filter, "--", "--test-threads", "1", "--nocapture"]
  lk = _lock()
  try:
    try:
      p = subprocess.run(cmd, cwd=os.path.join(scratch.dir, "core"), env=env, capture_output=True, text=True, timeout=timeout)
      out, rc = p.stdout + "\n" + p.stderr, p.returncode
    except subprocess.TimeoutExpired:
      out, rc = "TIMEOUT", -9
  finally:
    lk.close()
  ran = re.search(r"running (\d+) test", out)
  nran = int(ran.group(1)) if ran else 0
  void = "replay is void" in out or nran == 0
  failed = (rc != 0) and not void and ("test result: FAILED" in out or "panicked at" in out)
  return {"failed": failed, "void": void, "rc": rc, "output": out[-5000:], "cmd": "VK_REPLAY='%s' %s" % (env["VK_REPLAY"], " ".join(cmd))}


def run_witness_test(scratch, test_file, timeout=1800, append_to=None, test_filter=None):
  """an integration test (public API only) kept under /verif/witness: copied into core/tests of the scratch copy and run with the
  repo toolchain.  A witness that needs crate-private items (append_to=<source file>) is a `#[cfg(test)] mod` appended to that file
  of the scratch copy (add-only) and run with `cargo test --lib <filter>`.  Returns dict(failed, void, output, cmd)."""
  name = os.path.splitext(os.path.basename(test_file))[0]
  if append_to:
    with open(os.path.join(scratch.dir, append_to), "a") as fh:
      fh.write("\n" + open(test_file).read())
  else:
    shutil.copy(test_file, os.path.join(scratch.dir, "core", "tests", name + ".rs"))
  env = dict(os.environ)
  env["CARGO_NET_OFFLINE"] = "true"
  env["CARGO_TARGET_DIR"] = os.path.join(CACHE, "replay-target")
  env["RUST_BACKTRACE"] = "0"
  cmd = ["cargo", "test", "--offline", "-p", "rzmq", "--test", name, "--", "--test-threads", "1"]
  if append_to:
    cmd = ["cargo", "test", "--offline", "-p", "rzmq", "--lib", test_filter or name, "--", "--test-threads", "1"]
  lk = _lock()
  try:
    try:
      p = subprocess.run(cmd, cwd=os.path.join(scratch.dir, "core"), env=env, capture_output=True, text=True, timeout=timeout)
      out, rc = p.stdout + "\n" + p.stderr, p.returncode
    except subprocess.TimeoutExpired:
      out, rc = "TIMEOUT", -9
  finally:
    lk.close()
  ran = re.search(r"running (\d+) test", out)
  nran = int(ran.group(1)) if ran else 0
  void = nran == 0
  failed = (rc != 0) and not void and ("test result: FAILED" in out or "panicked at" in out)
  keep = [ln for ln in out.split("\n") if not re.match(r"\s*(warning|-->|\||=|\d+ \|)", ln) and ln.strip()]
  return {"failed": failed, "void": void, "rc": rc, "output": "\n".join(keep)[-4000:], "cmd": ("cat %s >> %s && %s" % (test_file, append_to, " ".join(cmd))) if append_to else ("cp %s core/tests/ && %s" % (test_file, " ".join(cmd)))}
