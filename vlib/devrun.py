"""developer helper: python3 -m vlib.devrun <unit> [--no-probe] [--keep]"""
import importlib
import json
import sys
import tempfile
import shutil

from . import runner


def main():
  name = sys.argv[1]
  probes = "--no-probe" not in sys.argv
  mod = importlib.import_module("units." + name)
  wd = tempfile.mkdtemp(prefix="vx-%s-" % name)
  res = runner.run_unit(mod.unit, wd, probes=probes)
  print("status:", res["status"], "verified:", res.get("verus_verified"), "errors:", res.get("verus_errors"), "wall %.1fs solver %.0fms" % (res["wall_s"], res["solver_ms"]))
  for f in res["failures"]:
    print("FAIL", f["name"], f["props"], "|", f["msg"], "|", f.get("clause"))
    if "-v" in sys.argv:
      print(f["rendered"])
  for u in res["undecided"]:
    print("UNDECIDED", u.get("msg"), u.get("at"))
    if u.get("rendered"):
      print(u["rendered"])
  print("probe:", res["probe"])
  print("obligations:", len(res["obligations"]), "discharged:", sum(1 for o in res["obligations"] if o["verdict"] == "discharged"))
  print("drops:", len(res["drops"]), "trusted:", res["trusted_scan"])
  print("file:", res.get("generated_file"))
  if "--keep" not in sys.argv and res["status"] == "ok":
    shutil.rmtree(wd, ignore_errors=True)


if __name__ == "__main__":
  main()
