"""Build the Kani dependency cache once (about a minute) so quick checks only rebuild the rzmq crate."""
import sys
from . import kani
from .props import KANI


def main():
  h = "vk_peek_frame_len"
  sc = kani.Scratch("warm")
  try:
    sc.populate()
    sc.append_module(KANI[h]["module"], kani.VERIF + "/" + KANI[h]["file"])
    r = kani.run_kani(sc, [h], timeout=900)
    print("kani warm-up:", r["harness"].get(h, {}).get("status"), "%.0fs" % r["_wall"])
  finally:
    sc.cleanup()
  return 0


if __name__ == "__main__":
  sys.exit(main())
