"""vx -- mechanical extraction of real rzmq functions into a single Verus file.

No Rust parser: brace/paren matching on comment- and string-masked text.  Every
function body is copied verbatim from /repo's *current working tree*; the only
edits are the rewrite rules R1..R8 of DESIGN.md (each application is logged) and
the spliced-in contract clauses.  Every output line carries an origin
(repo file:line or a named clause) so verifier diagnostics map back.
"""
import os
import re

REPO = os.environ.get("VERIF_REPO", "/repo")


class VxError(Exception):
  """lost anchor / unexpected shape: the check becomes UNDECIDED (exit 2), never a violation"""


# ------------------------------------------------------------------ masking
def code_mask(s):
  """Return a string of the same length where comment text and the *contents* of
  string/char literals are replaced by spaces (newlines kept)."""
  out = list(s)
  i, n = 0, len(s)

  def blank(a, b):
    for k in range(a, b):
      if out[k] != "\n":
        out[k] = " "

  while i < n:
    c = s[i]
    if c == "/" and i + 1 < n and s[i + 1] == "/":
      j = s.find("\n", i)
      j = n if j < 0 else j
      blank(i, j)
      i = j
    elif c == "/" and i + 1 < n and s[i + 1] == "*":
      depth, j = 1, i + 2
      while j < n and depth > 0:
        if s.startswith("/*", j):
          depth += 1
          j += 2
        elif s.startswith("*/", j):
          depth -= 1
          j += 2
        else:
          j += 1
      blank(i, j)
      i = j
    elif c == '"' or (c in "rb" and re.match(r'(?:br|rb|r|b)#*"', s[i:i + 8]) and (i == 0 or not (s[i - 1].isalnum() or s[i - 1] == "_"))):
      m = re.match(r'(br|rb|r|b)?(#*)"', s[i:i + 12])
      prefix = m.group(1) or ""
      hashes = m.group(2)
      start = i + m.end()
      if "r" in prefix:
        close = '"' + hashes
        j = s.find(close, start)
        j = n if j < 0 else j
        blank(start, j)
        i = j + len(close)
      else:
        j = start
        while j < n and s[j] != '"':
          j += 2 if s[j] == "\\" else 1
        blank(start, min(j, n))
        i = j + 1
    elif c == "'":
      # char literal vs lifetime
      m = re.match(r"'(\\x[0-9a-fA-F]{2}|\\u\{[0-9a-fA-F]+\}|\\.|[^\\'])'", s[i:i + 12])
      if m:
        blank(i + 1, i + m.end() - 1)
        i += m.end()
      else:
        i += 1
    else:
      i += 1
  return "".join(out)


OPEN = {"(": ")", "[": "]", "{": "}"}


def match_close(mask, i):
  """mask[i] is an opening bracket; return index of its closing partner."""
  stack = []
  n = len(mask)
  k = i
  while k < n:
    c = mask[k]
    if c in OPEN:
      stack.append(OPEN[c])
    elif c in ")]}":
      if not stack or stack[-1] != c:
        raise VxError("unbalanced bracket at offset %d" % k)
      stack.pop()
      if not stack:
        return k
    k += 1
  raise VxError("no closing bracket for offset %d" % i)


def depth_at(mask, a, b):
  """brace depth change between a and b (curly only)"""
  d = 0
  for ch in mask[a:b]:
    if ch == "{":
      d += 1
    elif ch == "}":
      d -= 1
  return d


# ------------------------------------------------------------------ text with origins
class OText:
  """text + per-character origin (>=0: 1-based source line; <0: -(tag index+1))"""

  def __init__(self, s="", o=None):
    self.s = s
    self.o = o if o is not None else [0] * len(s)

  @staticmethod
  def from_source(text, start, end):
    line = text.count("\n", 0, start) + 1
    o = []
    for ch in text[start:end]:
      o.append(line)
      if ch == "\n":
        line += 1
    return OText(text[start:end], o)

  def replace(self, a, b, new, origin=None):
    if origin is None:
      origin = self.o[a] if a < len(self.o) else (self.o[-1] if self.o else 0)
    self.s = self.s[:a] + new + self.s[b:]
    self.o[a:b] = [origin] * len(new)

  def insert(self, a, new, origin):
    self.replace(a, a, new, origin)

  def mask(self):
    return code_mask(self.s)


# ------------------------------------------------------------------ source files
class Src:
  cache = {}

  def __init__(self, rel):
    self.rel = rel
    self.path = os.path.join(REPO, rel)
    if not os.path.exists(self.path):
      raise VxError("anchor lost: file %s missing" % rel)
    self.text = open(self.path, encoding="utf-8").read()
    self.mask = code_mask(self.text)

  @staticmethod
  def get(rel):
    key = (REPO, rel)
    if key not in Src.cache:
      Src.cache[key] = Src(rel)
    return Src.cache[key]

  def line_of(self, off):
    return self.text.count("\n", 0, off) + 1

  def find_block(self, header_re, containing_fn=None):
    """Find `impl ... {` / `mod ... {` whose header matches header_re; return (open, close)."""
    pat = re.compile(r"(?m)^[ \t]*(?:pub(?:\([a-z]+\))?\s+)?(?:unsafe\s+)?" + header_re + r"[^;{]*\{")
    hits = list(pat.finditer(self.mask))
    if not hits:
      raise VxError("anchor lost: block /%s/ not found in %s" % (header_re, self.rel))
    if len(hits) > 1:
      # prefer those at top level or in non-test code: pick the first one
      pass
    m = hits[0]
    if containing_fn:
      # several blocks with the same header (two inherent `impl X {}` blocks): the one that directly contains `fn NAME`
      for h in hits:
        op = h.end() - 1
        cl = match_close(self.mask, op)
        for fm in re.finditer(r"\bfn\s+" + re.escape(containing_fn) + r"\b", self.mask[op:cl]):
          if depth_at(self.mask, op, op + fm.start()) == 1:
            return op, cl
    op = m.end() - 1
    return op, match_close(self.mask, op)

  def find_fn(self, name, within=None, nth=0):
    lo, hi = within if within else (0, len(self.mask))
    pat = re.compile(r"\bfn\s+" + re.escape(name) + r"\b")
    cands = []
    for m in pat.finditer(self.mask, lo, hi):
      # must be at depth 1 relative to the block (directly inside) or depth 0 for file level
      d = depth_at(self.mask, lo, m.start())
      want = 1 if within else 0
      if d == want:
        cands.append(m)
    if len(cands) <= nth:
      raise VxError("anchor lost: fn %s not found in %s" % (name, self.rel))
    m = cands[nth]
    # start of item = start of the line holding `fn` (qualifiers pub/async/const live there)
    ls = self.mask.rfind("\n", 0, m.start()) + 1
    # body opening brace: first '{' at paren depth 0 after the name
    k = m.end()
    pd = 0
    while k < hi:
      ch = self.mask[k]
      if ch in "([":
        pd += 1
      elif ch in ")]":
        pd -= 1
      elif ch == "{" and pd == 0:
        break
      elif ch == ";" and pd == 0:
        raise VxError("fn %s in %s has no body" % (name, self.rel))
      k += 1
    close = match_close(self.mask, k)
    return ls, k, close

  def find_item(self, kind, name, within=None):
    lo, hi = within if within else (0, len(self.mask))
    pat = re.compile(r"\b" + kind + r"\s+" + re.escape(name) + r"\b")
    m = pat.search(self.mask, lo, hi)
    if not m:
      raise VxError("anchor lost: %s %s not found in %s" % (kind, name, self.rel))
    ls = self.mask.rfind("\n", 0, m.start()) + 1
    k = m.end()
    pd = 0
    while k < hi:
      ch = self.mask[k]
      if ch in "([":
        pd += 1
      elif ch in ")]":
        pd -= 1
      elif ch == "{" and pd == 0:
        return ls, match_close(self.mask, k) + 1
      elif ch == ";" and pd == 0:
        return ls, k + 1
      k += 1
    raise VxError("item %s %s in %s not terminated" % (kind, name, self.rel))


# ------------------------------------------------------------------ rewrites
LOG_MACROS = [
  r"tracing::trace", r"tracing::debug", r"tracing::info", r"tracing::warn", r"tracing::error",
  r"trace", r"debug", r"info", r"warn", r"error",
  r"counter", r"log_latency", r"log_[a-z_]+_diagnostics", r"cancel_guard", r"cancel_guard_disarm", r"histogram", r"gauge",
]


def _macro_sites(mask, names):
  pat = re.compile(r"(?<![A-Za-z0-9_:!])(" + "|".join(names) + r")!\s*[\(\[\{]")
  for m in pat.finditer(mask):
    yield m


def rewrite(ot, drops, where, extra=None):
  """Apply R1, R2, R3 and declared extras to an OText in place; log to drops."""

  def loc(pos):
    o = ot.o[pos] if pos < len(ot.o) else 0
    return "%s:%s" % (where, o if o > 0 else "?")

  # declared substitutions marked "pre" run before the general rules (e.g. `"lit".into()` that must stay a &'static str)
  _apply_extras(ot, drops, where, [e for e in (extra or []) if len(e) > 4 and e[4] == "pre"], loc)
  extra = [e for e in (extra or []) if not (len(e) > 4 and e[4] == "pre")]
  # R1: logging macros as statements
  while True:
    mask = ot.mask()
    hit = None
    for m in _macro_sites(mask, LOG_MACROS):
      hit = m
      break
    if not hit:
      break
    op = hit.end() - 1
    cl = match_close(mask, op)
    end = cl + 1
    k = end
    while k < len(mask) and mask[k] in " \t":
      k += 1
    if k < len(mask) and mask[k] == ";":
      end = k + 1
    nl = ot.s.count("\n", hit.start(), end)
    drops.append({"rule": "R1", "at": loc(hit.start()), "what": hit.group(1) + "!(..) removed"})
    ot.replace(hit.start(), end, "\n" * nl)
  # R2: format!(..) and "lit".into()/.to_string() in error construction
  while True:
    mask = ot.mask()
    hit = None
    for m in _macro_sites(mask, ["format"]):
      hit = m
      break
    if not hit:
      break
    op = hit.end() - 1
    cl = match_close(mask, op)
    nl = ot.s.count("\n", hit.start(), cl + 1)
    drops.append({"rule": "R2", "at": loc(hit.start()), "what": "format!(..) -> verif_fmt()"})
    ot.replace(hit.start(), cl + 1, "verif_fmt()" + "\n" * nl)
  while True:
    mask = ot.mask()
    m = re.search(r'"[ ]*"\s*\.\s*(into|to_string|to_owned)\s*\(\s*\)', mask)
    if not m:
      break
    # find the start of the literal: mask has quotes kept, contents blanked
    drops.append({"rule": "R2", "at": loc(m.start()), "what": "string literal .%s() -> verif_fmt()" % m.group(1)})
    nl = ot.s.count("\n", m.start(), m.end())
    ot.replace(m.start(), m.end(), "verif_fmt()" + "\n" * nl)
  # R3b: byte-string literals b"..." -> array literals (Verus has no byte-string literals); same bytes, same type &[u8; N]
  while True:
    mask = ot.mask()
    m = re.search(r'(?<![A-Za-z0-9_])b"', mask)
    if not m:
      break
    st = m.start()
    k = m.end()
    raw = ot.s
    vals = []
    while k < len(raw) and raw[k] != '"':
      c = raw[k]
      if c == "\\":
        n = raw[k + 1]
        if n == "x":
          vals.append(int(raw[k + 2:k + 4], 16)); k += 4
        elif n == "0":
          vals.append(0); k += 2
        elif n == "n":
          vals.append(10); k += 2
        elif n == "r":
          vals.append(13); k += 2
        elif n == "t":
          vals.append(9); k += 2
        elif n in "\\\"'":
          vals.append(ord(n)); k += 2
        elif n == "\n":
          k += 2
          while k < len(raw) and raw[k] in " \t\n":
            k += 1
        else:
          raise VxError("byte-string escape \\%s not understood in %s" % (n, where))
      else:
        vals.extend(c.encode("utf-8")); k += 1
    end = k + 1
    lit = ("&[" + ", ".join(("0x%02xu8" % v) if i == 0 else ("0x%02x" % v) for i, v in enumerate(vals)) + "]") if vals else "&[0u8; 0]"
    drops.append({"rule": "R3", "at": loc(st), "what": "byte-string literal %s -> array literal (same bytes)" % raw[st:end]})
    ot.replace(st, end, lit)
  # R3: from_be_bytes / to_be_bytes
  for pat, new, what in [
    (r"\bu64::from_be_bytes\s*\(", "verif_u64_from_be(", "u64::from_be_bytes -> verif_u64_from_be"),
    (r"\bu32::from_be_bytes\s*\(", "verif_u32_from_be(", "u32::from_be_bytes -> verif_u32_from_be"),
    (r"\bu16::from_be_bytes\s*\(", "verif_u16_from_be(", "u16::from_be_bytes -> verif_u16_from_be"),
  ]:
    while True:
      mask = ot.mask()
      m = re.search(pat, mask)
      if not m:
        break
      drops.append({"rule": "R3", "at": loc(m.start()), "what": what})
      ot.replace(m.start(), m.end(), new)
  # R12: tokio::select! -> nondeterministic choice between its arms (see _desugar_select)
  while True:
    mask = ot.mask()
    hit = None
    for m in re.finditer(r"(?<![A-Za-z0-9_:!])(?:tokio::)?select!\s*\{", mask):
      hit = m
    if not hit:
      break
    _desugar_select(ot, mask, hit, drops, loc)   # innermost-last first: nested select! in an arm body is rewritten before its parent
  # declared per-unit literal substitutions (R6/R8): (rule, old, new[, count])
  _apply_extras(ot, drops, where, extra, loc)


def _scan0(mask, p, end, pred):
  """first position q in [p, end) at bracket depth 0 with pred(q) true; -1 if none"""
  d = 0
  q = p
  while q < end:
    c = mask[q]
    if c in "([{":
      d += 1
    elif c in ")]}":
      d -= 1
    elif d == 0 and pred(q):
      return q
    q += 1
  return -1


def _desugar_select(ot, mask, hit, drops, loc):
  """R12.  `tokio::select! { [biased;] PAT = FUT [, if COND] => BODY ... [else => BODY] }` becomes

       match verif_select() { 0 [if COND] => { let PAT = FUT.await; BODY } 1 => ... _ => { verif_pending().await; verif_never() } }

  i.e. ANY enabled arm may be the one that completes (sound over-approximation of select!: `biased` only restricts which
  one wins); an arm written `async { X }` is inlined as `{ X }`; if the arbitrary choice hits a disabled arm the call blocks
  for ever (ensures false), which is what select! does when nothing can complete.  ASSUMED (listed in the evidence): the
  futures of the arms NOT taken were dropped without effect (cancel safety of every arm).  Arm bodies stay verbatim."""
  op = hit.end() - 1
  cl = match_close(mask, op)
  arms = []
  p = op + 1
  while True:
    while p < cl and mask[p] in " \t\n,":
      p += 1
    if p >= cl:
      break
    if mask.startswith("biased", p) and re.match(r"biased\s*;", mask[p:cl]):
      e = p + re.match(r"biased\s*;", mask[p:cl]).end()
      arms.append(("biased", p, e))
      p = e
      continue
    arrow = _scan0(mask, p, cl, lambda q: mask.startswith("=>", q))
    if arrow < 0:
      raise VxError("select!: arm without `=>` at %s" % loc(p))
    is_else = re.match(r"else\s*$", mask[p:arrow]) is not None
    eq = -1 if is_else else _scan0(mask, p, arrow, lambda q: mask[q] == "=" and mask[q + 1] not in "=>" and mask[q - 1] not in "=!<>+-*/|&^%")
    if not is_else and eq < 0:
      raise VxError("select!: arm without `PAT = FUT` at %s" % loc(p))
    guard = -1 if is_else else _scan0(mask, eq + 1, arrow, lambda q: mask[q] == "," and re.match(r",\s*if\b", mask[q:arrow]) is not None)
    b = arrow + 2
    while b < cl and mask[b] in " \t\n":
      b += 1
    if mask[b] == "{":
      bend = match_close(mask, b) + 1
      block = True
    else:
      c = _scan0(mask, b, cl, lambda q: mask[q] == ",")
      bend = c if c >= 0 else cl
      while bend > b and mask[bend - 1] in " \t\n":
        bend -= 1
      block = False
    arms.append(("else" if is_else else "arm", p, eq, guard, arrow, b, bend, block))
    p = bend
  real = [a for a in arms if a[0] != "biased"]
  n = len(real)
  drops.append({"rule": "R12", "at": loc(hit.start()), "what": "tokio::select! with %d arms -> nondeterministic choice (match verif_select()); `biased` dropped; unselected arms assumed cancel safe" % n})
  origin_end = ot.o[cl] if cl < len(ot.o) else None
  # edits right to left
  ot.replace(cl, cl + 1, "_ => { verif_pending().await; verif_never() } }", origin_end)
  k = n
  for a in reversed(arms):
    if a[0] == "biased":
      ot.replace(a[1], a[2], "")
      continue
    k -= 1
    kind, p0, eq, guard, arrow, b, bend, block = a
    ot.insert(bend, " }", ot.o[bend - 1])
    if kind == "else":
      ot.replace(p0, arrow + 2, "%d => {" % k)
      continue
    fut_end = guard if guard >= 0 else arrow
    cond = ot.s[guard:arrow] if guard >= 0 else ""
    cond = re.sub(r"^,\s*if\b", "", cond).strip()
    fs = eq + 1
    while fs < fut_end and mask[fs] in " \t\n":
      fs += 1
    fe = fut_end
    while fe > fs and mask[fe - 1] in " \t\n":
      fe -= 1
    am = re.match(r"async\s*(move\s*)?\{", mask[fs:fe])
    inline = am is not None and match_close(mask, fs + am.end() - 1) == fe - 1
    # [fut_end, arrow+2): guard text and `=>` go away; FUT gets `.await;` (or, for an inline async block, just `;`)
    ot.replace(fe, arrow + 2, ";" if inline else ").await;")
    if inline:
      ot.replace(fs, fs + am.end() - 1, "")
    else:
      ot.insert(fs, "(", ot.o[fs])
    ot.insert(p0, "%d%s => { let " % (k, (" if " + cond) if cond else ""), ot.o[p0])
  ot.replace(hit.start(), op + 1, "match verif_select() {")


class ScopeEnd:
  """R6s: a declared text inserted where a binding goes out of scope.  `decl` is a regex matching the `let` statement that binds a
  guard named `name`; the text is placed before the closing brace of the block the `let` sits in (the implicit drop of the guard),
  unless that block drops the binding explicitly (`drop(name)`) or returns/breaks are inside it (then the unit's contracts see no
  release on those paths, which can only make a proof fail, never pass)."""
  def __init__(self, decl, name):
    self.decl = re.compile(decl) if isinstance(decl, str) else decl
    self.name = name
    self.pattern = "scope-end of " + name


def _apply_extras(ot, drops, where, extra, loc):
  for ex in extra or []:
    rule, old, new = ex[0], ex[1], ex[2]
    want = ex[3] if len(ex) > 3 else None
    cnt = 0
    if isinstance(old, ScopeEnd):
      pos = 0
      while True:
        m = old.decl.search(ot.s, pos)
        if not m:
          break
        mask = code_mask(ot.s)
        d, k, end = 0, m.end(), None
        while k < len(mask):
          if mask[k] == "{":
            d += 1
          elif mask[k] == "}":
            if d == 0:
              end = k
              break
            d -= 1
          k += 1
        pos = m.end()
        if end is None:
          continue
        # explicit drop directly in this block: nothing to insert
        blk = mask[m.end():end]
        if re.search(r"\bdrop\(\s*%s\s*\)" % re.escape(old.name), blk):
          continue
        drops.append({"rule": rule, "at": loc(end), "what": "end of the scope of `%s` -> %s" % (old.name, new.strip())})
        ot.replace(end, end, new)
        cnt += 1
    elif isinstance(old, str):
      pos = 0
      while True:
        i = ot.s.find(old, pos)
        if i < 0:
          break
        drops.append({"rule": rule, "at": loc(i), "what": "%s -> %s" % (old.strip(), new.strip())})
        ot.replace(i, i + len(old), new)
        pos = i + len(new)
        cnt += 1
    else:
      pos = 0
      while True:
        m = old.search(ot.s, pos)
        if not m:
          break
        rep = m.expand(new)
        drops.append({"rule": rule, "at": loc(m.start()), "what": "%s -> %s" % (" ".join(m.group(0).split()), " ".join(rep.split()))})
        ot.replace(m.start(), m.end(), rep)
        pos = m.start() + max(len(rep), 1)
        cnt += 1
    if want is not None and cnt != want and not (want == "+" and cnt >= 1) and not (want == "*"):
      # the text this rewrite was declared for has been edited: go on without it (Verus then sees the edited text as it is;
      # if that is outside its subset the unit ends undecided, otherwise the contracts decide) -- never abort here
      drops.append({"rule": rule, "at": where, "what": "ANCHOR LOST: declared rewrite %r applied %d times (expected %s)" % (old if isinstance(old, str) else old.pattern, cnt, want)})


# ------------------------------------------------------------------ unit description
class Fn:
  def __init__(self, file, name, impl=None, emit_impl=None, ret="r", requires=(), ensures=(),
               loops=None, hints=(), extra=(), nth=0, sig_sub=(), contract_only=False, prefix="",
               decreases=None, attrs=(), probe=True, rename=None, recommends=(), safety_props=None, mut_params=(), await_inv=()):
    self.file, self.name, self.impl = file, name, impl
    self.emit_impl = emit_impl  # e.g. "impl ZmtpManualParser" ; None => free fn
    self.ret = ret
    self.requires = list(requires)  # [(label, text)] or text
    self.ensures = list(ensures)    # [(obligation name, text)]
    self.loops = loops or {}        # ordinal -> {"invariant": [(name, text)], "decreases": text, "ensures":[...]}
    self.hints = list(hints)        # [(name, anchor, occurrence, 'before'|'after', text)]
    self.extra = list(extra)
    self.nth = nth
    self.sig_sub = list(sig_sub)    # literal substitutions in the signature (R5)
    self.prefix = prefix
    self.decreases = decreases
    self.attrs = list(attrs)
    self.probe = probe
    self.rename = rename
    self.recommends = list(recommends)
    self.safety_props = list(safety_props) if safety_props else None
    self.await_inv = list(await_inv)    # R11: [(name, text)] asserted in a proof block right before every `.await` of the body
    self.mut_params = list(mut_params)  # R5: `mut x: T` by-value params -> `x: T` + `let mut x = x;` (so `x` in ensures is the argument)
    self.contract_only = contract_only  # callee proved in another unit: signature + contract only (external_body)
    if contract_only:
      self.probe = False


class Region(Fn):
  """R7: a statement sequence (or one expression) inside a large function, wrapped as a function of its declared free
  variables.  `start`/`end` are regexes searched in the body of `fn`; the region is [line of start match, line of end match)
  (for expr=True: [end of start match, start of end match)).  `sig` is the full signature of the wrapper; `head`/`tail` are
  declared texts placed before/after the verbatim region (typically the tuple of locals handed back)."""

  def __init__(self, file, name, fn, start, end, sig, head="", tail="", expr=False, start_occ=0, **kw):
    Fn.__init__(self, file, fn, **kw)
    self.region_name, self.start, self.end, self.sig, self.head, self.tail, self.expr, self.start_occ = name, start, end, sig, head, tail, expr, start_occ
    self.rename = kw.get("rename") or name


def as_contract(fn):
  """copy of a Fn spec that emits only signature + contract (callee proved in its own unit)"""
  import copy
  c = copy.copy(fn)
  c.contract_only = True
  c.probe = False
  c.loops = {}
  c.hints = []
  c.extra = []
  return c


class Item:
  def __init__(self, file, kind, name, within=None, extra=(), keep_derive=("Clone", "Copy")):
    self.file, self.kind, self.name, self.within = file, kind, name, within
    self.extra = list(extra)
    self.keep_derive = keep_derive


class Scan:
  """syntactic frame check: inside fn `name` the regex `pattern` occurs exactly `expect` times (all of them inside the regions /
  rewrites declared for that function).  A different count means the function touches the scanned state somewhere the unit
  does not cover: the unit is then undecided (anchor lost), never silently green."""

  def __init__(self, file, name, pattern, expect, impl=None, why=""):
    self.file, self.name, self.pattern, self.expect, self.impl, self.why = file, name, pattern, expect, impl, why


class Raw:
  """hand-written Verus text (prelude, spec functions, lemmas) -- not extracted code"""

  def __init__(self, path=None, text=None, label=None, lemmas=False, props=None):
    self.path, self.text, self.label = path, text, label or path
    self.lemmas = lemmas   # count every `proof fn` in this text as a named obligation of the unit
    self.props = props


class Gen:
  """Accumulates the generated file + line map + logs."""

  def __init__(self, unit_name):
    self.unit = unit_name
    self.lines = []      # text lines
    self.origin = []     # per line: dict
    self.tags = []       # tag table for OText negative origins
    self.drops = []
    self.functions = []  # [{"fn":..., "file":..., "line":..., "clauses":[names]}]
    self.obligations = []  # named clauses [{"name","fn","kind"}]
    self.assumed_callees = []
    self.lemmas = []
    self.skipped_hints = []

  def tag(self, d):
    self.tags.append(d)
    return -len(self.tags)

  def emit_raw(self, text, label):
    for i, ln in enumerate(text.split("\n")):
      self.lines.append(ln)
      self.origin.append({"kind": "raw", "src": label, "line": i + 1})

  def emit_otext(self, ot, rel):
    # split into lines; origin of a line = origin of its first non-blank char, else previous
    start = 0
    prev = {"kind": "code", "file": rel, "line": 0}
    for ln in ot.s.split("\n"):
      end = start + len(ln)
      org = None
      for k in range(start, end):
        if not ot.s[k].isspace():
          org = ot.o[k]
          break
      if org is None:
        d = prev
      elif org >= 0:
        d = {"kind": "code", "file": rel, "line": org}
      else:
        d = self.tags[-org - 1]
      self.lines.append(ln)
      self.origin.append(d)
      prev = d
      start = end + 1


LOOP_RE = re.compile(r"(?<![A-Za-z0-9_'])(loop|while|for)\b")


def _loop_sites(mask):
  """yield (keyword_start, keyword, body_open_brace) for each loop in order of appearance"""
  res = []
  for m in LOOP_RE.finditer(mask):
    kw = m.group(1)
    # `for` in `impl X for Y` / HRTB cannot occur inside a body except closures; accept
    k = m.end()
    pd = 0
    n = len(mask)
    ok = False
    while k < n:
      ch = mask[k]
      if ch in "([":
        pd += 1
      elif ch in ")]":
        pd -= 1
        if pd < 0:
          break
      elif ch == "{" and pd == 0:
        ok = True
        break
      elif ch == ";" and pd == 0:
        break
      k += 1
    if ok:
      if kw == "for" and not re.match(r"\s+[^;{]*?\bin\b", mask[m.end():k + 1]):
        continue
      res.append((m.start(), kw, k))
  return res


def _clause_lines(gen, clauses, fnname, kind, indent="    ", register=True):
  """turn [(name, text)] into text with tags; returns list of (text, origin-int)"""
  out = []
  for c in clauses:
    if isinstance(c, str):
      name, text = None, c
    else:
      name, text = c
    full = "%s.%s" % (fnname, name) if name else None
    t = gen.tag({"kind": kind, "fn": fnname, "name": full, "text": " ".join(text.split())})
    if register and name and kind in ("ensures", "invariant", "hint", "loop_ensures"):
      gen.obligations.append({"name": full, "fn": fnname, "kind": kind, "text": " ".join(text.split())})
    out.append((indent + text.strip().rstrip(",") + ",\n", t))
  return out


def extract_fn(gen, f, probe=False):
  src = Src.get(f.file)
  within = src.find_block(f.impl, containing_fn=f.name) if f.impl else None
  ls, bo, bc = src.find_fn(f.name, within, f.nth)
  sig = OText.from_source(src.text, ls, bo)
  body = OText.from_source(src.text, bo, bc + 1)
  where = f.file
  region = isinstance(f, Region)
  if region:
    # R7 region extraction
    hits = [m for m in re.compile(f.start).finditer(src.text, bo, bc) if src.mask[m.start()] == src.text[m.start()]]
    if len(hits) <= f.start_occ:
      raise VxError("anchor lost: region %s start /%s/ not found in %s::%s" % (f.region_name, f.start, f.file, f.name))
    ms = hits[f.start_occ]
    me = None
    if f.end == "@fn_end":
      # the region runs to the end of the function body: [line of start match, line of the body's closing brace)
      me = re.compile(r"\}").match(src.text, bc)
    else:
      for m in re.compile(f.end).finditer(src.text, ms.end(), bc):
        if src.mask[m.start()] == src.text[m.start()]:
          me = m
          break
    if not me:
      raise VxError("anchor lost: region %s end /%s/ not found in %s::%s" % (f.region_name, f.end, f.file, f.name))
    if f.expr:
      ra, rb = ms.end(), me.start()
    else:
      ra, rb = src.text.rfind("\n", 0, ms.start()) + 1, src.text.rfind("\n", 0, me.start()) + 1
    d = 0
    for ch in src.mask[ra:rb]:
      if ch in "{([":
        d += 1
      elif ch in "})]":
        d -= 1
        if d < 0:
          break
    if d != 0:
      raise VxError("anchor lost: region %s of %s::%s is not a balanced statement sequence (lines %d-%d)" % (f.region_name, f.file, f.name, src.line_of(ra), src.line_of(rb)))
    body = OText.from_source(src.text, ra, rb)
    l0 = src.line_of(ra)
    body.insert(0, "{\n" + (f.head + "\n" if f.head else ""), l0)
    body.insert(len(body.s), "\n" + (f.tail + "\n" if f.tail else "") + "}", src.line_of(rb))
    gen.drops.append({"rule": "R7", "at": "%s:%d-%d" % (where, l0, src.line_of(rb) - (0 if f.expr else 1)),
                      "what": "region `%s` of fn %s wrapped as `%s`; the region text is verbatim, free variables are the wrapper's parameters%s%s" % (
                        f.region_name, f.name, " ".join(f.sig.split()), ("; head: " + " ".join(f.head.split())) if f.head else "", ("; tail: " + " ".join(f.tail.split())) if f.tail else "")})
    ls = ra
  qual = ("%s::%s" % (re.sub(r"^impl(<[^>]*>)?\s+", "", f.emit_impl).split("<")[0].strip(), f.name)) if f.emit_impl else f.name
  if f.rename:
    qual = f.rename
  # ---- signature normalisation (R5)
  s = f.sig if region else sig.s
  s = re.sub(r"//[^\n]*", "", s)   # line comments inside a parameter list would swallow the rest of the (joined) signature
  s2 = re.sub(r"^\s*(pub(\([a-z]+\))?\s+)?", "", s)
  for old, new in f.sig_sub:
    if not isinstance(old, str):
      if not old.search(s2):
        raise VxError("signature anchor lost in %s::%s: %r" % (f.file, f.name, old.pattern))
      s2 = old.sub(new, s2)
      old = old.pattern
    else:
      if old not in s2:
        raise VxError("signature anchor lost in %s::%s: %r" % (f.file, f.name, old))
      s2 = s2.replace(old, new)
    gen.drops.append({"rule": "R5", "at": "%s:%d" % (where, src.line_of(ls)), "what": "signature: %s -> %s" % (old, new)})
  for mp in f.mut_params:
    if not re.search(r"\bmut\s+%s\s*:" % re.escape(mp), s2):
      raise VxError("signature anchor lost in %s::%s: `mut %s:`" % (f.file, f.name, mp))
    s2 = re.sub(r"\bmut\s+(%s\s*:)" % re.escape(mp), r"\1", s2, count=1)
    gen.drops.append({"rule": "R5", "at": "%s:%d" % (where, src.line_of(ls)), "what": "by-value parameter `mut %s` -> immutable `%s` plus local `let mut %s__m = %s;` (body occurrences alpha-renamed)" % (mp, mp, mp, mp)})
  if region:
    s2 = re.sub(r"\bfn\s+[A-Za-z0-9_]+", "fn " + f.rename.split("::")[-1], s2, count=1)
  if f.rename and not region:
    s2 = re.sub(r"\bfn\s+" + re.escape(f.name) + r"\b", "fn " + f.rename.split("::")[-1], s2, count=1)
  # return type
  m = re.search(r"\)\s*->\s*(.+?)\s*$", s2, re.S)
  if m and f.ret and not region:
    rt = m.group(1)
    s2 = s2[:m.start()] + ") -> (%s: %s)" % (f.ret, rt)
  sigline = src.line_of(ls)
  out = OText()
  attrs = "".join("  %s\n" % a for a in f.attrs)
  out.insert(0, attrs + "  " + f.prefix + " ".join(s2.split()) + "\n", sigline)
  pos = len(out.s)
  # ---- contract
  req = list(f.requires)
  ens = list(f.ensures)
  if probe:
    ens = ens + [("VACUITY_PROBE", "false")]
  if req:
    out.insert(len(out.s), "    requires\n", gen.tag({"kind": "kw", "fn": qual}))
    for text, t in _clause_lines(gen, req, qual, "requires", "      "):
      out.insert(len(out.s), text, t)
  if f.recommends:
    pass
  if ens:
    out.insert(len(out.s), "    ensures\n", gen.tag({"kind": "kw", "fn": qual}))
    for text, t in _clause_lines(gen, ens, qual, "ensures", "      ", register=not f.contract_only):
      out.insert(len(out.s), text, t)
  if f.decreases:
    out.insert(len(out.s), "    decreases %s\n" % f.decreases, gen.tag({"kind": "kw", "fn": qual}))
  if f.contract_only:
    out.s = "  #[verifier::external_body]\n" + out.s
    out.o = [sigline] * len("  #[verifier::external_body]\n") + out.o
    out.insert(len(out.s), "  { unimplemented!() }\n", sigline)
    gen.assumed_callees.append({"fn": qual, "file": f.file, "line": sigline, "note": "contract assumed here; proved on the real body in its own unit"})
    return out, qual
  # ---- body rewrites
  rewrite(body, gen.drops, where, f.extra)
  # R5: alpha-renaming of `mut` by-value parameters inside the body (the parameter itself stays immutable)
  for mp in f.mut_params:
    pos = 0
    while True:
      mk = body.mask()
      mm = re.compile(r"(?<![A-Za-z0-9_.])%s(?![A-Za-z0-9_])" % re.escape(mp)).search(mk, pos)
      if not mm:
        break
      body.replace(mm.start(), mm.end(), mp + "__m")
      pos = mm.start() + len(mp) + 3
  # ---- loops
  mask = body.mask()
  sites = _loop_sites(mask)
  for ordn in f.loops:
    if ordn >= len(sites):
      raise VxError("loop #%d of %s::%s not found (has %d loops): anchor lost" % (ordn, f.file, f.name, len(sites)))
  ops = []  # (pos, end, text, origin, seq) ; applied in descending pos order
  seqn = [0]

  def add_op(pos, end, text, origin):
    seqn[0] += 1
    ops.append((pos, end, text, origin, seqn[0]))

  for ordn in sorted(f.loops.keys()):
    spec = f.loops[ordn]
    st, kw, brace = sites[ordn]
    if kw == "for" and spec.get("desugar"):
      spec = dict(spec)
      spec["invariant"] = list(spec.get("invariant", [])) + ["vx_i%d <= vx_s%d.len()" % (ordn, ordn)]
      spec.setdefault("decreases", "vx_s%d.len() - vx_i%d" % (ordn, ordn))
    ins = []
    if spec.get("invariant_except_break"):
      ins.append(("\n      invariant_except_break\n", gen.tag({"kind": "kw", "fn": qual})))
      ins += _clause_lines(gen, spec["invariant_except_break"], qual, "invariant", "        ")
    if spec.get("invariant"):
      ins.append(("\n      invariant\n", gen.tag({"kind": "kw", "fn": qual})))
      ins += _clause_lines(gen, spec["invariant"], qual, "invariant", "        ")
    if spec.get("ensures"):
      ins.append(("\n      ensures\n", gen.tag({"kind": "kw", "fn": qual})))
      ins += _clause_lines(gen, spec["ensures"], qual, "loop_ensures", "        ")
    if spec.get("decreases"):
      ins.append(("\n      decreases %s\n" % spec["decreases"], gen.tag({"kind": "kw", "fn": qual})))
    if kw == "for" and spec.get("desugar_owned"):
      # R9o: `for X in VEC { B }` over an OWNED Vec (elements are moved out one by one)  ==>
      #      { let mut vx_vN = VEC; let ghost vx_oN = vx_vN@; let mut vx_iN: usize = 0;
      #        while vx_vN.len() > 0 { let X = vx_vN.remove(0); vx_iN += 1; B } }      with vx_vN@ == vx_oN.skip(vx_iN)
      hdr = body.s[st:brace]
      m = re.match(r"for\s+(\w+)\s+in\s+([\w\.]+)\s*$", hdr, re.S)
      if not m:
        raise VxError("for-loop #%d header of %s::%s is not `for x in vec`: %r (anchor lost)" % (ordn, f.file, f.name, hdr))
      xv, cont = m.group(1), m.group(2)
      gen.drops.append({"rule": "R9o", "at": "%s:%s" % (where, body.o[st]), "what": "for %s in %s (owned Vec) -> while loop taking the elements from the front in order (vx_v%d/vx_i%d)" % (xv, cont, ordn, ordn)})
      o0 = body.o[st]
      cl = match_close(mask, brace)
      add_op(st, brace, "{ let mut vx_v%d = %s; let ghost vx_o%d = vx_v%d@; let mut vx_i%d: usize = 0; let _ = vx_v%d.len();\n while vx_v%d.len() > 0 " % (ordn, cont, ordn, ordn, ordn, ordn, ordn), o0)
      ins2 = [("\n      invariant\n        vx_i%d + vx_v%d@.len() == vx_o%d.len(), vx_o%d.len() <= usize::MAX, vx_v%d@ =~= vx_o%d.skip(vx_i%d as int), vx_o%d == %s@,\n" % (ordn, ordn, ordn, ordn, ordn, ordn, ordn, ordn, cont), gen.tag({"kind": "kw", "fn": qual}))]
      if spec.get("invariant"):
        ins2 += _clause_lines(gen, spec["invariant"], qual, "invariant", "        ")
      ins2.append(("\n      decreases vx_v%d@.len()\n" % ordn, gen.tag({"kind": "kw", "fn": qual})))
      for text, t in ins2:
        add_op(brace, brace, text, t)
      add_op(brace + 1, brace + 1, " let %s = vx_v%d.remove(0); vx_i%d += 1;\n" % (xv, ordn, ordn), o0)
      add_op(cl + 1, cl + 1, " }", o0)
      continue
    if kw == "for" and spec.get("desugar_enum"):
      # R9e: `for (I, X) in C.iter_mut().enumerate() { B }`  ==>  indexed while loop over the same container; inside B the element
      #      binding X is spelled C[I] (reads through Index; `C[I].set_flags(e);` is the IndexMut call R6 turns into C.verif_set_flags(I, e)):
      #      { let vx_nN = C.len(); let mut vx_iN: usize = 0; while vx_iN < vx_nN { let I = vx_iN; vx_iN += 1; B[X := C[I]] } }
      hdr = body.s[st:brace]
      m = re.match(r"for\s+\(\s*(\w+)\s*,\s*(\w+)\s*\)\s+in\s+([\w\.]+)\.iter_mut\(\)\.enumerate\(\)(?:\.skip\(([\w\.\(\) \+\-]+)\))?\s*$", hdr, re.S)
      if not m:
        raise VxError("for-loop #%d header of %s::%s is not `for (i, x) in c.iter_mut().enumerate()[.skip(n)]`: %r (anchor lost)" % (ordn, f.file, f.name, hdr))
      iv, xv, cont = m.group(1), m.group(2), m.group(3)
      skip_e = m.group(4)   # `.enumerate().skip(n)`: the same loop starting at index min(n, len)
      gen.drops.append({"rule": "R9e", "at": "%s:%s" % (where, body.o[st]), "what": "for (%s, %s) in %s.iter_mut().enumerate() -> indexed while loop, %s spelled %s[%s] (vx_n%d/vx_i%d)" % (iv, xv, cont, xv, cont, iv, ordn, ordn)})
      o0 = body.o[st]
      cl = match_close(mask, brace)
      # element binding -> indexed access, right to left inside the body
      for xm in reversed(list(re.finditer(r"(?<![A-Za-z0-9_\.])%s\b" % re.escape(xv), mask[brace + 1:cl]))):
        a, b = brace + 1 + xm.start(), brace + 1 + xm.end()
        sm = re.match(r"\.set_flags\(", mask[b:cl])
        if sm:
          # `X.set_flags(e)` is a write through the element binding (IndexMut on FrameBatch is outside Verus): R6 spelling
          add_op(a, b + sm.end(), "%s.verif_set_flags(%s, " % (cont, iv), body.o[a])
        else:
          add_op(a, b, "%s[%s]" % (cont, iv), body.o[a])
      start_e = "0" if not skip_e else "(if %s < vx_n%d { %s } else { vx_n%d })" % (skip_e, ordn, skip_e, ordn)
      add_op(st, brace, "{ let vx_n%d = %s.len(); let mut vx_i%d: usize = %s;\n while vx_i%d < vx_n%d " % (ordn, cont, ordn, start_e, ordn, ordn), o0)
      ins2 = [("\n      invariant\n        vx_i%d <= vx_n%d, %s@.len() == vx_n%d,\n" % (ordn, ordn, cont, ordn), gen.tag({"kind": "kw", "fn": qual}))]
      if spec.get("invariant"):
        ins2 += _clause_lines(gen, spec["invariant"], qual, "invariant", "        ")
      ins2.append(("\n      decreases vx_n%d - vx_i%d\n" % (ordn, ordn), gen.tag({"kind": "kw", "fn": qual})))
      for text, t in ins2:
        add_op(brace, brace, text, t)
      add_op(brace + 1, brace + 1, " let %s = vx_i%d; vx_i%d += 1;\n" % (iv, ordn, ordn), o0)
      add_op(cl + 1, cl + 1, " }", o0)
      continue
    if kw == "for" and spec.get("desugar"):
      # R9: `for PAT in EXPR { B }` over a slice  ==>  indexed while loop (Verus' for-loops reject continue/break);
      #     { let vx_sN = EXPR; let mut vx_iN: usize = 0; while vx_iN < vx_sN.len() { let PAT = &vx_sN[vx_iN]; vx_iN += 1; B } }
      hdr = body.s[st:brace]
      m = re.match(r"for\s+(.+?)\s+in\s+(.+?)(\s*)$", hdr, re.S)
      if not m:
        raise VxError("for-loop #%d header of %s::%s not understood: %r" % (ordn, f.file, f.name, hdr))
      pat, expr = m.group(1), m.group(2).strip()
      if spec.get("iter_sub"):
        old_e, new_e = spec["iter_sub"]
        if expr != old_e:
          raise VxError("for-loop #%d of %s::%s iterates %r, expected %r: anchor lost" % (ordn, f.file, f.name, expr, old_e))
        expr = new_e
      gen.drops.append({"rule": "R9", "at": "%s:%s" % (where, body.o[st]), "what": "for %s in %s -> indexed while loop over the same slice (vx_s%d/vx_i%d)" % (pat, m.group(2).strip(), ordn, ordn)})
      o0 = body.o[st]
      add_op(st, brace, "{ let vx_s%d = %s; let mut vx_i%d: usize = 0;\n while vx_i%d < vx_s%d.len() " % (ordn, expr, ordn, ordn, ordn), o0)
      for text, t in ins:
        add_op(brace, brace, text, t)
      if pat.strip().startswith("&") and re.match(r"&\s*(mut\s+)?\w+$", pat.strip()):
        # `for &x in slice`: the element is copied out (Verus has no reference patterns)
        add_op(brace + 1, brace + 1, " let %s = vx_s%d[vx_i%d]; vx_i%d += 1;\n" % (pat.strip()[1:].strip(), ordn, ordn, ordn), o0)
      else:
        add_op(brace + 1, brace + 1, " let %s = &vx_s%d[vx_i%d]; vx_i%d += 1;\n" % (pat, ordn, ordn, ordn), o0)
      cl = match_close(mask, brace)
      add_op(cl + 1, cl + 1, " }", o0)
      continue
    if kw == "loop" and spec.get("break_value"):
      # R10: `let NAME = loop { .. break EXPR; .. };`  ==>  `let mut vx_bN = None; loop { .. { vx_bN = Some(EXPR); break; } .. } let NAME = vx_bN.unwrap();`
      # (Verus has no break-with-value; unwrap() carries the obligation that the loop is only left through such a break)
      pre = re.search(r"let\s+([A-Za-z_][A-Za-z0-9_]*)\s*=\s*$", body.s[:st])
      cl = match_close(mask, brace)
      post = re.match(r"\s*;", body.s[cl + 1:])
      if not pre or not post:
        raise VxError("loop #%d of %s::%s is not of the form `let x = loop { .. };`: anchor lost" % (ordn, f.file, f.name))
      o0 = body.o[st]
      gen.drops.append({"rule": "R10", "at": "%s:%s" % (where, o0), "what": "let %s = loop { .. break EXPR; .. } -> Option-valued local vx_b%d set before a plain break, unwrap() after the loop" % (pre.group(1), ordn)})
      add_op(pre.start(), st, "let mut vx_b%d = None;\n" % ordn, o0)
      for bm in re.finditer(r"\bbreak\s+([^;]+);", mask[brace:cl]):
        a, b = brace + bm.start(), brace + bm.end()
        add_op(a, b, "{ vx_b%d = Some(%s); break; }" % (ordn, body.s[brace + bm.start(1):brace + bm.end(1)]), body.o[a])
      add_op(cl + 1, cl + 1 + post.end(), "\n let %s = vx_b%d.unwrap();" % (pre.group(1), ordn), o0)
      ins.append(("\n      ensures\n        vx_b%d is Some,\n" % ordn, gen.tag({"kind": "kw", "fn": qual}))) if not spec.get("ensures") else ins.append(("        vx_b%d is Some,\n" % ordn, gen.tag({"kind": "kw", "fn": qual})))
    for text, t in ins:
      add_op(brace, brace, text, t)
    if kw == "for" and (spec.get("ghost_iter") or spec.get("iter_sub")):
      hdr = body.s[st:brace]
      m = re.match(r"for\s+(.+?)\s+in\s+(.+?)(\s*)$", hdr, re.S)
      if not m:
        raise VxError("for-loop #%d header of %s::%s not understood: %r" % (ordn, f.file, f.name, hdr))
      expr = m.group(2)
      if spec.get("iter_sub"):
        old_e, new_e = spec["iter_sub"]
        if expr.strip() != old_e:
          raise VxError("for-loop #%d of %s::%s iterates %r, expected %r: anchor lost" % (ordn, f.file, f.name, expr, old_e))
        gen.drops.append({"rule": "R8", "at": "%s:%s" % (where, body.o[st]), "what": "for .. in %s -> for .. in %s (same element sequence, see trusted base)" % (old_e, new_e)})
        expr = new_e
      gi = spec.get("ghost_iter")
      newhdr = "for %s in %s%s%s" % (m.group(1), (gi + ": ") if gi else "", expr, m.group(3))
      add_op(st, brace, newhdr, body.o[st])
  if not f.contract_only:
    for mp in f.mut_params:
      add_op(1, 1, "\n    let mut %s__m = %s;\n" % (mp, mp), sigline)
  # ---- R11 await-point assertions: `EXPR.await` -> `{ proof { assert(INV); } EXPR.await }` for every await of the body (a future can be
  #      dropped exactly at the points where it returned Pending, i.e. at an await)
  if f.await_inv and not f.contract_only:
    n_aw = 0
    for am in re.finditer(r"\.await\b", mask):
      k = am.start()
      # walk back over the postfix chain: identifiers, `.`, `::`, `?`, `&`, balanced (..) and [..]
      j = k
      while j > 0:
        ch = mask[j - 1]
        if ch in ")]":
          depth, j2 = 0, j - 1
          while j2 >= 0:
            if mask[j2] in ")]":
              depth += 1
            elif mask[j2] in "([":
              depth -= 1
              if depth == 0:
                break
            j2 -= 1
          j = j2
        elif ch.isalnum() or ch in "_.:?&":
          j -= 1
        elif ch in " \n\t" and mask[j:k + 1].lstrip().startswith("."):
          # method chain broken over lines: `self\n  .core_pipe_manager\n  .recv()`
          j = len(mask[:j].rstrip())
        else:
          break
      start = j
      while start < k and mask[start] in " \n\t":
        start += 1
      n_aw += 1
      txt = "".join("assert(%s); " % (c if isinstance(c, str) else c[1]) for c in f.await_inv)
      t = gen.tag({"kind": "hint", "fn": qual, "name": "%s.%s" % (qual, f.await_inv[0][0]), "text": " ".join(txt.split())})
      add_op(start, start, "{\nproof { %s}\n" % txt, t)  # own line: a failing await-point assertion maps to its named obligation
      add_op(am.end(), am.end(), " }", body.o[k])
    if n_aw:
      gen.obligations.append({"name": "%s.%s" % (qual, f.await_inv[0][0]), "fn": qual, "kind": "hint", "text": "at each of the %d await points: %s" % (n_aw, "; ".join(c[1] for c in f.await_inv))})
    gen.drops.append({"rule": "R11", "at": "%s:%d" % (where, sigline), "what": "%d await points of %s wrapped with the await-point assertion" % (n_aw, qual)})
  # ---- structural hints: @fn_start, @loop_start:N, @loop_end:N (robust against edits of statement text)
  text_hints = []
  for h in f.hints:
    name, anchor, occ, side, text = h
    if not anchor.startswith("@"):
      text_hints.append(h)
      continue
    t = gen.tag({"kind": "hint", "fn": qual, "name": "%s.hint.%s" % (qual, name), "text": " ".join(text.split())})
    if anchor == "@fn_start":
      add_op(1, 1, "\n" + text.rstrip("\n") + "\n", t)
      continue
    m = re.match(r"@loop_(start|end|before):(\d+)$", anchor)
    if not m:
      raise VxError("bad structural anchor %r" % anchor)
    n = int(m.group(2))
    if n >= len(sites):
      gen.skipped_hints.append({"fn": qual, "hint": name, "anchor": anchor, "why": "loop #%d not found" % n})
      continue
    brace = sites[n][2]
    if m.group(1) == "before":
      # right before the loop statement: start of the line holding the loop keyword (or a `let x = loop`/label prefix on that line)
      ls = mask.rfind("\n", 0, sites[n][0]) + 1
      add_op(ls, ls, text.rstrip("\n") + "\n", t)
      continue
    if m.group(1) == "start":
      add_op(brace + 1, brace + 1, "\n" + text.rstrip("\n") + "\n", t)
    else:
      cl = match_close(mask, brace)
      add_op(cl, cl, "\n" + text.rstrip("\n") + "\n", t)
  for pos, end, text, origin, _ in sorted(ops, key=lambda o: (-o[0], -o[4])):
    body.replace(pos, end, text, origin)
  # ---- text-anchored hints ("re:<regex>" or literal). A lost anchor skips the hint (recorded); it never aborts.
  # A hint that uses a ghost variable declared by a skipped hint is skipped too (it could not even be type-checked).
  lost_ghosts = set()
  for h in text_hints:
    name, anchor, occ, side, text = h
    dep = [g for g in lost_ghosts if re.search(r"\b%s\b" % re.escape(g), text)]
    if dep:
      gen.skipped_hints.append({"fn": qual, "hint": name, "anchor": anchor, "why": "uses ghost %s declared by a hint whose anchor is lost" % ", ".join(sorted(dep))})
      lost_ghosts.update(re.findall(r"let ghost (?:mut )?([A-Za-z_][A-Za-z0-9_]*)", text))
      continue
    idx, alen = -1, 0
    start = 0
    lost = False
    for _ in range(occ + 1):
      if anchor.startswith("re:"):
        mm = re.compile(anchor[3:]).search(body.s, start)
        idx, alen = (mm.start(), mm.end() - mm.start()) if mm else (-1, 0)
      else:
        idx, alen = body.s.find(anchor, start), len(anchor)
      if idx < 0:
        lost = True
        break
      start = idx + 1
    if lost:
      gen.skipped_hints.append({"fn": qual, "hint": name, "anchor": anchor, "why": "anchor text not found (occurrence %d)" % occ})
      lost_ghosts.update(re.findall(r"let ghost (?:mut )?([A-Za-z_][A-Za-z0-9_]*)", text))
      continue
    if side == "before":
      p = body.s.rfind("\n", 0, idx) + 1
    elif side == "after":
      p = body.s.find("\n", idx + max(alen - 1, 0))
      p = len(body.s) if p < 0 else p + 1
    elif side == "at":
      p = idx
    else:
      p = idx + alen
    t = gen.tag({"kind": "hint", "fn": qual, "name": "%s.hint.%s" % (qual, name), "text": " ".join(text.split())})
    tail = "\n" if side in ("before", "after") else " "
    body.insert(p, text.rstrip("\n") + tail, t)
  out.s += body.s
  out.o += body.o
  out.s += "\n"
  out.o.append(out.o[-1])
  gen.functions.append({"fn": qual, "file": f.file, "line": sigline,
                        "requires": len(req), "ensures": len(f.ensures),
                        "loops_with_invariant": len(f.loops), "hints": len(f.hints), "safety_props": f.safety_props})
  return out, qual


def extract_item(gen, it):
  src = Src.get(it.file)
  within = src.find_block(it.within) if it.within else None
  a, b = src.find_item(it.kind, it.name, within)
  ot = OText.from_source(src.text, a, b)
  # derive(Clone, Copy) on the original item is kept (needed for by-value matches); other derives dropped
  derive = ""
  k = a
  while True:
    ps = src.text.rfind("\n", 0, k - 1) + 1
    prev = src.text[ps:k].strip()
    if prev.startswith("#[") or prev.startswith("///") or prev.startswith("//"):
      m = re.match(r"#\[derive\(([^)]*)\)\]", prev)
      if m:
        keep = [d.strip() for d in m.group(1).split(",") if d.strip() in it.keep_derive]
        if "Copy" not in keep:
          keep = []  # Clone without Copy would drag Clone bounds onto every stand-in field type
        if "PartialEq" in keep and "Eq" in keep:
          keep.append("Structural")  # derived PartialEq on a plain enum IS structural equality; tells Verus so
        if keep:
          derive = "#[derive(%s)]\n" % ", ".join(keep)
      k = ps
      if ps == 0:
        break
    else:
      break
  # R5: visibility normalised to `pub` (item and, for structs, every field) so that spec functions may mention them
  m = re.match(r"\s*(pub(\([a-z]+\))?\s+)?", ot.s)
  ot.replace(0, m.end(), "pub ")
  if it.kind == "struct":
    pos = 0
    while True:
      mm = re.compile(r"(?m)^([ \t]+)(pub(?:\([a-z]+\))?\s+)?([A-Za-z_][A-Za-z0-9_]*\s*:)").search(ot.s, pos)
      if not mm:
        break
      rep = mm.group(1) + "pub " + mm.group(3)
      ot.replace(mm.start(), mm.end(), rep)
      pos = mm.start() + len(rep)
  # strip doc comments and attributes inside (R5)
  while True:
    m = re.search(r"(?m)^[ \t]*(///[^\n]*|#\[[^\]\n]*\])[ \t]*\n", ot.s)
    if not m:
      break
    ot.replace(m.start(), m.end(), "\n")
  rewrite(ot, gen.drops, it.file, it.extra)
  if it.kind in ("const", "static"):
    # R5: elided 'static in const types is spelled out (Verus treats constants as nullary functions)
    mm = re.match(r"(pub\s+(?:const|static)\s+[A-Za-z_][A-Za-z0-9_]*\s*:\s*)&(?!'static)", ot.s)
    if mm:
      ot.replace(mm.end() - 1, mm.end(), "&'static ")
    # R3: a byte-slice constant initialised by an array literal cannot be coerced in a const context: emitted as an
    # external exec const whose ensures is read off the literal
    mc = re.match(r"pub\s+const\s+([A-Za-z_][A-Za-z0-9_]*)\s*:\s*&'static\s*\[u8\]\s*=\s*&\[([^\]]*)\]\s*;", ot.s, re.S)
    if mc:
      lst = mc.group(2).strip()
      seq = "Seq::<u8>::empty()" if ";" in lst or not lst else "seq![%s]" % lst
      org = ot.o[0]
      newt = "#[verifier::external_body]\npub exec const %s: &'static [u8]\n  ensures %s@ =~= %s\n{ &[%s] }" % (mc.group(1), mc.group(1), seq, lst)
      tail = ot.s[mc.end():]
      ot.s = newt + tail
      ot.o = [org] * len(newt) + ot.o[mc.end():]
  if derive:
    ot.insert(0, derive, ot.o[0])
  gen.drops.append({"rule": "R5", "at": "%s:%d" % (it.file, src.line_of(a)), "what": "%s %s: attributes/doc comments/visibility dropped" % (it.kind, it.name)})
  return ot


def generate(unit, probe=False):
  """unit: object with .name, .parts (list of Raw | Item | Fn | ('impl', header, [Fn...]))"""
  gen = Gen(unit.name)
  gen.emit_raw("// GENERATED by vx from %s working tree -- unit %s%s\n#![allow(unused)]\n#![feature(allocator_api)]\nuse vstd::prelude::*;\nverus! {\nglobal size_of usize == 8;\n" % (REPO, unit.name, " (vacuity probe)" if probe else ""), "vx-header")
  for part in unit.parts:
    if isinstance(part, Raw):
      text = part.text if part.text is not None else open(os.path.join(os.path.dirname(os.path.abspath(__file__)), "..", part.path)).read()
      gen.emit_raw("// ---- hand-written (trusted/spec): %s" % part.label, "vx")
      first = len(gen.lines)
      gen.emit_raw(text, part.label)
      if part.lemmas:
        for i in range(first, len(gen.lines)):
          m = re.match(r"\s*(?:pub\s+)?(?:broadcast\s+)?proof\s+fn\s+([A-Za-z0-9_]+)", gen.lines[i])
          if m:
            nm = ("+".join(part.props) + ":" if part.props else "") + "lemma." + m.group(1)
            gen.lemmas.append({"name": nm, "fn": m.group(1), "start": i + 1, "src": part.label})
    elif isinstance(part, Scan):
      src = Src.get(part.file)
      within = src.find_block(part.impl, containing_fn=part.name) if part.impl else None
      ls, bo, bc = src.find_fn(part.name, within, 0)
      n = len([m for m in re.finditer(part.pattern, src.text[bo:bc]) if src.mask[bo + m.start()] == src.text[bo + m.start()]])
      if n != part.expect:
        raise VxError("anchor lost: fn %s of %s mentions /%s/ %d times, the unit covers %d (%s)" % (part.name, part.file, part.pattern, n, part.expect, part.why))
      gen.drops.append({"rule": "SCAN", "at": "%s:%d" % (part.file, src.line_of(ls)), "what": "fn %s mentions /%s/ exactly %d times: %s" % (part.name, part.pattern, n, part.why)})
    elif isinstance(part, Item):
      ot = extract_item(gen, part)
      if part.kind in ("struct", "enum") and part.keep_derive:
        pass
      gen.emit_raw("// ---- extracted %s %s from %s" % (part.kind, part.name, part.file), "vx")
      gen.emit_otext(ot, part.file)
    elif isinstance(part, Fn):
      ot, qual = extract_fn(gen, part, probe and part.probe)
      gen.emit_raw("// ---- extracted fn %s from %s" % (qual, part.file), "vx")
      if part.emit_impl:
        gen.emit_raw(part.emit_impl + " {", "vx")
      gen.emit_otext(ot, part.file)
      if part.emit_impl:
        gen.emit_raw("}", "vx")
    else:
      raise VxError("bad unit part %r" % (part,))
  gen.emit_raw("\n} // verus!\nfn main() {}\n", "vx-footer")
  return gen
