#!/bin/sh
# Offline setup: nothing to download. Warms the Kani dependency cache (optional; checks build it lazily).
cd "$(dirname "$0")" || exit 1
mkdir -p .cache evidence replays
python3 -c "import vlib.check" || exit 1
verus --version >/dev/null 2>&1 || { echo "verus missing"; exit 1; }
if [ "${VERIF_SKIP_KANI_WARMUP:-0}" != "1" ]; then
  python3 -m vlib.warmup || echo "kani warm-up failed (checks will build lazily)"
fi
exit 0
